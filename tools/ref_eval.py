#!/usr/bin/env python3
"""Evaluate one behaviour-preserving refactor: the test suite must pass with it, and every listed
property check must still exit 0 against the patched scratch copy (no false alarm, no UNDECIDED).
usage: tools/ref_eval.py <diff> <id> <prop> [<prop> ...]
Keeps <diff> under /verif/benign/<id>/ with a meta.json of the verdicts."""
import json, os, shutil, subprocess, sys, tempfile, time
diff, rid, props = sys.argv[1], sys.argv[2], sys.argv[3:]
D = tempfile.mkdtemp(prefix="refeval.", dir="/tmp")
try:
    subprocess.run(["git", "-C", "/repo", "worktree", "add", "--detach", D + "/wt%d" % os.getpid(), "HEAD", "-q"], check=True)
    W = D + "/wt%d" % os.getpid()
    ap = subprocess.run(["git", "-C", W, "apply", os.path.abspath(diff)], capture_output=True, text=True)
    if ap.returncode:      # the tree has moved on since the patch was written: three-way merge against its base blobs
        ap = subprocess.run(["git", "-C", W, "apply", "--3way", os.path.abspath(diff)], capture_output=True, text=True)
        subprocess.run(["git", "-C", W, "reset", "-q"], capture_output=True)
    if ap.returncode:
        print("PATCH FAILED", ap.stderr); sys.exit(2)
    t = subprocess.run(["/venv/bin/python", "-m", "pytest", "-q", "-p", "no:cacheprovider", "--deselect", "tests/test_phase_predictor.py::TestPredictor::test_basic"],
                       cwd=W, env=dict(os.environ, PYTHONPATH=W), capture_output=True, text=True)
    # properties to run: the named ones + every property with a contract on a touched function (or on the
    # touched file when the touched function has no contract of its own and may be inlined into callers)
    import ast, glob, re
    touched = set()
    dz = subprocess.run(["git", "-C", W, "diff", "-U0"], capture_output=True, text=True).stdout
    cur = None
    for l in dz.splitlines():
        if l.startswith("+++ b/"):
            cur = l[6:]
        m = re.match(r"@@ -\d+(?:,\d+)? \+(\d+)(?:,(\d+))? @@", l)
        if m and cur and cur.endswith(".py"):
            a, n = int(m.group(1)), int(m.group(2) or 1)
            tree = ast.parse(open(os.path.join(W, cur)).read())
            mod = cur[:-3].replace("/", ".").replace(".__init__", "")
            def walk(node, prefix):
                for ch in ast.iter_child_nodes(node):
                    if isinstance(ch, (ast.FunctionDef, ast.ClassDef)):
                        q = prefix + "." + ch.name
                        if ch.lineno - len(ch.decorator_list) <= a + max(n, 1) - 1 and a <= ch.end_lineno:
                            if isinstance(ch, ast.FunctionDef):
                                touched.add((mod, q))
                            walk(ch, q)
            walk(tree, mod)
    allfn = {}
    for f in glob.glob("/verif/evidence/C*.json"):
        e = json.load(open(f))
        for fn in e["coverage"]["functions_under_contract"]:
            allfn.setdefault(fn, set()).add(e["property_id"])
    extra = set()
    for mod, q in touched:
        hit = [ps for fn, ps in allfn.items() if fn == q or fn.startswith(q + ".")]
        if hit:
            for ps in hit: extra |= ps
        else:
            for fn, ps in allfn.items():
                if fn.startswith(mod + "."): extra |= ps
    # with the modular closure nearly every property reaches the core helpers: besides the named property run
    # the (at most three) cheapest other checks that cover a touched function
    wall = {}
    for f in glob.glob("/verif/evidence/C*.json"):
        e = json.load(open(f))
        wall[e["property_id"]] = e.get("wall_s", 999)
    extra = sorted(extra - set(props), key=lambda q: wall.get(q, 999))[:3]
    props = list(dict.fromkeys(props + extra))
    print(rid, "touched:", sorted(q for _, q in touched), "-> checks:", props)
    res = {}
    for p in props:
        t0 = time.time()
        chk = subprocess.run(["./check", p, "--tier", "quick"], cwd="/verif", env=dict(os.environ, VERIF_REPO=W), capture_output=True, text=True)
        lines = [l for l in chk.stdout.splitlines() if l.startswith(("VIOLATION", "KNOWN", "UNDECIDED", "CHECKER"))]
        res[p] = {"exit": chk.returncode, "wall_s": round(time.time() - t0, 1), "lines": [l[:300] for l in lines[:6]]}
    out = f"/verif/benign/{rid}"
    os.makedirs(out, exist_ok=True)
    shutil.copy(diff, out + "/patch.diff")
    json.dump({"id": rid, "test_suite_passes_with_patch": t.returncode == 0, "test_tail": t.stdout.strip().splitlines()[-1:], "checks": res,
               "all_quiet": all(r["exit"] == 0 for r in res.values())}, open(out + "/meta.json", "w"), indent=1)
    print(rid, "tests:", t.returncode == 0, {p: r["exit"] for p, r in res.items()})
    for p, r in res.items():
        if r["exit"]:
            for l in r["lines"][:3]:
                print("   ", p, l[:220])
finally:
    subprocess.run(["git", "-C", "/repo", "worktree", "remove", "--force", D + "/wt%d" % os.getpid()], capture_output=True)
    shutil.rmtree(D, ignore_errors=True)
