#!/usr/bin/env python3
"""Evaluate one seeded mutant: confirm (tests pass with it, demo fails with it and passes without),
run the property's check against the mutated copy, store everything under /verif/seeded/<id>/.
usage: tools/seed_eval.py <prop> <diff> <demo> <id> [--tier quick]"""
import json, os, shutil, subprocess, sys, tempfile, time
prop, diff, demo, sid = sys.argv[1:5]
tier = sys.argv[6] if len(sys.argv) > 6 else "quick"
D = tempfile.mkdtemp(prefix="seedeval.", dir="/tmp")
try:
    subprocess.run(["git", "-C", "/repo", "worktree", "add", "--detach", D + "/wt%d" % os.getpid(), "HEAD", "-q"], check=True)
    W = D + "/wt%d" % os.getpid()
    env = dict(os.environ, PYTHONPATH=W)
    def run(cmd, **kw):
        return subprocess.run(cmd, cwd=W, env=env, capture_output=True, text=True, **kw)
    shutil.copy(demo, W + "/_demo.py")
    demo_local = W + "/_demo.py"
    demo_clean = run(["/venv/bin/python", demo_local]).returncode
    ap = subprocess.run(["git", "-C", W, "apply", diff], capture_output=True, text=True)
    if ap.returncode:      # the tree has moved on since the patch was written: three-way merge against its base blobs
        ap = subprocess.run(["git", "-C", W, "apply", "--3way", diff], capture_output=True, text=True)
        subprocess.run(["git", "-C", W, "reset", "-q"], capture_output=True)
    if ap.returncode:
        print("PATCH FAILED", ap.stderr); sys.exit(2)
    demo_mut = run(["/venv/bin/python", demo_local]).returncode
    t = run(["/venv/bin/python", "-m", "pytest", "-q", "-p", "no:cacheprovider", "--deselect", "tests/test_phase_predictor.py::TestPhase::test_basic",
             "--deselect", "tests/test_phase_predictor.py::TestPhase::test_common_operations", "--deselect", "tests/test_phase_predictor.py::TestPhase::test_math_operations",
             "--deselect", "tests/test_phase_predictor.py::TestPredictor::test_basic", "--deselect", "tests/test_phase_predictor.py::TestPredictor::test_polyco_entry",
             "--deselect", "tests/test_phase_predictor.py::TestPredictor::test_stringio", "--deselect", "tests/test_phase_predictor.py::TestPredictor::test_time_at"])
    tests_ok = t.returncode == 0
    t0 = time.time()
    chk = subprocess.run(["./check", prop, "--tier", tier], cwd="/verif", env=dict(os.environ, VERIF_REPO=W), capture_output=True, text=True)
    lines = [l for l in chk.stdout.splitlines() if l.startswith(("VIOLATION", "KNOWN", "UNDECIDED", "CHECKER")) or " exit=" in l]
    lines.sort(key=lambda l: 0 if l.startswith("VIOLATION") else 1)      # violations first: only eight lines are kept
    out = f"/verif/seeded/{sid}"
    os.makedirs(out, exist_ok=True)
    for src, dst in ((diff, out + "/patch.diff"), (demo, out + "/" + os.path.basename(demo))):
        if os.path.abspath(src) != os.path.abspath(dst):
            shutil.copy(src, dst)
    meta = {"id": sid, "property": prop, "confirmed": {"demo_exit_clean_tree": demo_clean, "demo_exit_with_patch": demo_mut, "test_suite_passes_with_patch": tests_ok,
            "test_tail": t.stdout.strip().splitlines()[-1:] },
            "check": {"cmd": f"VERIF_REPO=<scratch worktree with patch> ./check {prop} --tier {tier}", "exit": chk.returncode, "wall_s": round(time.time() - t0, 1),
                      "lines": [l[:300] for l in lines[:8]]},
            "detected": chk.returncode == 1}
    json.dump(meta, open(out + "/meta.json", "w"), indent=1)
    print(sid, "demo clean/mut:", demo_clean, demo_mut, "tests:", tests_ok, "check exit:", chk.returncode, "|", (lines[0][:160] if lines else ""))
finally:
    subprocess.run(["git", "-C", "/repo", "worktree", "remove", "--force", D + "/wt%d" % os.getpid()], capture_output=True)
    shutil.rmtree(D, ignore_errors=True)
