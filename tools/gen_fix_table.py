#!/usr/bin/env python3
"""Print the table of repaired defects and the list of known findings (DESIGN section 8) from known_findings.json."""
import json, os
d = json.load(open(os.path.join(os.path.dirname(os.path.abspath(__file__)), "..", "known_findings.json")))
print("| property | commit | what failed (input) |")
print("|---|---|---|")
for f in d["fixed"]:
    line = f["line"].split(" ", 3)[3] if f["line"].startswith("fixed:") else f["what"]
    line = line.replace("|", "/")
    print("| %s | %s | %s |" % (f["property"], f["commit"][:7], line))
print()
print("Known findings (recorded, not repaired):\n")
for k in d["findings"]:
    also = (" (also surfaces under " + ", ".join(k["also_under"]) + ")") if k.get("also_under") else ""
    print("* **%s** (%s%s): %s" % (k["id"], k["property"], also, k["what"]))
