#!/bin/sh
# re-run every kept behaviour-preserving refactor against the current checks (false-alarm regression); usage: tools/benign_regress.sh [glob]
cd "$(dirname "$0")/.."
for d in benign/${1:-*}/; do
  id=$(basename $d); prop=${id%-*}
  cp ${d}patch.diff /tmp/benign_$id.diff
  python3 tools/ref_eval.py /tmp/benign_$id.diff $id $prop 2>&1 | tail -1 | cut -c1-260
  rm -f /tmp/benign_$id.diff
done
