#!/bin/sh
# usage: tools/mutdiff.sh <prop> <diff>   -- apply a diff to a scratch worktree of /repo HEAD, run the check, remove the worktree
D=$(mktemp -d /tmp/mutdiff.XXXXXX)
git -C /repo worktree add --detach "$D/wt$$" HEAD -q || exit 9
if ! git -C "$D/wt$$" apply "$2" 2>/dev/null && ! { git -C "$D/wt$$" apply --3way "$2" && git -C "$D/wt$$" reset -q; }; then echo "PATCH FAILED"; git -C /repo worktree remove --force "$D/wt$$"; rm -rf "$D"; exit 9; fi
cd /verif && VERIF_REPO="$D/wt$$" ./check "$1" --tier ${3:-quick} | grep -E "VIOLATION|KNOWN|UNDECIDED|CHECKER|exit=" | cut -c1-330
git -C /repo worktree remove --force "$D/wt$$"; rm -rf "$D"
