#!/bin/sh
# re-run every kept seeded change against the current checks (detection regression); usage: tools/seed_regress.sh [glob]
cd "$(dirname "$0")/.."
for d in seeded/${1:-*}/; do
  id=$(basename $d); prop=${id%-*}
  demo=$(ls $d/demo_*.py | head -1)
  cp $d/meta.json /tmp/meta_$id.json
  python3 tools/seed_eval.py $prop "$(pwd)/${d}patch.diff" "$(pwd)/$demo" $id | cut -c1-260
  python3 - $id <<'PY'
import json,sys
i=sys.argv[1]
old=json.load(open(f'/tmp/meta_{i}.json')); new=json.load(open(f'/verif/seeded/{i}/meta.json'))
for k in ('breaks','needs_to_manifest','detected_by_checks_as_first_built','source','note','strengthening','first_verdict_exit'):
    if k in old: new[k]=old[k]
json.dump(new,open(f'/verif/seeded/{i}/meta.json','w'),indent=1)
PY
  rm -f /tmp/meta_$id.json
done
