#!/bin/sh
# run every quick check with several seeds; print only non-zero exits (false-alarm hunt on the unchanged tree)
cd "$(dirname "$0")/.."
./setup.sh >/dev/null 2>&1
for s in ${SEEDS:-2 3 4 5 6}; do
  for p in C01 C02 C03 C04 C05 C06 C07 C08 C09 C10 C11 C12 C13 C15 C16 C17 C18 C19 C20 C14; do
    out=$(VERIF_SEED=$s VERIF_SCRATCH_EVIDENCE=1 ./check $p --tier quick 2>&1); rc=$?
    if [ $rc -ne 0 ]; then echo "SEED $s $p exit $rc"; echo "$out" | grep -E "VIOLATION|UNDECIDED|CHECKER" | cut -c1-400 | head -5; fi
  done
  echo "seed $s done"
done
