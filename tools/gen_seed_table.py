#!/usr/bin/env python3
"""Print the table of seeded changes (DESIGN section 10) from seeded/*/meta.json and of benign refactors from benign/*/meta.json."""
import json, glob, os, re
root = os.path.join(os.path.dirname(os.path.abspath(__file__)), "..")
rows = []
for f in sorted(glob.glob(os.path.join(root, "seeded", "*", "meta.json"))):
    m = json.load(open(f))
    ob = ""
    for l in m["check"]["lines"]:
        g = re.search(r"obligation=C\d\d/(.+?)(?:\{| no-failing-input-found|$)", l)
        if l.startswith("VIOLATION") and g:
            ob = g.group(1)
            break
    rows.append((m["id"], "yes" if m["detected"] else f"NO (exit {m['check']['exit']})", m["confirmed"]["test_suite_passes_with_patch"], m["confirmed"]["demo_exit_with_patch"], ob[:110], (m.get("breaks") or "")[:90]))
print("| id | detected by the quick check | first named obligation | what the change breaks |")
print("|---|---|---|---|")
for r in rows:
    print(f"| {r[0]} | {r[1]} | `{r[4]}` | {r[5]} |")
print()
print(sum(1 for r in rows if r[1] == "yes"), "of", len(rows), "detected")
print()
ben = []
for f in sorted(glob.glob(os.path.join(root, "benign", "*", "meta.json"))):
    m = json.load(open(f))
    ben.append((m["id"], m["test_suite_passes_with_patch"], {p: r["exit"] for p, r in m["checks"].items()}, m["all_quiet"]))
print("| refactor | suite passes | property checks run (exit) | all quiet |")
print("|---|---|---|---|")
for b in ben:
    print(f"| {b[0]} | {b[1]} | {' '.join(f'{p}:{e}' for p, e in b[2].items())} | {'yes' if b[3] else 'NO'} |")
print()
print(sum(1 for b in ben if b[3]), "of", len(ben), "quiet")
