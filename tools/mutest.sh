#!/bin/sh
# usage: tools/mutest.sh <prop> <file-relative-to-pulsarbat> <sed-expression>   (scratch copy under /tmp; removed afterwards)
set -e
D=$(mktemp -d /tmp/mut.XXXXXX)
cp -r /repo/pulsarbat "$D/"
sed -i "$3" "$D/pulsarbat/$2"
if diff -q /repo/pulsarbat/$2 "$D/pulsarbat/$2" >/dev/null; then echo "MUTATION DID NOT APPLY"; rm -rf "$D"; exit 9; fi
cd /verif && VERIF_REPO="$D" ./check "$1" --tier quick | grep -E "VIOLATION|KNOWN|UNDECIDED|CHECKER|exit=" | cut -c1-300
rm -rf "$D"
