#!/bin/sh
# all quick checks on /repo, 3 at a time.  EVID=1: write the committed evidence (default: scratch evidence);
# REBASE=1: also rewrite the baseline of obligation kinds from this run
cd "$(dirname "$0")/.."
FLAGS=""; [ "$REBASE" = 1 ] && FLAGS="--rebaseline"
run() { p=$1; if [ "$EVID" = 1 ]; then ./check $p --tier quick $FLAGS > /tmp/q_$p.log 2>&1; else VERIF_SCRATCH_EVIDENCE=1 ./check $p --tier quick $FLAGS > /tmp/q_$p.log 2>&1; fi; echo "$p exit=$? $(grep ' exit=' /tmp/q_$p.log | tail -1 | cut -c1-200)"; }
for grp in "C01 C02 C07" "C03 C04 C15" "C05 C06 C08" "C09 C10 C11" "C12 C13 C14" "C16 C17 C19" "C18 C20"; do
  for p in $grp; do run $p & done; wait
done
