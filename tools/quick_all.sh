#!/bin/sh
# all quick checks on /repo (scratch evidence unless EVID=1), 3 at a time
cd /verif
run() { p=$1; if [ "$EVID" = 1 ]; then ./check $p --tier quick > /tmp/q_$p.log 2>&1; else VERIF_SCRATCH_EVIDENCE=1 ./check $p --tier quick > /tmp/q_$p.log 2>&1; fi; echo "$p exit=$? $(tail -1 /tmp/q_$p.log | cut -c1-200)"; }
for grp in "C01 C02 C07" "C03 C04 C15" "C05 C06 C08" "C09 C10 C11" "C12 C13 C14" "C16 C17 C19" "C18 C20"; do
  for p in $grp; do run $p & done; wait
done
