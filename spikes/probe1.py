import warnings; warnings.simplefilter("ignore")
import numpy as np, astropy.units as u
from astropy.time import Time
import pulsarbat as pb
def t(label, f):
    try:
        print(label, "->", f())
    except Exception as e:
        print(label, "RAISES", type(e).__name__, str(e)[:120])

# C03: time_shift zeroing with broadcast shift
z = pb.Signal(np.ones((16,3,2)), sample_rate=1*u.Hz)
y = pb.time_shift(z, np.array([2.0,2.0,2.0])[:,None] if False else np.array([2.0,3.0,4.0]))
print("C03 lower-rank shift, first rows zero per element:\n", np.abs(y.data[:5]).round(3)[..., :].tolist())
y = pb.time_shift(z, 2.5)
print("C03 scalar:", np.abs(y.data[:4]).round(3).tolist())
# C04 scalar freq shift
zb = pb.BasebandSignal(np.ones((16,3,2),complex), sample_rate=16*u.Hz, center_freq=100*u.Hz)
y = pb.freq_shift(zb, 3*u.Hz)
X = np.fft.fftshift(np.fft.fft(y.data,axis=0),axes=0)
print("C04 scalar shift spectrum |X| elem(0,0):", np.abs(X[:,0,0]).round(2).tolist())
print("C04 scalar shift spectrum |X| elem(1,1):", np.abs(X[:,1,1]).round(2).tolist())
# C07
t("Phase(1.2)", lambda: pb.Phase(1.2))
t("Phase(np.float64(1.2))", lambda: pb.Phase(np.float64(1.2)))
t("Phase(np.array(1.2))", lambda: repr(pb.Phase(np.array(1.2))))
t("Phase(np.array([1.2]),np.array([.3]))", lambda: repr(pb.Phase(np.array([1.2]),np.array([.3]))))
p = pb.Phase(np.array([1.0]), np.array([0.2]))
t("p*2.0", lambda: repr(p*2.0))
t("2.0*p", lambda: repr(2.0*p))
t("p*np.float64(2.0)", lambda: repr(p*np.float64(2.0)))
t("p/2", lambda: repr(p/2))
t("p+p", lambda: repr(p+p))
t("p+1.5", lambda: repr(p+1.5))
t("-p", lambda: repr(-p))
t("abs(p)", lambda: repr(abs(p)))
t("p//0.5cy", lambda: repr(p//(0.5*u.cycle)))
t("p%1cy", lambda: repr(p%(1*u.cycle)))
# C15
for s in ['0.5','5.0','5','1e3','-0.18e-2','0.0','3.2','123456789012345.123456789012345']:
    t("from_string(%r)"%s, lambda: repr(pb.Phase.from_string(s)))
q = pb.Phase(np.array([3.0]), np.array([0.2]))
t("to_string(precision=1)", lambda: q.to_string(precision=1))
t("to_string()", lambda: q.to_string())
t("format .3f", lambda: format(q[0], ".3f"))
# C17
s = pb.Signal(np.arange(4.), sample_rate=1*u.Hz)
t("np.asarray(s, dtype=complex)", lambda: np.asarray(s, dtype=complex))
t("np.array(s)", lambda: np.array(s))
t("np.add.reduce(s)", lambda: np.add.reduce(s))
t("s@s", lambda: s@s)
# C14 istft
zb = pb.BasebandSignal(np.ones((16,4),complex), sample_rate=16*u.Hz, center_freq=100*u.Hz)
st = pb.contrib.stft(zb, nperseg=4)
before = st.data.copy()
_ = pb.contrib.istft(st, nperseg=4)
print("C14 istft mutates input:", not np.array_equal(before, st.data))
before = zb.data.copy(); _ = pb.contrib.stft(zb, nperseg=4); print("C14 stft mutates input:", not np.array_equal(before, zb.data))
