import z3, time
xr,xi,yr,yi,h = z3.Reals('xr xi yr yi h')
def cmul(a,b): return (a[0]*b[0]-a[1]*b[1], a[0]*b[1]+a[1]*b[0])
def cadd(a,b): return (a[0]+b[0], a[1]+b[1])
def csub(a,b): return (a[0]-b[0], a[1]-b[1])
def cs(a,s): return (a[0]*s, a[1]*s)
def conj(a): return (a[0], -a[1])
def n2(a): return a[0]*a[0]+a[1]*a[1]
J=(z3.RealVal(0), z3.RealVal(1)); X=(xr,xi); Y=(yr,yi)
L = cs(csub(X, cmul(J,Y)), h); Rr = cs(cadd(X, cmul(J,Y)), h)
X2 = cs(cadd(L,Rr), h); Y2 = cs(cmul(J, csub(L,Rr)), h)
XX=n2(X); YY=n2(Y); XY=cmul(conj(X),Y)
I,Q,U,V = XX+YY, XX-YY, 2*XY[0], 2*XY[1]
LL=n2(L); RR=n2(Rr); LR=cmul(conj(L),Rr)
Ic,Qc,Uc,Vc = LL+RR, 2*LR[0], 2*LR[1], LL-RR
goals = {
 "power": n2(L)+n2(Rr) == n2(X)+n2(Y),
 "inverse": z3.And(X2[0]==X[0], X2[1]==X[1], Y2[0]==Y[0], Y2[1]==Y[1]),
 "stokes": z3.And(I==Ic,Q==Qc,U==Uc,V==Vc),
 "I2": I*I == Q*Q+U*U+V*V,
 "Ipos": I >= 0,
}
for tac in ["default","qfnra-nlsat"]:
  for k,g in goals.items():
    s = z3.Solver() if tac=="default" else z3.Tactic(tac).solver()
    s.set("timeout", 20000)
    s.add(2*h*h==1, h>0, z3.Not(g))
    t=time.time(); r=s.check(); print(tac,k,r,round(time.time()-t,2))
    if r==z3.sat: print(s.model())
