import bisect, time
from pulsarbat.utils import next_fast_len as nf, prev_fast_len as pf
L=2**62
S=[]
a=1
while a<L:
    b=a
    while b<L:
        c=b
        while c<L:
            d=c
            while d<L:
                S.append(d); d*=7
            c*=5
        b*=3
    a*=2
S.sort(); print(len(S))
t=time.time(); bad=0
import random
random.seed(1)
idx = random.sample(range(len(S)), 3000)
for i in idx:
    s=S[i]
    for N in (s-1,s,s+1):
        if N<1: continue
        j=bisect.bisect_left(S,N); en = S[j] if j<len(S) else None
        k=bisect.bisect_right(S,N)-1; ep=S[k]
        nf.cache_clear(); pf.cache_clear()
        if en is not None and nf(N)!=en: bad+=1; print("next", N, nf(N), en)
        if pf(N)!=ep: bad+=1; print("prev", N, pf(N), ep)
print("bad", bad, time.time()-t)
