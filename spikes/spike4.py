import z3, time
c,bw,al = z3.Reals('c bw al'); n,a,b,i = z3.Ints('n a b i')
R=z3.ToReal
def lab(c_,bw_,al_,n_,i_): return c_ + bw_*(R(i_) + al_ - R(n_)/2)
# effective alignment: odd n -> 1/2
ale = z3.If(n%2==1, z3.RealVal(1)/2, al)
f = lambda k: lab(c,bw,ale,n,k)
n2 = b-a
c2 = (f(a)+f(b-1))/2
s=z3.Solver(); s.set("timeout",20000)
s.add(bw>0, n>=1, 0<=a, a<b, b<=n, 0<=i, i<n2, z3.Or(al==0, al==z3.RealVal(1)/2, al==1))
s.add(lab(c2,bw,z3.RealVal(1)/2,n2,i) != f(a+i))
t=time.time(); print("freq slice labels", s.check(), round(time.time()-t,2))
s=z3.Solver(); s.set("timeout",20000)
s.add(bw>0, n>=1, 0<=i, i<n, z3.Or(al==0, al==z3.RealVal(1)/2, al==1))
s.add(z3.Not(z3.And(f(i) >= c - bw*R(n)/2, f(i) <= c + bw*R(n)/2, f(i+1)-f(i)==bw)))
t=time.time(); print("in band + spacing", s.check(), round(time.time()-t,2))
# mutation: new center = f[a] only
s=z3.Solver(); s.add(bw>0, n>=1, 0<=a, a<b, b<=n, 0<=i, i<n2, z3.Or(al==0, al==z3.RealVal(1)/2, al==1))
s.add(lab(f(a),bw,z3.RealVal(1)/2,n2,i) != f(a+i)); print("mutant", s.check()); print(s.model())
