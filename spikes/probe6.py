import warnings; warnings.simplefilter("ignore")
import numpy as np, astropy.units as u
from astropy.time import Time
print("Time.__iadd__" , hasattr(Time,'__iadd__'))
t=Time("2020-01-01T00:00:00"); t2=t; t2+=1*u.s; print("Time += rebinds:", t2 is not t, t.isot)
q=np.arange(3.)*u.s; q2=q; q2+=1*u.s; print("Quantity += in place:", q2 is q, q)
P=np.polynomial.Polynomial([1,2,3],domain=[-60,60]); Pc=P.copy(); Pc.domain-=5; print("poly copy domain independent:", P.domain)
import dask.array as da
x=da.ones((4,3),chunks=(4,1)); y=x*2; y[:2,0]=0; print("dask setitem lazy:", type(y).__name__, y.compute()[:, 0])
z=np.ones((4,3,2))
s=np.array([2.,3.,4.])[:,None]
it=np.nditer(s,flags=['multi_index']); print([ (float(a), it.multi_index) for a in it])
it=np.nditer(np.array(2.5),flags=['multi_index']); print([ (float(a), it.multi_index) for a in it])
# reshape view?
a=np.arange(12.).reshape(6,2); b=a.reshape(3,2,2); print("reshape shares:", np.shares_memory(a,b)); c=a[::2].reshape(3,2,1); print("strided reshape shares:", np.shares_memory(a,c))
print("np.take shares:", np.shares_memory(a, np.take(a,0,axis=1)))
print("real of complex shares:", np.shares_memory((cc:=np.zeros(3,complex)), cc.real))
