import warnings; warnings.simplefilter("ignore")
import numpy as np, astropy.units as u
from astropy.time import Time
import pulsarbat as pb
t = Time("2020-01-01T00:00:00", format='isot', precision=3)
s = pb.Signal(np.zeros(4), sample_rate=1*u.Hz, start_time=t)
print("precision of argument after construction:", t.precision, "| signal's:", s.start_time.precision, "| same obj:", s.start_time is t)
t = Time(58000.5, format='mjd', precision=3)
s = pb.Signal(np.zeros(4), sample_rate=1*u.Hz, start_time=t)
print("mjd arg:", t.format, t.precision, "| signal's:", s.start_time.format, s.start_time.precision)
m = {'a': [1,2]}
s = pb.Signal(np.zeros(4), sample_rate=1*u.Hz, meta=m); print("meta is copy:", s.meta is not m, "nested shared:", s.meta['a'] is m['a'])
y = s[1:]; print("slice meta independent dict:", y.meta is not s.meta)
sr = 1*u.Hz; s = pb.Signal(np.zeros(4), sample_rate=sr); print("sr same obj:", s.sample_rate is sr)
