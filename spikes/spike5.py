# Hand-written VCs for prev_fast_len optimality with V(d,c,j,a)=7^d5^c3^j2^a as UF + ground lemma instances (LIA+UF).
import z3, time, itertools
I=z3.IntSort(); V=z3.Function('V',I,I,I,I,I)
N,d,c,j,a,x,guess,f7,f75 = z3.Ints('N d c j a x guess f7 f75')
gd,gc,gj,ga = z3.Ints('gd gc gj ga')
dp,cp,jp,ap = z3.Ints('dp cp jp ap')   # skolem tuple for the universally quantified coverage
Z=z3.IntVal(0)
def nn(*t): return z3.And(*[e>=0 for e in t])
def lem(*tuples):
    out=[V(Z,Z,Z,Z)==1]
    for t in tuples:
        D,C,J,A=t
        out.append(z3.Implies(nn(*t), z3.And(V(*t)>=1,
            V(D+1,C,J,A)==7*V(*t), V(D,C+1,J,A)==5*V(*t), V(D,C,J+1,A)==3*V(*t), V(D,C,J,A+1)==2*V(*t),
            z3.Implies(A==0, V(*t)%2==1))))
        out.append(z3.Implies(z3.And(nn(D,C,J), A>=1), V(D,C,J,A)==2*V(D,C,J,A-1)))
    for s,t in itertools.permutations(tuples,2):
        out.append(z3.Implies(z3.And(nn(*s), *[p<=q for p,q in zip(s,t)]), V(*s)<=V(*t)))
    return out
def cov(t,g): return z3.Or(V(*t)>N, V(*t)<=g)
def prove(name,hyps,goal,to=30000):
    s=z3.Solver(); s.set("timeout",to); s.add(hyps); s.add(z3.Not(goal))
    t0=time.time(); r=s.check(); print(f"{name:34s}", r, round(time.time()-t0,2))
    if r==z3.sat: print(s.model())
P=(dp,cp,jp,ap)
base=[N>10, nn(d,c,j,a), nn(*P), nn(gd,gc,gj,ga), guess==V(gd,gc,gj,ga), guess<=N, guess>=1]
# L4 invariant instance at P (only meaningful for dp==d, cp==c)
def inv4(a_,j_,g_): return z3.Implies(z3.And(dp==d,cp==c, z3.Or(jp<j_, ap>a_)), cov(P,g_))
X=(d,c,j,a)
# -- L4 entry: after doubling loop and x>>=1:  x=V(d,c,0,a), x<=N, V(d,c,0,a+1)>N, j=0
prove("L4 init", base+lem(X,P,(d,c,Z,a),(d,c,Z,a+1),(d,c,Z,ap))+[j==0, x==V(d,c,Z,a), x<=N, V(d,c,Z,a+1)>N], inv4(a,Z,guess))
# -- L4 x<N branch
g1=z3.If(x>guess,x,guess)
prove("L4 mul3", base+lem(X,P,(d,c,j+1,a),(d,c,j,ap))+[x==V(*X), x<N, inv4(a,j,guess)],
      z3.And(3*x==V(d,c,j+1,a), inv4(a,j+1,g1), g1<=N, z3.Or(g1==guess, g1==V(*X))))
prove("L4 halve", base+lem(X,P,(d,c,j,a-1),(d,c,jp,a),(d,c,j,ap))+[x==V(*X), x>N, x%2==0, inv4(a,j,guess)],
      z3.And(a>=1, x/2==V(d,c,j,a-1), inv4(a-1,j,guess)))
# -- break: all pairs for (d,c) covered
prove("L4 break => (d,c) done", base+lem(X,P,(d,c,jp,Z),(d,c,j,Z))+[x==V(*X), x>N, x%2==1, inv4(a,j,guess)],
      z3.Implies(z3.And(dp==d,cp==c), cov(P,guess)))
prove("L4 return N", base+lem(X,P)+[x==V(*X), x==N], z3.And(z3.Implies(V(*P)<=N, V(*P)<=N)))
# -- L2: inv: f75=V(d,c,0,0); all cp<c covered (for dp==d). exit f75>N => all cp covered
def inv2(c_,g_): return z3.Implies(z3.And(dp==d, cp<c_), cov(P,g_))
prove("L2 step", base+lem(P,(d,c,Z,Z),(d,c+1,Z,Z))+[f75==V(d,c,Z,Z), inv2(c,guess), z3.Implies(z3.And(dp==d,cp==c), cov(P,guess))],
      z3.And(5*f75==V(d,c+1,Z,Z), inv2(c+1,guess)))
prove("L2 exit => d done", base+lem(P,(d,c,Z,Z))+[f75==V(d,c,Z,Z), f75>N, inv2(c,guess)], z3.Implies(dp==d, cov(P,guess)))
# -- L1
def inv1(d_,g_): return z3.Implies(dp<d_, cov(P,g_))
prove("L1 step", base+lem(P,(d,Z,Z,Z),(d+1,Z,Z,Z))+[f7==V(d,Z,Z,Z), inv1(d,guess), z3.Implies(dp==d, cov(P,guess))],
      z3.And(7*f7==V(d+1,Z,Z,Z), inv1(d+1,guess)))
prove("L1 exit => optimal", base+lem(P,(d,Z,Z,Z))+[f7==V(d,Z,Z,Z), f7>N, inv1(d,guess)], cov(P,guess))
# -- L3 doubling loop: inv x=V(d,c,0,a) ; step
prove("L3 step", base+lem((d,c,Z,a),(d,c,Z,a+1))+[x==V(d,c,Z,a), x<=N], 2*x==V(d,c,Z,a+1))
# guess monotone: coverage for old guess implies coverage for larger guess (used when guess grows)
g2=z3.Int('g2'); prove("cov monotone in guess", [g2>=guess, cov(P,guess)], cov(P,g2))
print("--- vacuity (hypotheses must be satisfiable) and mutants (must be refuted)")
def sat(name,hyps):
    s=z3.Solver(); s.set("timeout",30000); s.add(hyps); print(f"{name:34s}", s.check())
sat("L4 mul3 hyps", base+lem(X,P,(d,c,j+1,a),(d,c,j,ap))+[x==V(*X), x<N, inv4(a,j,guess), dp==d, cp==c, jp==j, ap<=a])
sat("L4 break hyps", base+lem(X,P,(d,c,jp,Z),(d,c,j,Z))+[x==V(*X), x>N, x%2==1, inv4(a,j,guess), dp==d, cp==c])
sat("L1 exit hyps", base+lem(P,(d,Z,Z,Z))+[f7==V(d,Z,Z,Z), f7>N, inv1(d,guess)])
# mutant: break taken when x even-or-odd (i.e. drop the parity test) -> completeness must fail
prove("MUT break without parity", base+lem(X,P,(d,c,jp,Z),(d,c,j,Z))+[x==V(*X), x>N, inv4(a,j,guess)],
      z3.Implies(z3.And(dp==d,cp==c), cov(P,guess)))
# mutant: guess not updated in x<N branch
prove("MUT guess not updated", base+lem(X,P,(d,c,j+1,a),(d,c,j,ap))+[x==V(*X), x<N, inv4(a,j,guess)], inv4(a,j+1,guess))
# mutant: L2 exits on f75 >= N instead of > N
prove("MUT L2 exit f75>=N", base+lem(P,(d,c,Z,Z))+[f75==V(d,c,Z,Z), f75>=N, inv2(c,guess)], z3.Implies(dp==d, cov(P,guess)))
