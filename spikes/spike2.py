# Spike: staircase inner loop of prev_fast_len, optimality invariant with exponent-indexed powers.
import z3, time
I = z3.IntSort()
p2 = z3.Function('p2', I, I); p3 = z3.Function('p3', I, I)
N,b,a,j,guess,x = z3.Ints('N b a j guess x')
ap,jp = z3.Ints('ap jp')
def val(aa,jj): return b*p2(aa)*p3(jj)
def covered(a_,j_,g_):  # invariant: every pair outside the live region is decided
    return z3.ForAll([ap,jp], z3.Implies(z3.And(ap>=0,jp>=0, z3.Or(jp<j_, ap>a_)),
                                         z3.Or(val(ap,jp)>N, val(ap,jp)<=g_)))
# axioms about spec functions (lemmas by induction on the exponent; to be proved separately)
k,l = z3.Ints('k l')
ax = [p2(0)==1, p3(0)==1,
      z3.ForAll([k], z3.Implies(k>=0, z3.And(p2(k+1)==2*p2(k), p2(k)>=1))),
      z3.ForAll([k], z3.Implies(k>=0, z3.And(p3(k+1)==3*p3(k), p3(k)>=1))),
      z3.ForAll([k,l], z3.Implies(z3.And(0<=k,k<=l), z3.And(p2(k)<=p2(l), p3(k)<=p3(l))))]
pre = [N>10, b>=1, b%2==1, a>=0, j>=0, x==val(a,j), guess>=1, guess<=N, covered(a,j,guess)]
def prove(name, hyps, goal, to=30000):
    s = z3.Solver(); s.set("timeout", to)
    s.add(ax); s.add(hyps); s.add(z3.Not(goal))
    t=time.time(); r=s.check(); print(name, r, round(time.time()-t,2))
# step 1: x<N: guess'=max(guess,x); x*=3  -> j+1
g1 = z3.If(x>guess, x, guess)
prove("mul3 preserves", pre+[x<N], z3.And(3*x==val(a,j+1), covered(a,j+1,g1)))
# step 2: x>N, even: x>>=1 -> a-1
prove("halve preserves", pre+[x>N, x%2==0], z3.And(a>=1, (x/2)==val(a-1,j), covered(a-1,j,guess)))
# step 3: x>N, odd: break -> everything covered
prove("break complete", pre+[x>N, x%2==1], z3.ForAll([ap,jp], z3.Implies(z3.And(ap>=0,jp>=0), z3.Or(val(ap,jp)>N, val(ap,jp)<=guess))))
