import z3, time
I = z3.IntSort()
p2 = z3.Function('p2', I, I); p3 = z3.Function('p3', I, I)
N,b,a,j,guess,x,ap,jp = z3.Ints('N b a j guess x ap jp')
def val(aa,jj): return b*p2(aa)*p3(jj)
def cov_inst(a_,j_,g_, A, Jx):  # instance of invariant at (A,Jx)
    return z3.Implies(z3.And(A>=0,Jx>=0, z3.Or(Jx<j_, A>a_)), z3.Or(val(A,Jx)>N, val(A,Jx)<=g_))
def facts(*es):   # ground instances of the spec-function lemmas for the exponent terms in play
    out=[p2(0)==1,p3(0)==1]
    for e in es:
        out += [z3.Implies(e>=0, z3.And(p2(e+1)==2*p2(e), p2(e)>=1, p3(e+1)==3*p3(e), p3(e)>=1))]
        out += [z3.Implies(e>=1, z3.And(p2(e)==2*p2(e-1), p3(e)==3*p3(e-1), p2(e-1)>=1, p3(e-1)>=1))]
    for e in es:
        for f in es:
            out += [z3.Implies(z3.And(0<=e,e<=f), z3.And(p2(e)<=p2(f), p3(e)<=p3(f)))]
    return out
pre = [N>10, b>=1, b%2==1, a>=0, j>=0, x==val(a,j), guess>=1, guess<=N, ap>=0, jp>=0]
def prove(name, hyps, goal, to=60000):
    s = z3.Solver(); s.set("timeout", to)
    s.add(hyps); s.add(z3.Not(goal))
    t=time.time(); r=s.check(); print(name, r, round(time.time()-t,2))
    if r==z3.sat: print(s.model())
F = facts(a,j,ap,jp)
g1 = z3.If(x>guess, x, guess)
prove("mul3 preserves", pre+F+[x<N, cov_inst(a,j,guess,ap,jp)], z3.And(3*x==val(a,j+1), cov_inst(a,j+1,g1,ap,jp)))
prove("halve preserves", pre+F+[x>N, x%2==0, cov_inst(a,j,guess,ap,jp)], z3.And(a>=1, (x/2)==val(a-1,j), cov_inst(a-1,j,guess,ap,jp)))
prove("break complete", pre+F+[x>N, x%2==1, cov_inst(a,j,guess,ap,jp)], z3.Or(val(ap,jp)>N, val(ap,jp)<=guess))
