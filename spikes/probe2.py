import warnings; warnings.simplefilter("ignore")
import numpy as np, astropy.units as u
from astropy.time import Time
import pulsarbat as pb
def t(label, f):
    try:
        print(label, "->", f())
    except Exception as e:
        print(label, "RAISES", type(e).__name__, str(e)[:160])
t0 = Time("2020-01-01T00:00:00", precision=9)
# C02 freq slicing
for align in ['bottom','center','top']:
  for nchan in (4,5):
    z = pb.RadioSignal(np.zeros((4,nchan)), sample_rate=1*u.kHz, center_freq=400*u.MHz, chan_bw=1*u.MHz, freq_align=align, start_time=t0)
    f = z.channel_freqs
    for a,b in [(0,2),(1,4),(1,2),(-3,None)]:
        y = z[:, a:b]
        ok = np.allclose(y.channel_freqs.to_value(u.MHz), f[a:b].to_value(u.MHz), rtol=0, atol=1e-9)
        if not ok: print("C02 FAIL", align, nchan, a, b, y.channel_freqs, f[a:b])
print("C02 probe done")
# stokes selection
z = pb.FullStokesSignal(np.zeros((4,4,4)), sample_rate=1*u.kHz, center_freq=400*u.MHz, chan_bw=1*u.MHz, freq_align='bottom', start_time=t0)
y = z['Q']; print(type(y).__name__, y.freq_align, (y.channel_freqs==z.channel_freqs).all(), y.start_time==z.start_time)
# C01 slices
z = pb.Signal(np.arange(10.), sample_rate=1*u.GHz, start_time=t0)
for s in [slice(3,None,2), slice(-3,None), slice(20,30), slice(-20,5), slice(5,2), slice(None,None,3)]:
    y = z[s]; exp = np.arange(10)[s]
    dropped = s.indices(10)[0]
    print(s, len(y), y.sample_rate, ((y.start_time - t0).to(u.ns)), 'expect', dropped, 'ns')
t("neg step", lambda: z[::-1])
t("int index", lambda: z[3])
zz = pb.Signal(np.arange(10.), sample_rate=1*u.GHz)
print("no start:", zz[2:].start_time, zz.contains(t0))
print("contains t0, stop:", z.contains(t0), z.contains(z.stop_time), z.contains(t0+9.5*u.ns), z.contains(t0-1*u.ns))
# C06 incoherent
zr = pb.RadioSignal(np.arange(100*4).reshape(100,4).astype(float), sample_rate=1*u.kHz, center_freq=400*u.MHz, chan_bw=10*u.MHz, start_time=t0)
dm = pb.DM(5.0)
print("delays", dm.sample_delay(zr.channel_freqs, zr.center_freq, zr.sample_rate))
y = pb.incoherent_dedispersion(zr, dm)
print(len(y), (y.start_time-t0).to(u.ms), y.data[0])
y = pb.incoherent_dedispersion(zr, dm, ref_freq=300*u.MHz)
print(len(y), (y.start_time-t0).to(u.ms), y.data[0])
y = pb.incoherent_dedispersion(zr, dm, ref_freq=500*u.MHz)
print(len(y), (y.start_time-t0).to(u.ms), y.data[0])
t("neg DM", lambda: pb.incoherent_dedispersion(zr, pb.DM(-5.0)).data[0])
t("huge DM", lambda: len(pb.incoherent_dedispersion(zr, pb.DM(500.0))))
