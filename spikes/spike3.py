# day_frac add-path in the standard FP model: every rounded op result r = exact*(1+d), |d|<=u ; two_sum exact (assumed contract).
import z3, time
u = z3.RealVal(1)/z3.RealVal(2**53)
cnt=[0]; cons=[]
def RN(x):
    cnt[0]+=1; r=z3.Real(f"r{cnt[0]}")
    # |r-x| <= u*|x|
    cons.append(z3.And(r-x <= u*z3.If(x>=0,x,-x), x-r <= u*z3.If(x>=0,x,-x)))
    return r
def two_sum(a,b):
    s=RN(a+b); cnt[0]+=1; e=z3.Real(f"e{cnt[0]}"); cons.append(s+e==a+b); return s,e
def floor(x):
    cnt[0]+=1; n=z3.Int(f"n{cnt[0]}"); cons.append(z3.And(z3.ToReal(n)<=x, x<z3.ToReal(n)+1)); return z3.ToReal(n)
v1,v2=z3.Reals('v1 v2')
T=v1+v2
sum12,err12=two_sum(v1,v2)
day=floor(RN(sum12+0.5))
extra,frac=two_sum(sum12,-day)
frac=RN(frac+RN(extra+err12))
excess=floor(RN(frac+0.5))
day2=day+excess            # exact: integers below 2^53 (assumed/justified separately)
extra,frac=two_sum(sum12,-day2)
frac2=RN(frac+RN(extra+err12))
B=z3.RealVal(2**52)
pre=[T<=B, T>=-B]
def prove(name, goal, to=120000):
    s=z3.Solver(); s.set("timeout",to); s.add(pre+cons); s.add(z3.Not(goal))
    t=time.time(); r=s.check(); print(name,r,round(time.time()-t,2))
    if r==z3.sat:
        m=s.model(); print({str(d):m[d] for d in m.decls()})
err = day2+frac2-T
prove("accuracy 2^-52", z3.And(err<=2*u, err>=-2*u))
prove("frac range", z3.And(frac2<=0.5+4*u, frac2>=-0.5-4*u))
