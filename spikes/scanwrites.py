import ast, sys, pathlib
root=pathlib.Path('/repo/pulsarbat')
for f in sorted(root.rglob('*.py')):
    src=f.read_text(); tree=ast.parse(src)
    class V(ast.NodeVisitor):
        def __init__(s): s.fn=[]
        def visit_FunctionDef(s,n): s.fn.append(n.name); s.generic_visit(n); s.fn.pop()
        def visit_ClassDef(s,n): s.fn.append(n.name); s.generic_visit(n); s.fn.pop()
        def rep(s,n,kind): print(f"{f.relative_to(root)}:{n.lineno}: [{'.'.join(s.fn)}] {kind}: {ast.unparse(n)[:90]}")
        def visit_AugAssign(s,n): s.rep(n,'AUG'); s.generic_visit(n)
        def visit_Assign(s,n):
            for t in n.targets:
                for tt in ast.walk(t):
                    if isinstance(tt,(ast.Subscript,)): s.rep(n,'SETITEM')
                    if isinstance(tt,ast.Attribute) and isinstance(tt.ctx,ast.Store): s.rep(n,'SETATTR')
            s.generic_visit(n)
        def visit_Call(s,n):
            for k in n.keywords:
                if k.arg=='out': s.rep(n,'OUT=')
            if isinstance(n.func,ast.Attribute) and n.func.attr in ('sort','fill','put','resize','setfield','itemset','update','append','pop','setdefault','extend','insert','remove','clear'):
                s.rep(n,'MUTCALL')
            s.generic_visit(n)
    V().visit(tree)
