# day_frac factor path + comparison sign in the standard model M_u
import z3, time
u = z3.RealVal(1)/z3.RealVal(2**53)
def mk():
    st={'n':0,'cons':[]}
    def fresh(p): st['n']+=1; return z3.Real(f"{p}{st['n']}")
    def ab(x): return z3.If(x>=0,x,-x)
    def RN(x):
        r=fresh('r'); st['cons'].append(z3.And(r-x<=u*ab(x), x-r<=u*ab(x))); return r
    def two_sum(a,b):
        s=RN(a+b); e=fresh('e'); st['cons'].append(s+e==a+b); return s,e
    def two_prod(a,b):
        p=RN(a*b); e=fresh('e'); st['cons'].append(p+e==a*b); return p,e
    def floor(x):
        st['n']+=1; n=z3.Int(f"n{st['n']}"); st['cons'].append(z3.And(z3.ToReal(n)<=x, x<z3.ToReal(n)+1)); return z3.ToReal(n)
    return st,RN,two_sum,two_prod,floor
def prove(name,hyps,goal,to=120000):
    s=z3.Solver(); s.set("timeout",to); s.add(hyps); s.add(z3.Not(goal))
    t=time.time(); r=s.check(); print(f"{name:40s}",r,round(time.time()-t,2))
# ---- factor path
st,RN,two_sum,two_prod,floor=mk()
v1,v2,f=z3.Reals('v1 v2 f')
sum12,err12=two_sum(v1,v2)
sum12,carry=two_prod(sum12,f)
carry=RN(carry+RN(err12*f))
sum12,err12=two_sum(sum12,carry)
day=floor(RN(sum12+0.5))
extra,frac=two_sum(sum12,-day); frac=RN(frac+RN(extra+err12))
excess=floor(RN(frac+0.5)); day2=day+excess
extra,frac=two_sum(sum12,-day2); frac2=RN(frac+RN(extra+err12))
T=(v1+v2)*f; B=z3.RealVal(2**52)
pre=[T<=B,T>=-B, v1+v2<=B, v1+v2>=-B, f<=B, f>=-B]
err=day2+frac2-T
prove("mul: |err| <= 2^-52", pre+st['cons'], z3.And(err<=2*u, err>=-2*u))
prove("mul: |err| <= 2^-51", pre+st['cons'], z3.And(err<=4*u, err>=-4*u))
# ---- comparison sign: operands normalised (I integer |I|<=2^52, |F|<=1/2)
st,RN,two_sum,two_prod,floor=mk()
i0,i1=z3.Ints('i0 i1'); f0,f1=z3.Reals('f0 f1')
I0,I1=z3.ToReal(i0),z3.ToReal(i1)
di=I0-I1                      # exact: integers, |.|<=2^53
diff=RN(di+RN(f0-f1))
D=(I0+f0)-(I1+f1)
pre=[I0<=B,I0>=-B,I1<=B,I1>=-B, f0<=0.5,f0>=-0.5,f1<=0.5,f1>=-0.5]
th=z3.RealVal(1)/z3.RealVal(2**50)
prove("cmp: D>theta => diff>0", pre+st['cons']+[D>th], diff>0)
prove("cmp: D<-theta => diff<0", pre+st['cons']+[D<-th], diff<0)
prove("cmp: D==0 => diff==0", pre+st['cons']+[D==0], diff==0)
prove("cmp: D>0 => diff>=0 (no inversion)", pre+st['cons']+[D>0], diff>=0)
