import warnings; warnings.simplefilter("ignore")
import numpy as np, astropy.units as u, pickle
from astropy.time import Time
import pulsarbat as pb
from fractions import Fraction
t0 = Time("2020-01-01T00:00:00", precision=9)
# C19 vs direct definition
def ref_r2c(z):
    N=len(z); n=np.arange(N)
    Z=np.array([np.sum(z*np.exp(-2j*np.pi*k*n/N)) for k in range(N)])
    h=np.zeros(N); 
    for k in range(N):
        if k==0: h[k]=1
        elif 2*k<N: h[k]=2
        elif 2*k==N: h[k]=1
    a=np.array([np.sum(Z*h*np.exp(2j*np.pi*np.arange(N)*m/N))/N for m in range(N)])
    return (a*np.exp(-1j*np.pi/2*n))[::2]
rng=np.random.default_rng(0); worst=0
for N in range(1,34):
    z=rng.standard_normal(N); o=pb.utils.real_to_complex(z); r=ref_r2c(z)
    assert o.shape==((N+1)//2,), (N,o.shape)
    worst=max(worst, np.abs(o-r).max())
    m=np.arange(len(o)); worst=max(worst, np.abs(((-1.0)**m)*o.real - z[::2]).max())
print("C19 worst err", worst)
z3d=rng.standard_normal((6,5,4)).astype(np.float32)
for ax in (0,1,2,-1):
    o=pb.utils.real_to_complex(z3d,axis=ax); print("C19 axis",ax,o.shape,o.dtype)
print("C19 N=0:", pb.utils.real_to_complex(np.zeros((0,3))).shape, pb.utils.real_to_complex(np.zeros((0,3))).dtype)
# C05 chirp vs exact
DM=pb.DM(50.0)
z=pb.BasebandSignal(np.zeros((1000,3),np.complex64), sample_rate=4*u.MHz, center_freq=600*u.MHz, start_time=t0, freq_align='bottom')
ch=DM.chirp_from_signal(z, ref_freq=590*u.MHz)
K=Fraction(1)/Fraction('2.41e-4')
def exact(N,dt_us,f0_MHz,ref_MHz,DMv,k):
    sb = k if k < (N+1)//2 else k-N
    f = Fraction(f0_MHz)+Fraction(sb,N)/Fraction(dt_us)
    ph = K*Fraction(DMv)*f*(1/Fraction(ref_MHz)-1/f)**2 * 10**6   # s*MHz -> cycles
    frac = ph - (ph.numerator//ph.denominator)
    return np.exp(-2j*np.pi*float(frac))
err=0
for i,fc in enumerate(z.channel_freqs.to_value(u.MHz)):
    for k in (0,1,499,500,501,999):
        err=max(err, abs(ch[k,i]-exact(1000, Fraction(1,4), Fraction(fc).limit_denominator(10**6), 590, 50, k)))
print("C05 chirp max err", err, ch.dtype, ch.shape)
y=pb.coherent_dedispersion(z, DM, ref_freq=590*u.MHz)
dt_=DM.sample_delay(z.max_freq, 590*u.MHz, z.sample_rate); db=DM.sample_delay(z.min_freq,590*u.MHz,z.sample_rate)
print("C05 delays", dt_, db, "len", len(y), "start adv (us)", (y.start_time-t0).to(u.us))
# C16 pickle
d=pb.DualPolarizationSignal(np.zeros((4,2,2),np.complex64), sample_rate=1*u.MHz, center_freq=1*u.GHz, pol_type='linear', start_time=t0, meta={'a':1}, freq_align='top')
d2=pickle.loads(pickle.dumps(d)); print("C16 pickle:", type(d2).__name__, d2.pol_type, d2.freq_align, d2.meta, d2.start_time==d.start_time, d2.chan_bw)
# C17 mixed class
s=pb.Signal(np.ones((4,2)), sample_rate=1*u.Hz); r=pb.RadioSignal(np.ones((4,2)), sample_rate=2*u.Hz, center_freq=1*u.GHz, chan_bw=1*u.MHz)
print("C17 Signal+Radio ->", type(s+r).__name__, (s+r).sample_rate, "| Radio+Signal ->", type(r+s).__name__)
