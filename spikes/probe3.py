import warnings; warnings.simplefilter("ignore")
import numpy as np, astropy.units as u, io
from astropy.time import Time
import pulsarbat as pb
def t(label, f):
    try:
        print(label, "->", f())
    except Exception as e:
        print(label, "RAISES", type(e).__name__, str(e)[:160])
t0 = Time("2020-01-01T00:00:00", precision=9)
# C20 stft labels
for align in ['bottom','center','top']:
  for nchan in (2,3):
    for nps in (4,5):
      z = pb.BasebandSignal(np.zeros((20,nchan),complex), sample_rate=1*u.MHz, center_freq=400*u.MHz, freq_align=align, start_time=t0)
      s = pb.contrib.stft(z, nperseg=nps)
      true = (z.channel_freqs[:,None] + (np.fft.fftshift(np.fft.fftfreq(nps, 1/1.0))*u.MHz)[None,:]).ravel()
      ok = np.allclose(s.channel_freqs.to_value(u.MHz), true.to_value(u.MHz), atol=1e-9, rtol=0)
      r = pb.contrib.istft(s, nperseg=nps)
      ok2 = np.allclose(r.channel_freqs.to_value(u.MHz), z.channel_freqs.to_value(u.MHz), atol=1e-9, rtol=0)
      print("C20", align, nchan, nps, "stft labels ok" if ok else "stft labels WRONG", "| istft labels ok" if ok2 else "| istft labels WRONG", s.freq_align, s.sample_rate, s.start_time==t0)
# C10 at GHz
for sr in [1*u.Hz, 1*u.kHz, 1*u.MHz, 1*u.GHz, 10*u.GHz]:
    z = pb.Signal(np.arange(100000.), sample_rate=sr, start_time=t0)
    bad=0
    for c in [1,7,333,50000,99999]:
        try:
            y = pb.concatenate([z[:c], z[c:]])
            if not Time.isclose(y.start_time, t0): bad+=1
        except ValueError as e: bad+=1
    # shifted by one sample must be rejected
    rej=0
    for c in [1,7,333,50000,99999]:
        a,b = z[:c], z[c:]
        b2 = pb.Signal(b.data, sample_rate=sr, start_time=b.start_time + 1/sr)
        try: pb.concatenate([a,b2])
        except ValueError: rej+=1
    print("C10", sr, "exact-split failures", bad, "one-sample-gap rejected", rej, "/5")
# C12 snippet
z = pb.Signal(np.arange(32.), sample_rate=1*u.kHz, start_time=t0)
for tt,n in [(3,5),(3.0,5),(27,5),(0,32),(5,0),(32,0),(3.5,5),(26.5,5),(27.5,4),(3*u.ms,5),(t0+3*u.ms,5)]:
    t(f"snippet({tt},{n})", lambda: (lambda y:(len(y), ((y.start_time-t0).to(u.ms)).round(6), y.data[:2].round(3)))(pb.snippet(z,tt,n)))
for tt,n in [(-1,2),(30,3),(2,-1),(27.5,5)]:
    t(f"snippet({tt},{n})", lambda: len(pb.snippet(z,tt,n)))
