"""Sidecar contracts for pulsarbat/pulsar/predictor.py (C08): interval merging and entry selection
for tables of 1-3 entries with symbolic mid-times and span (the table itself is an astropy QTable:
column access is stubbed from a ghost record, the constructor is not modelled)."""
from __future__ import annotations
from fractions import Fraction
import z3
from pyvc import values as V
from pyvc import arrays as A
from pyvc.values import SArr, Qty, STime, PyExc, DType, is_sym, Obj
from pyvc.contract import Contract, Instance
from pyvc.stubs_lib import TIME_DIM

CONTRACTS = []
SETUP = []
PQ = "pulsarbat.pulsar.predictor.PhasePredictor"
MS = Fraction(1, 1000)


def install_table_stub(interp):
    base = interp.stubs.getitem

    def getitem(b, idx, ctx):
        if isinstance(b, Obj) and b.cls.name == "PhasePredictor" and isinstance(idx, str):
            ctx.note("stub:QTable column access self[name] returns the column (Time / Quantity array)")
            cols = b.ghost["cols"]
            if idx not in cols:
                raise PyExc("KeyError", idx)
            return cols[idx]
        return base(b, idx, ctx)
    interp.stubs.getitem = getitem


SETUP.append(install_table_stub)


def mk_predictor(interp, ctx, nm, n):
    """Table of n entries sorted by tmid (constructor invariant), one common span > 0."""
    ci = interp.repo.get_class(PQ)
    o = Obj(ci)
    tm = [nm.real(f"tmid{k}", 1000 + 3600 * k) for k in range(n)]
    for a, b in zip(tm, tm[1:]):
        ctx.assume(V.le(a, b), why="table sorted by tmid (established by PhasePredictor.__init__)")
    span = nm.real("span", 3600)
    ctx.assume(V.lt(0, span), why="span > 0")

    def col(vals, dt="float64"):
        def elem(ix):
            j = ix[0]
            if not is_sym(j):
                return vals[j]
            out = vals[-1]
            for k in range(len(vals) - 2, -1, -1):
                out = V.Ite(V.eq(j, k), vals[k], out)
            return out
        return SArr((len(vals),), elem, dt)
    o.ghost = {"tm": tm, "span": span, "n": n,
               "cols": {"tmid": STime(col(tm)), "span": Qty(col([span] * n), TIME_DIM, interp.stubs.units["s"])}}
    o.fields["_intervals"] = None
    o.born_in_call = True          # caching in `_intervals` is not a frame matter for C08
    return o


class MergedIntervals:
    """the validity intervals are exactly the spans merged wherever they touch or overlap (1 ms)."""

    def __init__(self, c, g):
        self.c, self.g = c, g

    def compare_to(self, interp, ctx, name, got):
        g = self.g
        if not isinstance(got, tuple) or not all(isinstance(x, list) and len(x) == 2 and all(isinstance(t, STime) for t in x) for x in got):
            ctx.oblige(f"{name}.is-tuple-of-[start,end]", False, "post", {"got": repr(got)[:100]})
            return
        h = V.div(ctx, g["span"], 2)
        spans = [(V.sub(t, h), V.add(t, h)) for t in g["tm"]]
        ivs = [(x[0].sec, x[1].sec) for x in got]
        ctx.oblige(f"{name}.count", len(ivs) >= 1 and len(ivs) <= len(spans), "post")
        # (a) every span lies inside one returned interval
        for k, (a, b) in enumerate(spans):
            ctx.oblige(f"{name}.span-covered[{k}]", V.Or(*[V.And(V.le(s, a), V.le(b, e)) for s, e in ivs]), "post")
        # (b) returned intervals are ordered and separated by more than 1 ms
        for (s1, e1), (s2, e2) in zip(ivs, ivs[1:]):
            ctx.oblige(f"{name}.separated", V.lt(V.add(e1, MS), s2), "post")
        # (c) every returned endpoint is a span endpoint, and an interval has no uncovered gap > 1 ms:
        #     each interval is a chain of spans each starting no later than 1 ms after the running end
        for j, (s, e) in enumerate(ivs):
            ctx.oblige(f"{name}.start-is-a-span-start[{j}]", V.Or(*[V.eq(s, a) for a, b in spans]), "post")
            ctx.oblige(f"{name}.end-is-a-span-end[{j}]", V.Or(*[V.eq(e, b) for a, b in spans]), "post")
            # no point of the interval is farther than 1 ms from every span
            x = ctx.fresh("pt")
            with ctx.scope():
                ctx.assume(z3.And(V.Z(s) <= x, x <= V.Z(e)), why="skolem point of the interval")
                ctx.oblige(f"{name}.no-gap-inside[{j}]", V.Or(*[V.And(V.le(V.sub(a, MS), x), V.le(x, V.add(b, MS))) for a, b in spans]), "post")


def spec_intervals(c, self):
    return MergedIntervals(c, self.ghost)


def inst_tables(extra=None):
    out = []
    for n in (1, 2, 3):
        def build(interp, ctx, nm, n=n):
            p = mk_predictor(interp, ctx, nm, n)
            a, k = extra(interp, ctx, nm, p) if extra else ((), {})
            return (p,) + tuple(a), k
        out.append(Instance(f"entries={n}", build))
    return out


NO_FRAME = r"^(?!.*/frame\.)"     # the table caches its intervals in self._intervals: not a signal, outside C14
_iv = Contract(f"{PQ}.intervals", spec_intervals, inst_tables(), {"C08": NO_FRAME})
_iv.no_bounded = True
_iv.c14_exempt = True
_iv.modular = False
CONTRACTS.append(_iv)


class IndexAndDt:
    """an entry whose span contains the time, and the offset from its mid-time in seconds."""

    def __init__(self, c, g, t):
        self.c, self.g, self.t = c, g, t

    def compare_to(self, interp, ctx, name, got):
        g, t = self.g, self.t
        if not isinstance(got, tuple) or len(got) != 2:
            ctx.oblige(f"{name}.is-pair", False, "post")
            return
        idx, dt = got
        h = V.div(ctx, g["span"], 2)
        n = g["n"]
        ctx.oblige(f"{name}.index-in-range", V.And(V.le(0, idx), V.lt(idx, n)), "post")
        tm_i = g["tm"][-1]
        for k in range(n - 2, -1, -1):
            tm_i = V.Ite(V.eq(idx, k), g["tm"][k], tm_i)
        ctx.oblige(f"{name}.entry-span-contains-time", V.And(V.le(V.sub(tm_i, h), t.sec), V.le(t.sec, V.add(tm_i, h))), "post")
        ctx.oblige(f"{name}.dt-from-that-entry", V.eq(dt, V.sub(t.sec, tm_i)), "post")


def spec_index_dt(c, self, times):
    """ValueError iff the time lies in no validity interval; otherwise an entry containing it."""
    ctx = c.ctx
    g = self.ghost
    h = V.div(ctx, g["span"], 2)
    t = times.sec
    # validity intervals = merged spans (1 ms): t is valid iff it lies in a span or in a gap of <= 1 ms
    # between two spans that the merge bridges.  The statement's contract is about times *inside a span*.
    in_span = V.Or(*[V.And(V.le(V.sub(m, h), t), V.le(t, V.add(m, h))) for m in g["tm"]])
    in_bridge = V.Or(False, *[V.And(V.lt(V.add(a, h), t), V.lt(t, V.sub(b, h)), V.le(V.sub(V.sub(b, h), V.add(a, h)), MS))
                              for a, b in zip(g["tm"], g["tm"][1:])])
    c.raise_if(V.Not(V.Or(in_span, in_bridge)), "ValueError", "time outside every validity interval")
    c.raise_if(V.And(in_bridge, V.Not(in_span)), "ANY", "inside a bridged sub-millisecond gap: the statement is silent")
    return IndexAndDt(c, g, times)


_gi = Contract(f"{PQ}._get_index_and_dt", spec_index_dt, inst_tables(lambda i, c, nm, p: ((STime(nm.real("t", 1500)),), {})), {"C08": NO_FRAME})
_gi.no_bounded = True
_gi.c14_exempt = True
_gi.modular = False
CONTRACTS.append(_gi)
