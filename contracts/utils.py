"""Sidecar contracts for pulsarbat/utils.py: next_fast_len / prev_fast_len (C18), real_to_complex (C19)."""
from __future__ import annotations
import itertools
import z3
from pyvc import values as V
from pyvc.values import PyExc, is_sym
from pyvc.contract import Contract, Instance
from pyvc.loops import LoopSpec, ExponentTracker

CONTRACTS = []
SETUP = []

# --------------------------------------------------------------------------- spec function V = 7^d 5^c 3^j 2^a
I = z3.IntSort()
Vf = z3.Function("V7532", I, I, I, I, I)
ZERO = (0, 0, 0, 0)
PRIMES = [7, 5, 3, 2]


def Vt(t):
    return Vf(*[V.Z(e) for e in t])


def nn(t):
    return z3.And(*[V.Z(e) >= 0 for e in t])


def bump(t, pos, k=1):
    return tuple(V.simp(V.add(e, k)) if i == pos else e for i, e in enumerate(t))


def v_lemmas(tuples):
    """Ground instances of the defining recurrences of V and of the lemmas proved below
    (positivity, monotonicity, parity)."""
    out = [Vt(ZERO) == 1]
    uniq = []
    seen = set()
    for t in tuples:
        k = tuple(str(e) for e in t)
        if k not in seen:
            seen.add(k)
            uniq.append(t)
    for t in uniq:
        rec = [Vt(bump(t, pos)) == p * Vt(t) for pos, p in enumerate(PRIMES)]
        out.append(z3.Implies(nn(t), z3.And(Vt(t) >= 1, *rec, z3.Implies(V.Z(t[3]) == 0, Vt(t) % 2 == 1))))
        out.append(z3.Implies(z3.And(nn(t), V.Z(t[3]) >= 1), Vt(t) == 2 * Vt(bump(t, 3, -1))))
    for s, t in itertools.permutations(uniq, 2):
        out.append(z3.Implies(z3.And(nn(s), *[V.Z(p) <= V.Z(q) for p, q in zip(s, t)]), Vt(s) <= Vt(t)))
    return out


# skolem tuple standing for "every exponent tuple" in the optimality clause
P = tuple(z3.Int(n) for n in ("dp", "cp", "jp", "ap"))


def tracker_for(interp, qualname):
    tr = ExponentTracker(interp, qualname, ["f7", "f75", "x", "guess"], PRIMES, Vf, v_lemmas)
    tr.install()
    return tr


def _common(S, vars_):
    """v == V(T[v]) with non-negative exponents for every tracked variable in vars_."""
    out = []
    for v in vars_:
        t = S.ghost.tuple_of(v)
        if t is None:
            out.append((f"{v}-is-tracked", False))
            continue
        out.append((f"{v}=V", V.And(V.eq(S.var(v), Vt(t)), nn(t))))
    return out


def _shape(t, like, free):
    """t agrees with `like` outside the free positions and is 0 ... (structure of the nested search)."""
    return V.And(*[V.eq(a, b) for k, (a, b) in enumerate(zip(t, like)) if k not in free])


# ============================================================================ prev_fast_len

def cov_prev(S, g):
    N = S.var("N")
    return z3.Or(Vt(P) > V.Z(N), Vt(P) <= V.Z(g))


def prev_invariants(level):
    def inv(S):
        T = S.ghost.tuple_of
        N, guess = S.var("N"), S.var("guess")
        out = _common(S, ["f7", "guess"])
        tf7 = T("f7")
        if tf7 is None or T("guess") is None:
            return out + [("ghost-lost", False)]
        d = tf7[0]
        out.append(("f7-shape", _shape(tf7, (d, 0, 0, 0), {0})))
        out.append(("guess-range", V.And(V.le(1, guess), V.le(guess, N))))
        out.append(("covered-fewer-7s", z3.Implies(V.Z(P[0]) < V.Z(d), cov_prev(S, guess))))
        if level >= 1:
            out += _common(S, ["f75"])
            t5 = T("f75")
            if t5 is None:
                return out + [("ghost-lost", False)]
            c = t5[1]
            out.append(("f75-shape", _shape(t5, (d, c, 0, 0), {1})))
            out.append(("f7<=N", V.le(S.var("f7"), N)))
            out.append(("covered-fewer-5s", z3.Implies(z3.And(V.Z(P[0]) == V.Z(d), V.Z(P[1]) < V.Z(c)), cov_prev(S, guess))))
        if level >= 2:
            out += _common(S, ["x"])
            tx = T("x")
            if tx is None:
                return out + [("ghost-lost", False)]
            j, a = tx[2], tx[3]
            out.append(("f75<=N", V.le(S.var("f75"), N)))
            if level == 2:     # doubling loop: x = f75 * 2^a, previous power still <= N
                out.append(("x-shape", _shape(tx, (d, c, 0, a), {3})))
                out.append(("x-half<=N", z3.If(V.Z(a) == 0, V.Z(S.var("x")) == V.Z(S.var("f75")),
                                               Vt((d, c, 0, V.simp(V.sub(a, 1)))) <= V.Z(N))))
            else:              # staircase
                out.append(("x-shape", _shape(tx, (d, c, j, a), {2, 3})))
                out.append(("covered-staircase", z3.Implies(
                    z3.And(V.Z(P[0]) == V.Z(d), V.Z(P[1]) == V.Z(c), z3.Or(V.Z(P[2]) < V.Z(j), V.Z(P[3]) > V.Z(a))),
                    cov_prev(S, guess))))
        return out
    return inv


def _extra(tr, S, tuples):
    tr.extra_tuples = list(tuples)


def install_prev(interp):
    qn = "pulsarbat.utils.prev_fast_len"
    tr = tracker_for(interp, qn)
    interp.trackers = getattr(interp, "trackers", {})
    interp.trackers[qn] = tr

    def var_x(S):
        return (S.ghost.tuple_of("x") or ZERO)

    specs = {
        0: LoopSpec("loop0", prev_invariants(0), lambda S: (V.sub(S.var("N"), S.var("f7")),)),
        1: LoopSpec("loop1", prev_invariants(1), lambda S: (V.sub(S.var("N"), S.var("f75")),)),
        2: LoopSpec("loop2", prev_invariants(2), lambda S: (V.sub(S.var("N"), S.var("x")),)),
        3: LoopSpec("loop3", prev_invariants(3),
                    lambda S: (var_x(S)[3], V.vmax(0, V.sub(S.var("N"), S.var("x"))))),
    }
    for k, sp in specs.items():
        interp.loop_specs[(qn, k)] = sp


SETUP.append(install_prev)


def on_start_factory(qn):
    def on_start(interp, ctx):
        tr = interp.trackers[qn]
        tr.reset()
        interp.ghost_tracker = tr
        # ground lemma instances for the skolem tuple and its neighbours are added with the tracker's tuples
        tr.extra_tuples = [P]
        ctx.assume(nn(P), why="skolem exponent tuple")
    return on_start


class FastLenRel:
    """(S) result <= N is 7-smooth (witness: ghost exponents) and (O) no 7-smooth number lies
    strictly between result and N."""

    def __init__(self, c, N, qn, direction):
        self.c, self.N, self.qn, self.direction = c, N, qn, direction

    def compare_to(self, interp, ctx, name, got):
        N = self.N
        env = interp.last_env[self.qn]
        tr = interp.trackers[self.qn]
        if not V.is_intlike(got):
            ctx.oblige(f"{name}.is-int", False, "post")
            return
        small = ctx.branch(V.le(N, 10), "spec:N <= 10")
        if small:
            ctx.oblige(f"{name}.small-N-identity", V.eq(got, N), "post")
            return
        if self.direction == "prev":
            ctx.oblige(f"{name}.le-N", V.le(got, N), "post")
        else:
            ctx.oblige(f"{name}.ge-N", V.le(N, got), "post")
        # smooth: the returned variable is a tracked product with non-negative exponents
        wit = None
        for v in ("x", "guess"):
            t = tr.tuple_of(v)
            if t is not None and env.has(v):
                cond = V.And(V.eq(got, env.lookup(v)), V.eq(env.lookup(v), Vt(t)), nn(t))
                wit = cond if wit is None else V.Or(wit, cond)
        ctx.oblige(f"{name}.smooth", wit if wit is not None else False, "post")
        if self.direction == "prev":
            ctx.oblige(f"{name}.optimal", z3.Implies(Vt(P) <= V.Z(N), Vt(P) <= V.Z(got)), "post")
        else:
            ctx.oblige(f"{name}.optimal", z3.Implies(Vt(P) >= V.Z(N), Vt(P) >= V.Z(got)), "post")

    def realize(self, interp, ctx):
        """Modular use at a call site: a fresh result constrained by the proved postconditions."""
        N = self.N
        if not is_sym(N):
            return smooth_prev(N) if self.direction == "prev" else smooth_next(N)
        cache = ctx.__dict__.setdefault("pure_cache", {})
        key = (self.qn, V.Z(N).sexpr())
        if key in cache:           # a pure function: equal arguments give the same result
            return cache[key]
        r = ctx.fresh("fastlen", "int")
        cache[key] = r
        w = tuple(ctx.fresh(f"fl_e{k}", "int") for k in range(4))
        big = z3.And(r == Vt(w), nn(w), r >= 1, (r <= N) if self.direction == "prev" else z3.And(r >= N, r <= 2 * N))
        ctx.assume(z3.If(V.Z(N) <= 10, r == V.Z(N), big), why=f"contract:{self.qn} postcondition")
        return r

    def compare_concrete(self, got, where, out, pb):
        from pyvc.concrete import Mismatch
        N = int(self.N)
        want = smooth_prev(N) if self.direction == "prev" else smooth_next(N)
        if got != want:
            out.append(Mismatch(where, got, want))


def is_smooth(n):
    if n < 1:
        return False
    for p in (2, 3, 5, 7):
        while n % p == 0:
            n //= p
    return n == 1


def smooth_prev(N):
    if N <= 0:
        return N
    k = N
    while not is_smooth(k):
        k -= 1
    return k


def smooth_next(N):
    if N <= 0:
        return N
    k = N
    while not is_smooth(k):
        k += 1
    return k


def inst_N():
    def build(interp, ctx, nm):
        N = nm.int("N")
        ctx.assume(V.le(0, N), why="requires N >= 0")
        return (N,), {}
    return [Instance("N>=0", build)]


def spec_prev(c, N):
    """largest 7-smooth integer <= N (0 -> 0)."""
    if not V.is_intlike(N):
        raise PyExc("TypeError", "N must be an integer")
    return FastLenRel(c, N, "pulsarbat.utils.prev_fast_len", "prev")


_cp = Contract("pulsarbat.utils.prev_fast_len", spec_prev, inst_N(), props=("C18",))
_cp.on_path_start = on_start_factory("pulsarbat.utils.prev_fast_len")
CONTRACTS.append(_cp)


# ============================================================================ next_fast_len

def cov_next(S, g):
    N = S.var("N")
    return z3.Or(Vt(P) < V.Z(N), Vt(P) >= V.Z(g))


def next_invariants(level):
    def inv(S):
        T = S.ghost.tuple_of
        N, guess = S.var("N"), S.var("guess")
        out = _common(S, ["f7"])
        tf7 = T("f7")
        if tf7 is None:
            return out + [("ghost-lost", False)]
        d = tf7[0]
        out.append(("f7-shape", _shape(tf7, (d, 0, 0, 0), {0})))
        out.append(("guess-range", V.And(V.le(N, guess), V.le(guess, V.mul(2, N)))))
        tg = T("guess")
        smooth = V.And(V.eq(guess, Vt(tg)), nn(tg)) if tg is not None else False
        pristine = V.And(V.eq(guess, V.mul(2, N)), V.eq(d, 0))
        out.append(("covered-fewer-7s", z3.Implies(V.Z(P[0]) < V.Z(d), cov_next(S, guess))))
        if level >= 1:
            out += _common(S, ["f75"])
            t5 = T("f75")
            if t5 is None:
                return out + [("ghost-lost", False)]
            c = t5[1]
            out.append(("f75-shape", _shape(t5, (d, c, 0, 0), {1})))
            out.append(("covered-fewer-5s", z3.Implies(z3.And(V.Z(P[0]) == V.Z(d), V.Z(P[1]) < V.Z(c)), cov_next(S, guess))))
            pristine = V.And(pristine, V.eq(c, 0))
        if level >= 2:
            out += _common(S, ["x"])
            tx = T("x")
            if tx is None:
                return out + [("ghost-lost", False)]
            j, a = tx[2], tx[3]
            if level == 2:
                out.append(("x-shape", _shape(tx, (d, c, 0, a), {3})))
                out.append(("x-half<N", z3.If(V.Z(a) == 0, V.Z(S.var("x")) == V.Z(S.var("f75")),
                                              Vt((d, c, 0, V.simp(V.sub(a, 1)))) < V.Z(N))))
            else:
                out.append(("x-shape", _shape(tx, (d, c, j, a), {2, 3})))
                out.append(("covered-staircase", z3.Implies(
                    z3.And(V.Z(P[0]) == V.Z(d), V.Z(P[1]) == V.Z(c), z3.Or(V.Z(P[2]) < V.Z(j), V.Z(P[3]) > V.Z(a))),
                    cov_next(S, guess))))
                pristine = V.And(pristine, V.le(N, S.var("x")), V.lt(S.var("x"), V.mul(2, N)))
        out.append(("guess-smooth-or-initial", V.Or(smooth, pristine)))
        return out
    return inv


def install_next(interp):
    qn = "pulsarbat.utils.next_fast_len"
    tr = tracker_for(interp, qn)
    interp.trackers = getattr(interp, "trackers", {})
    interp.trackers[qn] = tr

    def var_x(S):
        return (S.ghost.tuple_of("x") or ZERO)
    specs = {
        0: LoopSpec("loop0", next_invariants(0), lambda S: (V.sub(S.var("guess"), S.var("f7")),)),
        1: LoopSpec("loop1", next_invariants(1), lambda S: (V.sub(S.var("guess"), S.var("f75")),)),
        2: LoopSpec("loop2", next_invariants(2), lambda S: (V.sub(S.var("N"), S.var("x")),)),
        3: LoopSpec("loop3", next_invariants(3), lambda S: (var_x(S)[3], V.vmax(0, V.sub(S.var("N"), S.var("x"))))),
    }
    for k, sp in specs.items():
        interp.loop_specs[(qn, k)] = sp


SETUP.append(install_next)


def spec_next(c, N):
    """smallest 7-smooth integer >= N (0 -> 0)."""
    if not V.is_intlike(N):
        raise PyExc("TypeError", "N must be an integer")
    return FastLenRel(c, N, "pulsarbat.utils.next_fast_len", "next")


_cn = Contract("pulsarbat.utils.next_fast_len", spec_next, inst_N(), props=("C18",))
_cn.on_path_start = on_start_factory("pulsarbat.utils.next_fast_len")
CONTRACTS.append(_cn)


# ============================================================================ lemmas about V (base / step pairs)
# The ground lemma instances used above are consequences of the defining recurrences
# V(0,0,0,0)=1, V(t+e_k)=p_k*V(t); positivity, monotonicity and parity follow by induction on the
# exponents.  Base and step are discharged here; the induction principle itself is meta-level.

def _lemma_body(interp, ctx, args, kwargs):
    return "lemma"


def _lemma_spec(c):
    t = tuple(z3.Int(n) for n in ("ld", "lc", "lj", "la"))
    ctx = c.ctx
    ctx.assume(nn(t), why="lemma: exponents are naturals")
    rec = [Vt(bump(t, pos)) == p * Vt(t) for pos, p in enumerate(PRIMES)]
    for f in rec:
        ctx.assume(f, why="V-recurrence (definition)")
    ctx.assume(Vt(ZERO) == 1, why="V-base (definition)")
    ctx.oblige("lemma.V.positive.base", Vt(ZERO) >= 1, "lemma")
    for pos, p in enumerate(PRIMES):
        ctx.oblige(f"lemma.V.positive.step[{p}]", z3.Implies(Vt(t) >= 1, Vt(bump(t, pos)) >= 1), "lemma")
        ctx.oblige(f"lemma.V.monotone.step[{p}]", z3.Implies(Vt(t) >= 1, Vt(bump(t, pos)) >= Vt(t)), "lemma")
        if p != 2:
            ctx.oblige(f"lemma.V.odd.step[{p}]", z3.Implies(Vt(t) % 2 == 1, Vt(bump(t, pos)) % 2 == 1), "lemma")
    ctx.oblige("lemma.V.odd.base", Vt(ZERO) % 2 == 1, "lemma")
    ctx.oblige("lemma.V.even-when-a>=1", Vt(bump(t, 3)) % 2 == 0, "lemma")
    return "lemma"


_cl = Contract("lemma.C18.V", _lemma_spec, [Instance("recurrences", lambda interp, ctx, nm: ((), {}))], props=("C18",), body=_lemma_body)
_cl.no_bounded = True
CONTRACTS.append(_cl)


# ============================================================================ real_to_complex (C19)
from fractions import Fraction
from pyvc import arrays as A
from pyvc.values import SArr, Cx, DType, SSlice
from pyvc.sigmodel import sym_array
from pyvc.stubs_fft import opaque_op


def hilbert_weight(ctx, N, k):
    """1 at DC, 2 on positive frequencies, 1 at Nyquist (even N), 0 on negative frequencies."""
    two_k = V.mul(2, k)
    return V.Ite(V.eq(k, 0), 1, V.Ite(V.lt(two_k, N), 2, V.Ite(V.eq(two_k, N), 1, 0)))


def spec_real_to_complex(c, z, axis=0):
    """C19: analytic signal along `axis`, mixed down by a quarter of the sampling rate and decimated
    by two: ceil(N/2) samples; complex64 for float32 input, complex128 otherwise; complex refused."""
    ctx = c.ctx
    if not isinstance(z, SArr):
        raise PyExc(("TypeError", "ValueError"), "array expected")
    if z.is_complex:
        raise PyExc("ValueError", "Input must be real-valued")
    out_dt = DType("complex64" if z.dtype.name == "float32" else "complex128")
    if not isinstance(axis, int) or not (-z.ndim <= axis < z.ndim):
        raise PyExc(("IndexError", "ValueError", "TypeError"), "bad axis")
    ax = axis % z.ndim
    N = z.shape[ax]
    zz = SArr(z.shape, z.elem, z.dtype, "numpy")
    if c.branch(V.eq(N, 0), "empty axis"):
        return A.astype(ctx, zz, out_dt)
    F = opaque_op(ctx, "fft", zz, ax)
    W = SArr(F.shape, lambda ix: hilbert_weight(ctx, N, ix[ax]), out_dt)
    prod = A.elementwise(ctx, lambda f, w: V.cmul(f, w), [F, W], F.dtype if F.dtype.name == out_dt.name else DType("complex128"))
    a = opaque_op(ctx, "ifft", prod, ax)
    half_pi = V.div(ctx, V.PI, 2)
    M = V.simp(V.floordiv_int(ctx, V.add(N, 1), 2))
    shape = z.shape[:ax] + (M,) + z.shape[ax + 1:]

    def elem(ix):
        m = ix[ax]
        src = ix[:ax] + (V.mul(2, m),) + ix[ax + 1:]
        return V.cmul(a.elem(src), V.cis(V.neg(V.mul(half_pi, V.mul(2, m)))))
    return SArr(shape, elem, out_dt)


def r2c_theorems(c, result, z, axis=0):
    """Numerical consequences (bounded only: they rest on DFT theory, which the uninterpreted FFT
    does not carry): (-1)^m Re(out[m]) = z[2m]."""
    ctx = c.ctx
    if not getattr(ctx, "enumerate_quantifiers", False) or not isinstance(result, SArr):
        return
    import itertools
    ax = axis % z.ndim
    scale = max([abs(float(z.elem(ix))) for ix in itertools.product(*[range(int(d)) for d in z.shape])] + [1e-30])
    for ix in itertools.product(*[range(int(d)) for d in result.shape]):
        m = ix[ax]
        src = ix[:ax] + (2 * m,) + ix[ax + 1:]
        got = (-1) ** m * float(Cx.of(result.elem(ix)).re)
        want = float(z.elem(src))
        tol = (4e-6 if z.dtype.name == "float32" else 1e-12) * scale
        ctx.oblige("thm.C19.real-part-is-input", abs(got - want) <= tol, "post")


def inst_r2c():
    out = []
    for rank, axis in ((1, 0), (1, -1), (2, 0), (2, 1), (2, -1), (3, 1), (3, 0), (1, 1), (2, -3)):
        for dt in ("float64", "float32", "int64", "complex128", "bool"):
            if dt in ("complex128", "bool") and (rank, axis) != (2, 0):
                continue
            def build(interp, ctx, nm, rank=rank, axis=axis, dt=dt):
                shape = []
                for k in range(rank):
                    d = nm.int(f"x_d{k}_N")        # "_N": concrete draws cover 0..13, 16, 22 (both parities, N mod 4 = 0..3)
                    ctx.assume(V.le(0, d), why="input: dims are non-negative")
                    shape.append(d)
                return (sym_array("x", shape, dt, nm=nm),), {"axis": axis}
            out.append(Instance(f"rank={rank},axis={axis},{dt}", build))
    def build(interp, ctx, nm):
        d = nm.int("x_d0_N")
        ctx.assume(V.le(0, d), why="input")
        return (sym_array("x", (d,), "float64", nm=nm),), {}
    out.append(Instance("rank=1,default-axis", build))
    return out


_rc = Contract("pulsarbat.utils.real_to_complex", spec_real_to_complex, inst_r2c(), props=("C19",))
_rc.theorems = r2c_theorems


def _r2c_tol(label, used):
    from pyvc.concrete import Tol
    return Tol(data_abs=3e-6 if "float32" in label else 1e-9)


_rc.tol_fn = _r2c_tol
CONTRACTS.append(_rc)
