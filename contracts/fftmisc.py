"""Sidecar contracts for pulsarbat/fft.py and pulsarbat/contrib/misc.py (C20, C14, C09)."""
from __future__ import annotations
from fractions import Fraction
import z3
from pyvc import values as V
from pyvc import arrays as A
from pyvc.values import SArr, Qty, STime, PyExc, Cx, DType, SSlice, is_sym, Obj
from pyvc.contract import Contract, Instance, ASig, compare_values
from pyvc.sigmodel import mk_signal, sym_array
from pyvc.speclib import construct, label, like_attrs, qdiv
from pyvc.stubs_lib import FREQ_DIM, TIME_DIM
from pyvc.stubs_fft import FftFunc, FFT_NAMES, opaque_op
from pyvc.interp import FuncVal, NOTIMPL

CONTRACTS = []
SETUP = []
STATEMENT_NAMES = ["fft", "fft2", "fftn", "ifft", "ifft2", "ifftn", "rfft", "rfft2", "rfftn", "irfft", "irfft2", "irfftn", "hfft", "ihfft"]


class SameNamedTransform:
    """pb.fft.<name>: the same-named scipy.fft transform on NumPy arrays and its
    dask.array.fft.fft_wrap on Dask arrays (compared behaviourally on symbolic arrays)."""

    def __init__(self, name):
        self.name = name

    def compare_to(self, interp, ctx, name, got):
        for be in ("numpy", "dask"):
            x = sym_array(f"probe_{be}", (z3.Int("probe_n"), z3.Int("probe_m")), "complex128", be)
            x.owner = frozenset([f"param:probe_{be}"])      # the caller's array: any write to it breaks C14
            with ctx.scope():
                ctx.assume(z3.And(z3.Int("probe_n") >= 1, z3.Int("probe_m") >= 1), why="probe dims")
                kws = [{}, {"axis": 0} if self.name in ("fft", "ifft", "rfft", "irfft", "hfft", "ihfft") else {"norm": "ortho"}]
                if self.name.endswith("n"):
                    kws += [{"s": (3,)}, {"s": (3,), "axes": (0,)}]        # a length without axes: the LAST axis (scipy)
                for kw in kws:
                    try:
                        r = interp.call(got, (x,), dict(kw), ctx)
                    except PyExc as e:
                        ctx.oblige(f"{name}.{be}.callable", False, "post", {"got": e.kind, "msg": e.msg})
                        continue
                    # the reference is the scipy transform in either case (C20: "what the reference implementation of
                    # that same-named transform returns ... and, lazily, on Dask arrays"), not the dask wrapper
                    x_ref = SArr(x.shape, x.elem, x.dtype, "numpy")
                    w = interp.call(FftFunc(self.name), (x_ref,), dict(kw), ctx)
                    want = SArr(w.shape, w.elem, w.dtype, be) if isinstance(w, SArr) else w
                    compare_values(interp, ctx, f"{name}.{be}{sorted(kw)}", r, want)

    def compare_concrete(self, got, where, out, pb):
        import numpy as np
        import scipy.fft
        import dask.array as da
        from pyvc.concrete import Mismatch
        rng = np.random.default_rng(0)
        real_in_ = self.name in ("rfft", "rfft2", "rfftn", "ihfft")
        x = rng.standard_normal((6, 4)) + 1j * rng.standard_normal((6, 4))
        if self.name in ("rfft", "rfft2", "rfftn", "ihfft"):
            x = np.ascontiguousarray(x.real)        # real-input transforms
        ref = getattr(scipy.fft, self.name)
        x0 = x.copy()
        a = got(x)
        if not np.array_equal(x, x0):
            out.append(Mismatch("frame.input-mutated[pb.fft." + self.name + " argument]", "changed by the call", "bit-identical"))
            x = x0.copy()
        b = ref(x)
        if a.shape != b.shape or a.dtype != b.dtype or not np.array_equal(a, b):
            out.append(Mismatch(where + ".numpy", "differs", "scipy.fft." + self.name))
        xd = da.from_array(x, chunks=(-1, -1))
        d = got(xd)
        if not isinstance(d, da.Array):
            out.append(Mismatch(where + ".dask.lazy", type(d).__name__, "dask Array"))
        elif not np.allclose(d.compute(), b):
            out.append(Mismatch(where + ".dask.values", "differs", "scipy.fft." + self.name))
        # C20 "for any axis/axes and length arguments": lengths with and without axes, both back ends, Dask chunked
        # only along axis 0 (never transformed here)
        yl = rng.standard_normal((2, 5, 6)) + (0 if real_in_ else 1j * rng.standard_normal((2, 5, 6)))
        nd = self.name.endswith("2") or self.name.endswith("n")
        forms = ([{"s": (4, 7)}, {"s": (4, 7), "axes": (1, 2)}, {"s": (7, 3), "axes": (2, 1)}, {"axes": (2, 1)}, {"s": (4, 7), "axes": None},
                  {"_pos": ((4, 7),)}, {"_pos": ((4, 7), None)}, {"_pos": ((4, 7), (1, 2))}] if nd
                 else [{"n": 4}, {"n": 9}, {"n": 7, "axis": 1}, {"axis": 1}])
        for kw in forms:
            kw = dict(kw)
            pos = kw.pop("_pos", ())          # the same arguments given positionally
            lab = ",".join([repr(v) for v in pos] + [f"{k}={v}" for k, v in kw.items()])
            try:
                b = ref(yl, *pos, **kw)
            except Exception:
                continue
            for be in ("numpy", "dask"):
                try:
                    a = got(yl if be == "numpy" else da.from_array(yl, chunks=(1, -1, -1)), *pos, **kw)
                    av = a.compute() if be == "dask" else a
                except Exception as e:
                    out.append(Mismatch(f"{where}.{be}.length-args[{lab}]", f"{type(e).__name__}: {e}"[:140], f"scipy.fft.{self.name} result of shape {b.shape}"))
                    continue
                if a.shape != b.shape or a.dtype != b.dtype or not np.allclose(av, b):
                    out.append(Mismatch(f"{where}.{be}.length-args[{lab}]", f"{a.dtype}{a.shape}", f"{b.dtype}{b.shape} (scipy.fft.{self.name})"))
        # C20 "values, shape, dtype": every input dtype, both backends; the Dask result must declare (lazily) and
        # deliver the reference dtype
        real_in = real_in_
        for code in ("?", "i1", "u1", "i2", "u2", "i4", "i8", "f2", "f4", "f8", "c8", "c16"):
            if code.startswith("c") and real_in:
                continue
            y = rng.integers(0, 2 if code == "?" else 50, size=(2, 3, 6)).astype(code)
            kw = {"axes": (1, 2)} if self.name.endswith("n") else {}     # the chunked axis 0 is never transformed
            if code.startswith("c"):
                y = y + 1j * rng.integers(0, 50, size=y.shape).astype(code)
            try:
                b = ref(y, **kw)
            except Exception:
                continue
            try:
                a = got(y, **kw)
                d = got(da.from_array(y, chunks=(1, -1, -1)), **kw)
                dc = d.compute()
            except Exception as e:
                out.append(Mismatch(f"{where}.dtype-sweep[{np.dtype(code).name}]", f"{type(e).__name__}: {e}"[:120], "scipy.fft." + self.name))
                continue
            if a.dtype != b.dtype or a.shape != b.shape or not np.array_equal(a, b):
                out.append(Mismatch(f"{where}.numpy.dtype-sweep[{np.dtype(code).name}]", f"{a.dtype}{a.shape}", f"{b.dtype}{b.shape} (scipy.fft.{self.name})"))
            if d.dtype != b.dtype or d.shape != b.shape:
                out.append(Mismatch(f"{where}.dask.declared[{np.dtype(code).name}]", f"{d.dtype}{d.shape}", f"{b.dtype}{b.shape} (scipy.fft.{self.name})"))
            elif dc.dtype != b.dtype or dc.shape != b.shape or not np.allclose(dc, b):
                out.append(Mismatch(f"{where}.dask.computed[{np.dtype(code).name}]", f"{dc.dtype}{dc.shape}", f"{b.dtype}{b.shape} (scipy.fft.{self.name})"))


def spec_fft_getattr(c, name):
    """unknown names raise AttributeError; each of the fourteen names gives the same-named transform."""
    if not isinstance(name, str) or name not in STATEMENT_NAMES:
        raise PyExc("AttributeError", name)
    return SameNamedTransform(name)


def inst_fft_names():
    out = []
    for n in STATEMENT_NAMES + ["bogus", "fftfreq", "fftshift", "dct", "next_fast_len", "__path__"]:
        out.append(Instance(f"name={n}", lambda interp, ctx, nm, n=n: ((n,), {})))
    return out


_fg = Contract("pulsarbat.fft.__getattr__", spec_fft_getattr, inst_fft_names(), props=("C20", "C09"))
_fg.modular = False
CONTRACTS.append(_fg)


def spec_fft_dir(c):
    return sorted(STATEMENT_NAMES)


CONTRACTS.append(Contract("pulsarbat.fft.__dir__", spec_fft_dir, [Instance("dir", lambda interp, ctx, nm: ((), {}))], props=("C20",)))


# --------------------------------------------------------------------------- contributed STFT / ISTFT (C20)
NO_FRAME = r"^(?!.*/frame\.)"
ONLY_FRAME = r"/frame\."
ALIGN_A = {"bottom": 0, "center": Fraction(1, 2), "top": 1}


def _is_baseband(z):
    return isinstance(z, Obj) and any(k.name == "BasebandSignal" for k in z.cls.mro())


def spec_stft(c, z, window="boxcar", nperseg=256, noverlap=0, nfft=None):
    """each channel split into nperseg sub-channels labelled with the true frequencies of their
    content; sample rate divided by nperseg; start time unchanged; floor(N/nperseg) samples."""
    ctx = c.ctx
    if window != "boxcar" or noverlap != 0 or nfft is not None:
        return NOTIMPL
    if not _is_baseband(z):
        raise PyExc("ValueError", "z must be a BasebandSignal")
    g = c.view(z)
    p = nperseg
    if not isinstance(p, int) or p < 1:
        raise PyExc("ANY", "nperseg must be a positive integer")
    N, n = g.N, g.nchan
    M = V.simp(V.floordiv_int(ctx, N, p))
    c.raise_if(V.eq(M, 0), "ANY", "fewer samples than one segment: the statement is silent")
    used = A.getitem(ctx, g.data, SSlice(None, V.mul(M, p), None))
    st = c.interp.stubs
    x = st.np_reshape(ctx, used, (M, p) + tuple(g.data.shape[1:]))
    x = A.swapaxes(ctx, x, 1, 2)                       # (M, n, p, ...)
    X = opaque_op(ctx, "fft", x, 2, n=p)
    Xs = st.fftshift(ctx, X, (2,), False)
    y = st.np_reshape(ctx, Xs, (M, V.mul(n, p)) + tuple(Xs.shape[3:]))
    data = A.elementwise(ctx, lambda v: V.cmul(v, Fraction(1, p)), [y], y.dtype)
    a = ALIGN_A[g.align]
    sr = g.sr.val
    bw2 = V.div(ctx, sr, p)
    # labels: sub-channel q of channel i sits at label_i + (q - floor(p/2)) * sr/p
    cf2 = V.add(g.cf.val, V.mul(bw2, V.sub(V.sub(V.mul(a, p), p // 2), Fraction(1, 2))))
    attrs = like_attrs(g, sample_rate=Qty(bw2, FREQ_DIM, g.sr.unit), center_freq=Qty(cf2, FREQ_DIM, g.cf.unit), freq_align="center")
    return construct(c, g.cls, data, attrs)


def stft_theorems(c, result, z, window="boxcar", nperseg=256, noverlap=0, nfft=None):
    ctx = c.ctx
    if not isinstance(result, Obj):
        return
    g, r = c.view(z), c.view(result)
    p = nperseg
    ctx.oblige("thm.C20.stft.nchan", V.eq(r.nchan, V.mul(g.nchan, p)), "post")
    ctx.oblige("thm.C20.stft.rate", V.eq(V.mul(r.sr.val, p), g.sr.val), "post")
    ctx.oblige("thm.C20.stft.start", (g.t0 is None) == (r.t0 is None) and (g.t0 is None or V.eq(g.t0.sec, r.t0.sec)), "post")

    def chan(i):
        for q in range(p):
            want = V.add(label(c, g, i), V.mul(V.div(ctx, g.sr.val, p), q - p // 2))
            ctx.oblige("thm.C20.stft.sub-channel-label", V.eq(label(c, r, V.add(V.mul(i, p), q)), want), "post")
    c.forall_int("chan", 0, g.nchan, chan)


def inst_stft(fn):
    out = []
    for cls in ("BasebandSignal", "DualPolarizationSignal"):
        for al in ("bottom", "center", "top"):
            for p in (1, 2, 3, 4):
                def build(interp, ctx, nm, cls=cls, al=al, p=p):
                    z = mk_signal(interp, ctx, "z", cls, align=al, dtype="complex64" if p == 2 else "complex128", nm=nm)
                    if fn == "istft":
                        # channel count must be a multiple of nperseg
                        n = z.ghost["data"].shape[1]
                        ctx.assume(V.eq(V.mod_int(ctx, n, p), 0), why="requires: nchan multiple of nperseg")
                    return (z,), {"nperseg": p}
                out.append(Instance(f"{cls},align={al},nperseg={p}", build))
    for variant, kw in (("window", {"window": "hann"}), ("noverlap", {"noverlap": 2}), ("nfft", {"nfft": 4})):
        def build(interp, ctx, nm, kw=kw):
            return (mk_signal(interp, ctx, "z", "BasebandSignal", nm=nm),), dict(kw, nperseg=2)
        out.append(Instance(f"unsupported-{variant}", build))
    def build(interp, ctx, nm):
        return (mk_signal(interp, ctx, "z", "IntensitySignal", nm=nm),), {"nperseg": 2}
    out.append(Instance("not-baseband", build))
    return out


_st = Contract("pulsarbat.contrib.misc.stft", spec_stft, inst_stft("stft"), props={"C20": None, "C14": ONLY_FRAME, "C09": NO_FRAME})
_st.theorems = stft_theorems


def _stft_tol(label, used):
    from pyvc.concrete import Tol
    return Tol(data_abs=2e-5)


_st.tol_fn = _stft_tol
CONTRACTS.append(_st)


def spec_istft(c, z, window="boxcar", nperseg=256, noverlap=0, nfft=None):
    """inverse of stft: groups of nperseg sub-channels back to one channel, sample rate multiplied."""
    ctx = c.ctx
    if window != "boxcar" or noverlap != 0 or nfft is not None:
        return NOTIMPL
    if not _is_baseband(z):
        raise PyExc("ValueError", "z must be a BasebandSignal")
    g = c.view(z)
    p = nperseg
    if not isinstance(p, int) or p < 1:
        raise PyExc("ANY", "nperseg must be a positive integer")
    M, n = g.N, g.nchan
    st = c.interp.stubs
    c.raise_if(V.eq(M, 0), "ANY", "empty signal: the statement is silent")
    c.raise_if(V.ne(V.mod_int(ctx, n, p), 0), "ValueError", "channel count is not a multiple of nperseg")
    n2 = V.simp(V.floordiv_int(ctx, n, p))
    x = st.np_reshape(ctx, SArr(g.data.shape, g.data.elem, g.data.dtype, g.data.backend), (M, n2, p) + tuple(g.data.shape[2:]))
    x = A.elementwise(ctx, lambda v: V.cmul(v, p), [x], x.dtype)
    x = A.swapaxes(ctx, x, 1, 2)                       # (M, p, n2, ...)
    xi = st.fftshift(ctx, x, (1,), True)
    X = opaque_op(ctx, "ifft", xi, 1, n=p)
    y = st.np_reshape(ctx, X, (V.mul(M, p),) + tuple(X.shape[2:]))
    attrs = like_attrs(g, sample_rate=Qty(V.mul(g.sr.val, p), FREQ_DIM, g.sr.unit), freq_align="center")
    return construct(c, g.cls, y, attrs)


_is = Contract("pulsarbat.contrib.misc.istft", spec_istft, inst_stft("istft"), props={"C20": None, "C14": ONLY_FRAME, "C09": NO_FRAME})
_is.tol_fn = _stft_tol
CONTRACTS.append(_is)


# ISTFT of the STFT returns the original sample rate, start time, channel count and labels,
# p*floor(N/p) samples; the sample values themselves are compared only concretely (bounded):
# the reshape/swapaxes index algebra with a symbolic channel count is nonlinear integer arithmetic.
def _roundtrip_body(interp, ctx, a, k):
    from contracts.core import M
    fs = interp.funcval_for("pulsarbat.contrib.misc.stft")
    fi = interp.funcval_for("pulsarbat.contrib.misc.istft")
    # istft reads center_freq itself (not only the labels), so the round trip is verified on the two
    # real bodies inlined, not through the (label-level) contract of stft
    names = {"pulsarbat.contrib.misc.stft", "pulsarbat.contrib.misc.istft"}
    added = names - interp.no_contract
    interp.no_contract |= names
    try:
        s = interp.call_function(fs, (a[0],), {"nperseg": k["nperseg"]}, ctx)
        return interp.call_function(fi, (s,), {"nperseg": k["nperseg"]}, ctx)
    finally:
        interp.no_contract -= added


class RoundTrip:
    def __init__(self, c, z, p):
        self.c, self.z, self.p = c, z, p

    def compare_to(self, interp, ctx, name, got):
        c, p = self.c, self.p
        g = c.view(self.z)
        if not isinstance(got, Obj):
            ctx.oblige(f"{name}.is-signal", False, "post")
            return
        if getattr(ctx, "sanction_roundtrip", None) is None:
            pass
        r = c.view(got)
        ctx.oblige(f"{name}.type", got.cls is self.z.cls, "post")
        ctx.oblige(f"{name}.length", V.eq(r.N, V.mul(p, V.floordiv_int(ctx, g.N, p))), "post")
        ctx.oblige(f"{name}.nchan", V.eq(r.nchan, g.nchan), "post")
        ctx.oblige(f"{name}.sample_rate", V.eq(r.sr.val, g.sr.val), "post")
        ctx.oblige(f"{name}.start_time", (g.t0 is None) == (r.t0 is None) and (g.t0 is None or V.eq(g.t0.sec, r.t0.sec)), "post")
        c.forall_int("chan", 0, g.nchan, lambda i: ctx.oblige(f"{name}.channel-labels", V.eq(label(c, r, i), label(c, g, i)), "post"))

    def compare_concrete(self, got, where, out, pb):
        import numpy as np
        from pyvc.concrete import Mismatch, to_real
        z = to_real(self.z, pb)
        p = self.p
        n = p * (len(z) // p)
        if type(got) is not type(z) or len(got) != n or got.nchan != z.nchan:
            out.append(Mismatch(where + ".shape/type", (type(got).__name__, len(got)), (type(z).__name__, n)))
            return
        if abs((got.sample_rate - z.sample_rate).to_value("Hz")) > 1e-9 * z.sample_rate.to_value("Hz"):
            out.append(Mismatch(where + ".sample_rate", str(got.sample_rate), str(z.sample_rate)))
        if (z.start_time is None) != (got.start_time is None) or (z.start_time is not None and abs((got.start_time - z.start_time).to_value("s")) > 1e-10):
            out.append(Mismatch(where + ".start_time", str(got.start_time), str(z.start_time)))
        cf = z.channel_freqs.to_value("Hz")
        if not np.allclose(got.channel_freqs.to_value("Hz"), cf, rtol=1e-12, atol=1e-6 * abs(z.chan_bw.to_value("Hz"))):
            out.append(Mismatch(where + ".channel-labels", list(got.channel_freqs.to_value("Hz")), list(cf)))
        a, b = np.asarray(got.data), np.asarray(z.data)[:n]
        if a.shape != b.shape or not np.allclose(a, b, rtol=0, atol=3e-5 * max(1e-30, float(np.max(np.abs(b))) if b.size else 1.0)):
            out.append(Mismatch(where + ".samples", "differ", "original samples"))


def _spec_roundtrip(c, z, nperseg=2):
    g = c.view(z)
    c.raise_if(V.lt(g.N, nperseg), "ANY", "fewer samples than one segment")
    return RoundTrip(c, z, nperseg)


_rt = Contract("lemma.C20.istft-of-stft", _spec_roundtrip,
               [i for i in inst_stft("stft") if "nperseg=" in i.label and "unsupported" not in i.label],
               props={"C20": NO_FRAME}, body=_roundtrip_body)
_rt.real_call = lambda pb, a, k: pb.contrib.istft(pb.contrib.stft(a[0], nperseg=k["nperseg"]), nperseg=k["nperseg"])
CONTRACTS.append(_rt)
