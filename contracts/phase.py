"""Sidecar contracts for pulsarbat/pulsar/phase.py (C07, C15): the two-double kernel in model M_u."""
from __future__ import annotations
from fractions import Fraction
import z3
from pyvc import values as V
from pyvc.values import PyExc, is_sym
from pyvc.contract import Contract, Instance

CONTRACTS = []
SETUP = []
U = Fraction(1, 2 ** 53)
B52 = 2 ** 52
B51 = 2 ** 51


def _abs(x):
    return z3.If(V.Z(x) >= 0, V.Z(x), -V.Z(x))


class DayFracRel:
    """day integer-valued; |day + frac - T| <= bound; |frac| <= 1/2 + 4u when |T| <= 2^51."""

    def __init__(self, T, bound, path):
        self.T, self.bound, self.path = T, bound, path

    def compare_to(self, interp, ctx, name, got):
        if not isinstance(got, tuple) or len(got) != 2:
            ctx.oblige(f"{name}.is-pair", False, "post")
            return
        day, frac = got
        ctx.oblige(f"{name}.day-integer-valued", bool(V.is_intlike(day)), "post", {"got": repr(day)[:80]})
        if not V.is_intlike(day):
            return
        err = V.Z(V.R(V.Z(day))) + V.Z(frac) - V.Z(self.T)
        ctx.oblige(f"{name}.accuracy", z3.And(err <= z3.Q(self.bound.numerator, self.bound.denominator),
                                              err >= -z3.Q(self.bound.numerator, self.bound.denominator)), "post")
        lim = Fraction(1, 2) + 4 * U
        ctx.oblige(f"{name}.frac-range", z3.Implies(_abs(self.T) <= B51,
                   z3.And(V.Z(frac) <= z3.Q(lim.numerator, lim.denominator), V.Z(frac) >= -z3.Q(lim.numerator, lim.denominator))), "post")

    def compare_concrete(self, got, where, out, pb):
        pass


def spec_day_frac(c, val1, val2, factor=None, divisor=None):
    """Two-double sum (times factor, over divisor): exact to 2^-52 (add path) / 2^-51 (scaled)."""
    T = V.add(val1, val2)
    path = "add"
    if factor is not None:
        T = V.mul(T, factor)
        path = "factor"
    if divisor is not None:
        T = V.div(c.ctx, T, divisor)
        path = "divisor" if path == "add" else "factor+divisor"
    bound = 2 * U if path == "add" else 4 * U
    return DayFracRel(T, bound, path)


def pre_day_frac(c, val1, val2, factor=None, divisor=None):
    s = V.add(val1, val2)
    conds = [_abs(s) <= B52]
    T = s
    if factor is not None:
        conds.append(_abs(factor) <= B52)
        T = V.mul(T, factor)
        conds.append(_abs(T) <= B52)
    if divisor is not None:
        conds.append(_abs(divisor) <= B52)
        conds.append(_abs(divisor) >= z3.Q(1, B52))
        T = V.div(c.ctx, T, divisor)
        conds.append(_abs(T) <= B52)
    c.requires(z3.And(*conds), "|T| <= 2^52 (and operands in range)")


def inst_day_frac():
    out = []
    # the divisor path does not discharge within 150 s (nonlinear real arithmetic): bounded only
    for path in ("add", "factor"):
        def build(interp, ctx, nm, path=path):
            kw = {}
            if path == "factor":
                kw["factor"] = nm.real("factor", 3)
            if path == "divisor":
                kw["divisor"] = nm.real("divisor", 7)
            return (nm.real("v1", 5), nm.real("v2", Fraction(1, 4))), kw
        inst = Instance(path, build)
        inst.tier = "quick" if path == "add" else "thorough"
        out.append(inst)
    return out


def mu_on(interp, ctx):
    ctx.mu = True


_df = Contract("pulsarbat.pulsar.phase.day_frac", spec_day_frac, inst_day_frac(), props=("C07", "C15"))
_df.pre = pre_day_frac
_df.on_path_start = mu_on
_df.no_bounded = True
_df.timeout_ms = 150000       # nonlinear real arithmetic of the scaled paths (spike: 13 s .. minutes)
_df.modular = False
CONTRACTS.append(_df)
