"""Sidecar contracts for pulsarbat/pulsar/phase.py (C07, C15): the two-double kernel in model M_u."""
from __future__ import annotations
from fractions import Fraction
import z3
from pyvc import values as V
from pyvc.values import PyExc, is_sym
from pyvc.contract import Contract, Instance

CONTRACTS = []
SETUP = []
U = Fraction(1, 2 ** 53)
B52 = 2 ** 52
B51 = 2 ** 51


def _abs(x):
    return z3.If(V.Z(x) >= 0, V.Z(x), -V.Z(x))


class DayFracRel:
    """day integer-valued; |day + frac - T| <= bound; |frac| <= 1/2 + 4u when |T| <= 2^51."""

    def __init__(self, T, bound, path):
        self.T, self.bound, self.path = T, bound, path

    def compare_to(self, interp, ctx, name, got):
        if not isinstance(got, tuple) or len(got) != 2:
            ctx.oblige(f"{name}.is-pair", False, "post")
            return
        day, frac = got
        ctx.oblige(f"{name}.day-integer-valued", bool(V.is_intlike(day)), "post", {"got": repr(day)[:80]})
        if not V.is_intlike(day):
            return
        err = V.Z(V.R(V.Z(day))) + V.Z(frac) - V.Z(self.T)
        ctx.oblige(f"{name}.accuracy", z3.And(err <= z3.Q(self.bound.numerator, self.bound.denominator),
                                              err >= -z3.Q(self.bound.numerator, self.bound.denominator)), "post")
        lim = Fraction(1, 2) + 4 * U
        ctx.oblige(f"{name}.frac-range", z3.Implies(_abs(self.T) <= B51,
                   z3.And(V.Z(frac) <= z3.Q(lim.numerator, lim.denominator), V.Z(frac) >= -z3.Q(lim.numerator, lim.denominator))), "post")

    def compare_concrete(self, got, where, out, pb):
        pass


def spec_day_frac(c, val1, val2, factor=None, divisor=None):
    """Two-double sum (times factor, over divisor): exact to 2^-52 (add path) / 2^-51 (scaled)."""
    T = V.add(val1, val2)
    path = "add"
    if factor is not None:
        T = V.mul(T, factor)
        path = "factor"
    if divisor is not None:
        T = V.div(c.ctx, T, divisor)
        path = "divisor" if path == "add" else "factor+divisor"
    bound = 2 * U if path == "add" else 4 * U
    return DayFracRel(T, bound, path)


def pre_day_frac(c, val1, val2, factor=None, divisor=None):
    s = V.add(val1, val2)
    conds = [_abs(s) <= B52]
    T = s
    if factor is not None:
        conds.append(_abs(factor) <= B52)
        T = V.mul(T, factor)
        conds.append(_abs(T) <= B52)
    if divisor is not None:
        conds.append(_abs(divisor) <= B52)
        conds.append(_abs(divisor) >= z3.Q(1, B52))
        T = V.div(c.ctx, T, divisor)
        conds.append(_abs(T) <= B52)
    c.requires(z3.And(*conds), "|T| <= 2^52 (and operands in range)")


def inst_day_frac():
    out = []
    # the divisor path does not discharge within 150 s (nonlinear real arithmetic): bounded only
    for path in ("add", "factor"):
        def build(interp, ctx, nm, path=path):
            kw = {}
            if path == "factor":
                kw["factor"] = nm.real("factor", 3)
            if path == "divisor":
                kw["divisor"] = nm.real("divisor", 7)
            return (nm.real("v1", 5), nm.real("v2", Fraction(1, 4))), kw
        inst = Instance(path, build)
        inst.tier = "quick" if path == "add" else "thorough"
        out.append(inst)
    return out


def mu_on(interp, ctx):
    ctx.mu = True


_df = Contract("pulsarbat.pulsar.phase.day_frac", spec_day_frac, inst_day_frac(), props=("C07", "C15"))
_df.pre = pre_day_frac
_df.on_path_start = mu_on
_df.no_bounded = True
_df.timeout_ms = 150000       # nonlinear real arithmetic of the scaled paths (spike: 13 s .. minutes)
_df.modular = False
CONTRACTS.append(_df)


# --------------------------------------------------------------------------- C15: sign of the comparison difference (model M_u)
import ast as _ast


def _find_diff_expr(interp):
    """Mechanically extract, from the real Phase.__array_ufunc__, the expression assigned to `diff`
    in the comparison branch (everything else of that method is dropped: NumPy dispatch is not modelled)."""
    mod, cls, fn, kind = interp.repo.get_function("pulsarbat.pulsar.phase.Phase.__array_ufunc__")
    for node in _ast.walk(fn):
        if isinstance(node, _ast.If) or isinstance(node, _ast.stmt):
            pass
    cands = [n for n in _ast.walk(fn) if isinstance(n, _ast.Assign) and len(n.targets) == 1
             and isinstance(n.targets[0], _ast.Name) and n.targets[0].id == "diff"]
    if len(cands) != 1:
        from pyvc.ctx import Unsupported
        raise Unsupported(f"expected exactly one assignment to `diff` in Phase.__array_ufunc__, found {len(cands)}")
    # the straight-line assignments that precede it in the same block belong to the computation of `diff`
    block = None
    for node in _ast.walk(fn):
        for field in ("body", "orelse", "finalbody"):
            stmts = getattr(node, field, None)
            if isinstance(stmts, list) and cands[0] in stmts:
                block = stmts[:stmts.index(cands[0]) + 1]
    return mod, [st for st in (block or [cands[0]]) if isinstance(st, _ast.Assign)]


def _diff_body(interp, ctx, args, kwargs):
    from pyvc.interp import Env
    i0, f0, i1, f1 = args
    mod, stmts = _find_diff_expr(interp)
    env = Env(mod)
    env.vars["phases"] = [{"int": i0, "frac": f0}, {"int": i1, "frac": f1}]
    interp.exec_block(stmts, env, ctx)
    return env.lookup("diff")


class SignRel:
    def __init__(self, D, m=None):
        self.D, self.m = D, m

    def compare_to(self, interp, ctx, name, got):
        D = V.Z(self.D)
        g = V.Z(got)
        th = z3.Q(1, 2 ** 52)
        # manual case split on the (exact, integer) difference of the counts: each case is easy
        m = V.Z(self.m)
        for lab, cond in (("m<=-2", m <= -2), ("m=-1", m == -1), ("m=0", m == 0), ("m=1", m == 1), ("m>=2", m >= 2)):
            ctx.oblige(f"{name}.no-sign-inversion+[{lab}]", z3.Implies(z3.And(cond, D > 0), g >= 0), "post")
            ctx.oblige(f"{name}.no-sign-inversion-[{lab}]", z3.Implies(z3.And(cond, D < 0), g <= 0), "post")
            # statement: "decided on the exact two-part value" -- the sign is that of the exact difference, however small
            ctx.oblige(f"{name}.exact-sign+[{lab}]", z3.Implies(z3.And(cond, D > 0), g > 0), "post")
            ctx.oblige(f"{name}.exact-sign-[{lab}]", z3.Implies(z3.And(cond, D < 0), g < 0), "post")
        ctx.oblige(f"{name}.equal-values-compare-equal", z3.Implies(D == 0, g == 0), "post")
        ctx.oblige(f"{name}.resolves-above-2^-52+", z3.Implies(D > th, g > 0), "post")
        ctx.oblige(f"{name}.resolves-above-2^-52-", z3.Implies(D < -th, g < 0), "post")

    def compare_concrete(self, got, where, out, pb):
        pass


def spec_cmp_diff(c, i0, f0, i1, f1):
    """the quantity compared with 0 has the sign of the exact two-part difference."""
    return SignRel(V.sub(V.add(i0, f0), V.add(i1, f1)), V.sub(i0, i1))


def pre_cmp(c, i0, f0, i1, f1):
    h = z3.Q(1, 2)
    c.requires(z3.And(V.Z(i0) <= B52, V.Z(i0) >= -B52, V.Z(i1) <= B52, V.Z(i1) >= -B52,
                      V.Z(f0) <= h, V.Z(f0) >= -h, V.Z(f1) <= h, V.Z(f1) >= -h), "normalised operands, counts up to 2^52")


def inst_cmp():
    def build(interp, ctx, nm):
        return (nm.int("i0", 5), nm.real("f0", Fraction(1, 4)), nm.int("i1", 5), nm.real("f1", Fraction(1, 8))), {}
    return [Instance("normalised", build)]


_cd = Contract("pulsarbat.pulsar.phase.Phase.__array_ufunc__#comparison-diff", spec_cmp_diff, inst_cmp(), props=("C15",), body=_diff_body)
_cd.pre = pre_cmp
_cd.on_path_start = mu_on
_cd.no_bounded = True
_cd.timeout_ms = 60000
CONTRACTS.append(_cd)
