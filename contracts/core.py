"""Sidecar contracts for pulsarbat/core.py.  Each spec is written from the property statements
(C01, C02, C13, C16, C17), not from the code."""
from __future__ import annotations
from fractions import Fraction
import z3
from pyvc import values as V
from pyvc import arrays as A
from pyvc.values import SArr, Qty, STime, PyExc, Cx, DType, SSlice, is_sym, Obj
from pyvc.contract import Contract, Instance, ASig
from pyvc.sigmodel import mk_signal, SIGNAL_CLASSES, CLASS_DTYPES, sym_array
from pyvc.speclib import (raise_any, qdiv, time_plus, clsinfo, construct, label, like_attrs, ALIGN_A)
from pyvc.stubs_lib import FREQ_DIM, TIME_DIM, TAU_T
from pyvc.interp import ClassRef

CONTRACTS = []
NO_THM = r"^(?!.*thm\.)"
# which components of a result belong to which property when a contract serves several
TIME_PARTS = r"(thm\.C01|\.data|sample_rate|start_time|\.type|raises|returns-normally|is-signal|frame)"
FREQ_PARTS = r"(thm\.C02|\.data|channel-labels|chan_bw|center_freq|freq_align|\.type|raises|returns-normally|is-signal)"
RADIO = ["RadioSignal", "IntensitySignal", "FullStokesSignal", "BasebandSignal", "DualPolarizationSignal"]
CTOR_PARAMS = {
    "Signal": ["sample_rate", "start_time", "meta"],
    "RadioSignal": ["sample_rate", "start_time", "center_freq", "chan_bw", "freq_align", "meta"],
    "IntensitySignal": ["sample_rate", "start_time", "center_freq", "chan_bw", "freq_align", "meta"],
    "FullStokesSignal": ["sample_rate", "start_time", "center_freq", "chan_bw", "freq_align", "meta"],
    "BasebandSignal": ["sample_rate", "start_time", "center_freq", "freq_align", "meta"],
    "DualPolarizationSignal": ["sample_rate", "start_time", "center_freq", "freq_align", "pol_type", "meta"],
}
REQUIRED = {"Signal": ["sample_rate"], "RadioSignal": ["sample_rate", "center_freq", "chan_bw"],
            "IntensitySignal": ["sample_rate", "center_freq", "chan_bw"],
            "FullStokesSignal": ["sample_rate", "center_freq", "chan_bw"],
            "BasebandSignal": ["sample_rate", "center_freq"],
            "DualPolarizationSignal": ["sample_rate", "center_freq", "pol_type"]}


def contract(qualname, instances, props=(), body=None):
    def deco(spec):
        CONTRACTS.append(Contract(qualname, spec, instances, props, doc=spec.__doc__ or "", body=body))
        return spec
    return deco


# --------------------------------------------------------------------------- slices as inputs

def sym_slice(nm, name, pattern):
    """pattern: 3 chars over {'n' (None), 's' (symbolic int)}."""
    parts = []
    for ch, part in zip(pattern, ("start", "stop", "step")):
        parts.append(None if ch == "n" else nm.int(f"{name}_{part}"))
    return SSlice(*parts)


TIME_PATTERNS = ["nnn", "snn", "nsn", "ssn", "nns", "sns", "nss", "sss"]
FREQ_PATTERNS = ["nnn", "ssn", "snn", "nsn", "sss"]


def time_slice_of(c, g, sl):
    """C01: (a, b, step) of a time slice, with the errors the statement allows."""
    if not isinstance(sl, SSlice):
        raise PyExc(("IndexError", "TypeError", "AttributeError"), "time index must be a slice")
    a, b, st = A.slice_adjust(c.ctx, sl, g.N)      # ValueError for step == 0
    c.raise_if(V.lt(st, 0), "AssertionError", "negative step")
    return a, b, st


def time_kw(c, g, a, st):
    kw = {}
    if c.branch(V.lt(1, st), "step > 1"):
        kw["sample_rate"] = qdiv(c, g.sr, st)
    if g.t0 is not None:
        kw["start_time"] = time_plus(c, g.t0, V.div(c.ctx, a, g.sr.val))
    return kw


# --------------------------------------------------------------------------- Signal._time_slice

def inst_time_slice():
    out = []
    for cls in ["Signal", "RadioSignal", "DualPolarizationSignal"]:
        for has_t0 in (True, False):
            for pat in TIME_PATTERNS:
                def build(interp, ctx, nm, cls=cls, has_t0=has_t0, pat=pat):
                    z = mk_signal(interp, ctx, "z", cls, has_t0=has_t0, nm=nm)
                    return (z, sym_slice(nm, "ix", pat)), {}
                out.append(Instance(f"{cls},t0={int(has_t0)},slice={pat}", build))
    return out


@contract("pulsarbat.core.Signal._time_slice", inst_time_slice(), props=("C01",))
def spec_time_slice(c, self, index):
    """start_time advances by (first retained index)/sample_rate; sample_rate divided by step;
    a signal without start time never acquires one; no other key."""
    g = c.view(self)
    a, b, st = time_slice_of(c, g, index)
    return time_kw(c, g, a, st)


# --------------------------------------------------------------------------- like()

def spec_like_core(c, cls, obj, z, kwargs):
    """C16: like(cls, obj, z, **kw) constructs cls with every constructor attribute taken from
    kw when given, else from obj (ValueError when a required one is missing on obj)."""
    g = c.view(obj)
    have = g.attrs()
    params = CTOR_PARAMS[cls.name]
    attrs = {}
    for k in kwargs:
        if k not in params:
            raise PyExc("TypeError", f"unexpected keyword {k}")
    for p in params:
        if p in kwargs:
            attrs[p] = kwargs[p]
        elif p in have:
            attrs[p] = have[p]
        elif p in REQUIRED[cls.name]:
            raise PyExc("ValueError", f"missing required keyword argument {p}")
    data = g.data if z is None else z
    return construct(c, cls, data, attrs)


def inst_like():
    out = []
    pairs = [(a, b) for a in SIGNAL_CLASSES for b in SIGNAL_CLASSES]
    for tgt, src in pairs:
        for variant in ("plain", "override"):
            def build(interp, ctx, nm, tgt=tgt, src=src, variant=variant):
                obj = mk_signal(interp, ctx, "o", src, extra_rank=1, has_meta=True, nm=nm)
                g = obj.ghost
                # data of the target's default dtype with the same shape as obj (may violate tgt's shape contract)
                from pyvc.sigmodel import DEFAULT_DTYPE
                z = sym_array("znew", g["data"].shape, DEFAULT_DTYPE[tgt], nm=nm)
                kw = {}
                if variant == "override":
                    ksr = nm.real("kw_sr", 7)
                    kw["sample_rate"] = Qty(ksr, FREQ_DIM, interp.stubs.units["Hz"])
                    ctx.assume(V.lt(0, ksr), why="input")
                    kw["start_time"] = None
                return (ClassRef(interp.repo.get_class(f"pulsarbat.core.{tgt}")), obj, z), kw
            out.append(Instance(f"{tgt}.like({src}),{variant}", build))
    # z omitted: data taken from obj
    for src in SIGNAL_CLASSES:
        def build(interp, ctx, nm, src=src):
            obj = mk_signal(interp, ctx, "o", src, nm=nm)
            return (ClassRef(obj.cls), obj), {}
        out.append(Instance(f"{src}.like({src}),z=None", build))
    return out


@contract("pulsarbat.core.Signal.like", inst_like(), props=("C16",))
def spec_like(c, cls, obj, z=None, **kwargs):
    if not isinstance(cls, ClassRef):
        raise PyExc("TypeError", "cls")
    return spec_like_core(c, cls.ci, obj, z, kwargs)


# --------------------------------------------------------------------------- __getitem__

def inst_getitem(classes, with_freq):
    out = []
    for cls in classes:
        for has_t0 in (True, False):
            for pat in TIME_PATTERNS:
                def build(interp, ctx, nm, cls=cls, has_t0=has_t0, pat=pat):
                    z = mk_signal(interp, ctx, "z", cls, has_t0=has_t0, extra_rank=1, nm=nm)
                    return (z, sym_slice(nm, "ix", pat)), {}
                out.append(Instance(f"{cls},t0={int(has_t0)},[{pat}]", build))
        # tuple forms
        for pat, fpat in ([("sss", f) for f in FREQ_PATTERNS] + [("nnn", "ssn"), ("snn", "ssn")]):
            def build(interp, ctx, nm, cls=cls, pat=pat, fpat=fpat):
                z = mk_signal(interp, ctx, "z", cls, extra_rank=1, align="bottom", nm=nm)
                return (z, (sym_slice(nm, "ix", pat), sym_slice(nm, "fx", fpat))), {}
            out.append(Instance(f"{cls},[{pat},{fpat}]", build))
        for align in ("top", "center"):
            def build(interp, ctx, nm, cls=cls, align=align):
                z = mk_signal(interp, ctx, "z", cls, extra_rank=1, align=align, has_t0=False, nm=nm)
                return (z, (sym_slice(nm, "ix", "ssn"), sym_slice(nm, "fx", "ssn"), sym_slice(nm, "gx", "ssn"))), {}
            out.append(Instance(f"{cls},align={align},[ssn,ssn,ssn]", build))
        def build(interp, ctx, nm, cls=cls):
            z = mk_signal(interp, ctx, "z", cls, extra_rank=1, nm=nm)
            return (z, (sym_slice(nm, "ix", "ssn"),)), {}
        out.append(Instance(f"{cls},[(ssn,)]", build))
        def build(interp, ctx, nm, cls=cls):
            z = mk_signal(interp, ctx, "z", cls, extra_rank=1, nm=nm)
            return (z, nm.int("k")), {}
        out.append(Instance(f"{cls},[int]", build))
    return out


def spec_getitem_common(c, self, index, freq_axis):
    g = c.view(self)
    idx = index if isinstance(index, tuple) else (index,)
    nsl = 2 if freq_axis else 1
    if not all(isinstance(a, SSlice) for a in idx[:nsl]):
        raise PyExc("IndexError", "only slices on time/frequency axes")
    if len(idx) == 0:
        raise PyExc("IndexError", "empty index tuple")
    a, b, st = time_slice_of(c, g, idx[0])
    over = time_kw(c, g, a, st)
    if freq_axis and len(idx) > 1:
        n = g.nchan
        fa, fb, fst = A.slice_adjust(c.ctx, idx[1], n)
        raise_any(c, [(V.ne(fst, 1), "AssertionError"), (V.le(fb, fa), "AssertionError")])
        # C02: labels of the selected channels are kept: new centre is the mean of the first
        # and last selected label and the alignment becomes 'center'
        f0 = label(c, g, fa)
        f1 = label(c, g, V.sub(fb, 1))
        over["center_freq"] = Qty(V.div(c.ctx, V.add(f0, f1), 2), FREQ_DIM, g.cf.unit)
        over["freq_align"] = "center"
    data = A.getitem(c.ctx, g.data, idx)
    return construct(c, g.cls, data, like_attrs(g, **over))


@contract("pulsarbat.core.Signal.__getitem__", inst_getitem(["Signal"], False), props={"C01": TIME_PARTS, "C16": NO_THM})
def spec_signal_getitem(c, self, index):
    return spec_getitem_common(c, self, index, False)


@contract("pulsarbat.core.RadioSignal.__getitem__",
          inst_getitem(["RadioSignal", "IntensitySignal", "BasebandSignal", "DualPolarizationSignal", "FullStokesSignal"], True),
          props={"C01": TIME_PARTS, "C02": FREQ_PARTS, "C16": NO_THM})
def spec_radio_getitem(c, self, index):
    return spec_getitem_common(c, self, index, True)


# --------------------------------------------------------------------------- constructors (C16)

def valid_kwargs(interp, ctx, nm, cls, prefix="k"):
    U = interp.stubs.units
    kw = {"sample_rate": Qty(nm.real(f"{prefix}_sr", 1000), FREQ_DIM, U["Hz"])}
    names = CTOR_PARAMS[cls]
    if "center_freq" in names:
        kw["center_freq"] = Qty(nm.real(f"{prefix}_cf", 10 ** 9), FREQ_DIM, U["MHz"])
    if "chan_bw" in names:
        kw["chan_bw"] = Qty(nm.real(f"{prefix}_bw", 500), FREQ_DIM, U["kHz"])
    if "pol_type" in names:
        kw["pol_type"] = "circular"
    return kw


PERTURB = {
    "none": lambda kw, nm, U: None,
    "sr_wrong_unit": lambda kw, nm, U: kw.update(sample_rate=Qty(nm.real("p_x", 3), TIME_DIM, U["s"])),
    "sr_number": lambda kw, nm, U: kw.update(sample_rate=nm.real("p_x", 3)),
    "sr_none": lambda kw, nm, U: kw.update(sample_rate=None),
    "sr_array": lambda kw, nm, U: kw.update(sample_rate=Qty(sym_array("p_arr", (2,), "float64", nm=nm), FREQ_DIM, U["Hz"])),
    "t0_time": lambda kw, nm, U: kw.update(start_time=STime(nm.real("p_t0", 77), "mjd", 3)),
    "t0_number": lambda kw, nm, U: kw.update(start_time=nm.real("p_x", 59000)),
    "t0_array": lambda kw, nm, U: kw.update(start_time=STime(sym_array("p_tarr", (2,), "float64", nm=nm))),
    "t0_array1": lambda kw, nm, U: kw.update(start_time=STime(sym_array("p_tarr1", (1,), "float64", nm=nm))),   # one element is still not a scalar
    "t0_quantity": lambda kw, nm, U: kw.update(start_time=Qty(nm.real("p_x", 3), TIME_DIM, U["s"])),
    "meta_dict": lambda kw, nm, U: kw.update(meta={"a": 1, "b": "x"}),
    "meta_pairs": lambda kw, nm, U: kw.update(meta=[("a", 1)]),
    "meta_int": lambda kw, nm, U: kw.update(meta=5),
    "cf_wrong_unit": lambda kw, nm, U: kw.update(center_freq=Qty(nm.real("p_x", 3), TIME_DIM, U["s"])),
    "cf_number": lambda kw, nm, U: kw.update(center_freq=nm.real("p_x", 3)),
    "cf_array": lambda kw, nm, U: kw.update(center_freq=Qty(sym_array("p_arr", (2,), "float64", nm=nm), FREQ_DIM, U["Hz"])),
    "bw_wrong_unit": lambda kw, nm, U: kw.update(chan_bw=Qty(nm.real("p_x", 3), (), U["one"])),
    "bw_number": lambda kw, nm, U: kw.update(chan_bw=nm.real("p_x", 3)),
    "align_bottom": lambda kw, nm, U: kw.update(freq_align="bottom"),
    "align_top": lambda kw, nm, U: kw.update(freq_align="top"),
    "align_bogus": lambda kw, nm, U: kw.update(freq_align="middle"),
    "align_none": lambda kw, nm, U: kw.update(freq_align=None),
    "pol_linear": lambda kw, nm, U: kw.update(pol_type="linear"),
    "pol_bogus": lambda kw, nm, U: kw.update(pol_type="elliptical"),
    "pol_missing": lambda kw, nm, U: kw.pop("pol_type"),
    "cf_missing": lambda kw, nm, U: kw.pop("center_freq"),
    "sr_missing": lambda kw, nm, U: kw.pop("sample_rate"),
    "extra_kw": lambda kw, nm, U: kw.update(bogus_keyword=1),
}
PERTURB_NEEDS = {"cf": "center_freq", "bw": "chan_bw", "align": "freq_align", "pol": "pol_type"}
DATA_VARIANTS = {
    # name: (rank delta relative to required rank, dtype or None=class default, fixed-axis override)
    "ok": (0, None, None), "extra_dim": (1, None, None), "too_few_dims": (-1, None, None),
    "bad_fixed_axis": (0, None, 3), "int64": (0, "int64", None), "bool": (0, "bool", None),
    "float32": (0, "float32", None), "float64": (0, "float64", None), "complex64": (0, "complex64", None),
    "complex128": (0, "complex128", None),
}


def inst_ctor(cls):
    from pyvc.sigmodel import REQ_RANK, FIXED_AX, DEFAULT_DTYPE
    out = []
    names = CTOR_PARAMS[cls]

    def mk(dv, pv, backend="numpy"):
        def build(interp, ctx, nm, dv=dv, pv=pv, backend=backend):
            delta, dt, fixed = DATA_VARIANTS[dv]
            rank = REQ_RANK[cls] + delta
            shape = []
            for ax in range(rank):
                fx = FIXED_AX.get(cls, {}).get(ax)
                if fx is not None:
                    shape.append(fixed if fixed is not None else fx)
                else:
                    d = nm.int("d_N" if ax == 0 else f"d_S{ax}")
                    ctx.assume(V.le(0, d), why="input: dims are non-negative")
                    shape.append(d)
            data = sym_array("d_data", shape, dt or DEFAULT_DTYPE[cls], backend, nm=nm)
            kw = valid_kwargs(interp, ctx, nm, cls)
            PERTURB[pv](kw, nm, interp.stubs.units)
            return (ClassRef(interp.repo.get_class(f"pulsarbat.core.{cls}")), data), kw
        return Instance(f"{cls},data={dv},{pv},{backend}", build)
    for dv in DATA_VARIANTS:
        if dv == "bad_fixed_axis" and cls not in ("FullStokesSignal", "DualPolarizationSignal"):
            continue
        out.append(mk(dv, "none"))
    out.append(mk("ok", "none", "dask"))
    # Dask data that needs the dtype coercion of the constructor: the cast must stay lazy (C09)
    for dv in ("float32", "float64", "int64"):
        out.append(mk(dv, "none", "dask"))
    for pv in PERTURB:
        if pv == "none":
            continue
        need = PERTURB_NEEDS.get(pv.split("_")[0])
        if need and need not in names:
            continue
        out.append(mk("ok", pv))
    return out


def ctor_body(interp, ctx, args, kwargs):
    return interp.instantiate(args[0].ci, args[1:], kwargs, ctx)


def ctor_real(pb, rargs, rkwargs):
    return rargs[0](*rargs[1:], **rkwargs)


def spec_ctor(c, cls, z, **kwargs):
    """C16: the class contract at construction."""
    params = CTOR_PARAMS[cls.ci.name]
    for k in kwargs:
        if k not in params:
            raise PyExc("TypeError", f"unexpected keyword {k}")
    for k in REQUIRED[cls.ci.name]:
        if k not in kwargs:
            raise PyExc("TypeError", f"missing keyword {k}")
    attrs = dict(kwargs)
    m = attrs.get("meta")
    if m is not None:
        if isinstance(m, dict):
            attrs["meta"] = dict(m)
        elif isinstance(m, (list, tuple)) and all(isinstance(p, tuple) and len(p) == 2 for p in m):
            attrs["meta"] = dict(m)
        else:
            raise PyExc("ValueError", "meta must be a dict")
    return construct(c, cls.ci, z, attrs)


for _cls in SIGNAL_CLASSES:
    _c = Contract(f"pulsarbat.core.{_cls}.__init__", spec_ctor, inst_ctor(_cls), props=("C16", "C09"), body=ctor_body)
    _c.real_call = ctor_real
    CONTRACTS.append(_c)


# --------------------------------------------------------------------------- time properties (C01)

class Rel:
    """Relational postcondition: result constrained, not determined."""

    def __init__(self, sym, conc=None):
        self.sym, self.conc = sym, conc

    def compare_to(self, interp, ctx, name, got):
        self.sym(interp, ctx, name, got)

    def compare_concrete(self, got, where, out, pb):
        if self.conc is not None:
            self.conc(got, where, out, pb)


def inst_sig(classes, t0s=(True, False), **kw):
    out = []
    for cls in classes:
        for has_t0 in t0s:
            def build(interp, ctx, nm, cls=cls, has_t0=has_t0):
                return (mk_signal(interp, ctx, "z", cls, has_t0=has_t0, nm=nm, **kw),), {}
            out.append(Instance(f"{cls},t0={int(has_t0)}", build))
    return out


@contract("pulsarbat.core.Signal.time_length", inst_sig(["Signal", "BasebandSignal"], (True,)), props=("C01",))
def spec_time_length(c, self):
    g = c.view(self)
    return Qty(V.div(c.ctx, g.N, g.sr.val), TIME_DIM)


@contract("pulsarbat.core.Signal.dt", inst_sig(["Signal", "IntensitySignal"], (True,)), props=("C01",))
def spec_dt(c, self):
    g = c.view(self)
    return Qty(V.div(c.ctx, 1, g.sr.val), TIME_DIM)


@contract("pulsarbat.core.Signal.stop_time", inst_sig(["Signal", "DualPolarizationSignal"]), props=("C01",))
def spec_stop_time(c, self):
    """stop_time = start_time + length/sample_rate; None without a start time."""
    g = c.view(self)
    if g.t0 is None:
        return None
    return time_plus(c, g.t0, V.div(c.ctx, g.N, g.sr.val))


@contract("pulsarbat.core.Signal.__len__", inst_sig(SIGNAL_CLASSES, (True,)), props=("C01", "C17"))
def spec_len(c, self):
    return c.view(self).N


def inst_contains():
    out = []
    for cls in ["Signal", "RadioSignal"]:
        for has_t0 in (True, False):
            for tkind in ("scalar", "array"):
                def build(interp, ctx, nm, cls=cls, has_t0=has_t0, tkind=tkind):
                    z = mk_signal(interp, ctx, "z", cls, has_t0=has_t0, nm=nm)
                    if tkind == "scalar":
                        t = STime(nm.real("t"))
                    else:
                        m = nm.int("t_S0", 3)
                        ctx.assume(V.le(0, m), why="input")
                        t = STime(sym_array("t_arr", (m,), "float64", nm=nm))
                    return (z, t), {}
                out.append(Instance(f"{cls},t0={int(has_t0)},t={tkind}", build))
    return out


def spec_contains(c, self, t):
    """Membership agrees with the half-open interval [start, stop) up to the resolution tau at
    which Time can tell two instants apart; never true without a start time."""
    g = c.view(self)
    ctx = c.ctx
    t1 = None if g.t0 is None else V.add(g.t0.sec, V.div(ctx, g.N, g.sr.val))

    def clause(res, ts, ctx2, name):
        if g.t0 is None:
            ctx2.oblige(f"{name}.false-without-start", V.Not(res), "post")
            return
        inside = V.And(V.le(g.t0.sec, ts), V.lt(ts, t1))
        ctx2.oblige(f"{name}.implies-inside", V.Implies(res, inside), "post")
        ctx2.oblige(f"{name}.inside-away-from-stop", V.Implies(V.And(inside, V.lt(ts, V.sub(t1, TAU_T))), res), "post")
        ctx2.oblige(f"{name}.inside-near-start", V.Implies(V.And(inside, V.le(V.sub(ts, g.t0.sec), TAU_T)), res), "post")

    def sym(interp, ctx2, name, got):
        if isinstance(t.sec, SArr):
            if not isinstance(got, SArr):
                ctx2.oblige(f"{name}.is-array", False, "post")
                return
            ctx2.oblige(f"{name}.shape", V.And(*[V.eq(a, b) for a, b in zip(got.shape, t.sec.shape)]) if got.ndim == t.sec.ndim else False, "post")
            ctx2.oblige(f"{name}.dtype", got.dtype.kind == "b", "post")
            with ctx2.scope():
                ix = A.fresh_index(ctx2, t.sec.shape, "t")
                clause(got.elem(ix), t.sec.elem(ix), ctx2, name + ".elem")
        else:
            if isinstance(got, SArr):
                ctx2.oblige(f"{name}.is-scalar", False, "post")
                return
            clause(got, t.sec, ctx2, name)

    def conc(got, where, out, pb):
        from pyvc.concrete import Mismatch, materialize
        import numpy as np
        tol = float(TAU_T) * 4

        def one(r, ts, w):
            if g.t0 is None:
                if r:
                    out.append(Mismatch(w + ".false-without-start", r, False))
                return
            lo, hi = float(g.t0.sec), float(t1)
            ts = float(ts)
            if r and not (lo - tol <= ts < hi + tol):
                out.append(Mismatch(w + ".implies-inside", r, False))
            if not r and (lo + tol <= ts < hi - tol):
                out.append(Mismatch(w + ".inside", r, True))
        if isinstance(t.sec, SArr):
            if not isinstance(got, SArr) or tuple(got.shape) != tuple(int(d) for d in t.sec.shape):
                out.append(Mismatch(where + ".shape", getattr(got, "shape", None), t.sec.shape))
                return
            for k in range(int(t.sec.shape[0])):
                one(bool(got.elem((k,))), t.sec.elem((k,)), f"{where}[{k}]")
        else:
            one(bool(got), t.sec, where)
    return Rel(sym, conc)


_cc = Contract("pulsarbat.core.Signal.contains", spec_contains, inst_contains(), props=("C01",))
_cc.modular = False
CONTRACTS.append(_cc)


# --------------------------------------------------------------------------- frequency labels (C02)

def inst_radio(aligns=("bottom", "center", "top"), classes=RADIO, **kw):
    out = []
    for cls in classes:
        for al in aligns:
            def build(interp, ctx, nm, cls=cls, al=al):
                return (mk_signal(interp, ctx, "z", cls, align=al, nm=nm, **kw),), {}
            out.append(Instance(f"{cls},align={al}", build))
    return out


@contract("pulsarbat.core.RadioSignal.channel_freqs", inst_radio(), props=("C02",))
def spec_channel_freqs(c, self):
    """Channel i is labelled center_freq + chan_bw*(i + a - nchan/2), a = 0, 1/2, 1 (forced to
    1/2 when the channel count is odd)."""
    g = c.view(self)
    arr = SArr((g.nchan,), lambda ix: label(c, g, ix[0]), "float64")
    return Qty(arr, FREQ_DIM)


@contract("pulsarbat.core.RadioSignal.bandwidth", inst_radio(("center",)), props=("C02",))
def spec_bandwidth(c, self):
    g = c.view(self)
    return Qty(V.mul(g.bw.val, g.nchan), FREQ_DIM)


@contract("pulsarbat.core.RadioSignal.max_freq", inst_radio(("bottom",)), props=("C02",))
def spec_max_freq(c, self):
    g = c.view(self)
    return Qty(V.add(g.cf.val, V.div(c.ctx, V.mul(g.bw.val, g.nchan), 2)), FREQ_DIM)


@contract("pulsarbat.core.RadioSignal.min_freq", inst_radio(("top",)), props=("C02",))
def spec_min_freq(c, self):
    g = c.view(self)
    return Qty(V.sub(g.cf.val, V.div(c.ctx, V.mul(g.bw.val, g.nchan), 2)), FREQ_DIM)


@contract("pulsarbat.core.RadioSignal.nchan", inst_radio(("center",)), props=("C02",))
def spec_nchan(c, self):
    return c.view(self).nchan


def inst_freq_slice():
    out = []
    for cls in ["RadioSignal", "BasebandSignal", "FullStokesSignal"]:
        for al in ("bottom", "center", "top"):
            for pat in FREQ_PATTERNS:
                def build(interp, ctx, nm, cls=cls, al=al, pat=pat):
                    z = mk_signal(interp, ctx, "z", cls, align=al, nm=nm)
                    return (z, sym_slice(nm, "fx", pat)), {}
                out.append(Instance(f"{cls},align={al},slice={pat}", build))
    return out


class BandOf:
    """Result of _freq_slice compared through the labels it induces (representation-free)."""

    def __init__(self, c, g, fa, fb):
        self.c, self.g, self.fa, self.fb = c, g, fa, fb

    def compare_to(self, interp, ctx, name, got):
        if not isinstance(got, dict):
            ctx.oblige(f"{name}.is-dict", False, "post")
            return
        ctx.oblige(f"{name}.keys", set(got) <= {"center_freq", "freq_align"} and "center_freq" in got, "post", {"got": sorted(got)})
        if "center_freq" not in got or not isinstance(got["center_freq"], Qty):
            return
        al = got.get("freq_align", self.g.align)
        if not isinstance(al, str) or al not in ALIGN_A:
            ctx.oblige(f"{name}.freq_align", False, "post")
            return
        n2 = V.sub(self.fb, self.fa)
        with ctx.scope():
            i = ctx.fresh("chan", "int")
            ctx.assume(z3.And(i >= 0, V.Z(i) < V.Z(n2)), why="skolem-channel")
            # effective alignment of the sliced signal: 'center' when its channel count is odd
            odd = V.eq(V.mod_int(ctx, n2, 2), 1)
            a_eff = V.Ite(odd, Fraction(1, 2), ALIGN_A[al])
            newlab = V.add(got["center_freq"].val, V.mul(self.g.bw.val, V.sub(V.add(V.R(i), a_eff), V.div(ctx, n2, 2))))
            ctx.oblige(f"{name}.channel-labels", V.eq(newlab, label(self.c, self.g, V.add(self.fa, i))), "post")

    def compare_concrete(self, got, where, out, pb):
        from pyvc.concrete import Mismatch
        if not isinstance(got, dict) or "center_freq" not in got:
            out.append(Mismatch(where + ".keys", got, "center_freq"))
            return
        al = got.get("freq_align", self.g.align)
        n2 = int(self.fb - self.fa)
        a_eff = Fraction(1, 2) if n2 % 2 else ALIGN_A[al]
        for i in range(n2):
            new = float(got["center_freq"].val) + float(self.g.bw.val) * (i + float(a_eff) - n2 / 2)
            w = float(label(self.c, self.g, self.fa + i))
            if abs(new - w) > 1e-15 * 8 * max(abs(w), abs(float(self.g.bw.val)) * n2):
                out.append(Mismatch(f"{where}.channel-labels[{i}]", new, w))
                return


_fs = Contract("pulsarbat.core.RadioSignal._freq_slice", None, inst_freq_slice(), props=("C02",))


def spec_freq_slice(c, self, index):
    """Selecting channels a:b (step 1, non-empty) keeps the labels of the selected channels."""
    g = c.view(self)
    if not isinstance(index, SSlice):
        raise PyExc(("AttributeError", "TypeError"), "slice expected")
    fa, fb, fst = A.slice_adjust(c.ctx, index, g.nchan)
    raise_any(c, [(V.ne(fst, 1), "AssertionError"), (V.le(fb, fa), "AssertionError")])
    return BandOf(c, g, fa, fb)


_fs.spec = spec_freq_slice
_fs.modular = False
CONTRACTS.append(_fs)


# FullStokes component access
def inst_stokes_key():
    out = []
    for key in ("I", "Q", "U", "V", "X"):
        for al in ("bottom", "center"):
            def build(interp, ctx, nm, key=key, al=al):
                z = mk_signal(interp, ctx, "z", "FullStokesSignal", align=al, extra_rank=1, nm=nm)
                return (z, key), {}
            out.append(Instance(f"key={key},align={al}", build))
    def build(interp, ctx, nm):
        z = mk_signal(interp, ctx, "z", "FullStokesSignal", align="top", nm=nm)
        return (z, (sym_slice(nm, "ix", "ssn"), sym_slice(nm, "fx", "ssn"))), {}
    out.append(Instance("slices", build))
    return out


STOKES_IDS = {"I": 0, "Q": 1, "U": 2, "V": 3}


@contract("pulsarbat.core.FullStokesSignal.__getitem__", inst_stokes_key(), props={"C02": None, "C13": None, "C16": None})
def spec_stokes_getitem(c, self, key):
    """x['Q'] is component 1 of the Stokes axis as an IntensitySignal with identical time and
    frequency labels; other keys raise KeyError; non-string keys slice like any radio signal."""
    g = c.view(self)
    if isinstance(key, str):
        if key not in STOKES_IDS:
            raise PyExc("KeyError", key)
        data = A.take(c.ctx, g.data, STOKES_IDS[key], 2)
        return construct(c, clsinfo(c, "IntensitySignal"), data, g.attrs())
    return spec_getitem_common(c, self, key, True)


def inst_stokes_prop():
    def build(interp, ctx, nm):
        return (mk_signal(interp, ctx, "z", "FullStokesSignal", align="bottom", nm=nm),), {}
    return [Instance("FullStokesSignal", build)]


for _name in "IQUV":
    def _spec(c, self, _name=_name):
        return spec_stokes_getitem(c, self, _name)
    CONTRACTS.append(Contract(f"pulsarbat.core.FullStokesSignal.stokes{_name}", _spec, inst_stokes_prop(), props=("C02", "C13")))


# --------------------------------------------------------------------------- property-level theorems on slicing

def getitem_theorems(c, result, self, index):
    """C01.a / C02.a stated directly on what the real __getitem__ returned."""
    ctx = c.ctx
    g = c.view(self)
    if not isinstance(result, Obj):
        return
    r = c.view(result)
    idx = index if isinstance(index, tuple) else (index,)
    a, b, st = A.slice_adjust(ctx, idx[0], g.N)
    L = r.N
    # C01.a: output sample k carries the time of input sample a + k*st; stop = start + len/sr
    if g.t0 is None:
        ctx.oblige("thm.C01.no-start-acquired", r.t0 is None, "post")
    elif r.t0 is None:
        ctx.oblige("thm.C01.start-kept", False, "post")
    else:
        def sample_time(k):
            t_out = V.add(r.t0.sec, V.div(ctx, k, r.sr.val))
            t_in = V.add(g.t0.sec, V.div(ctx, V.add(a, V.mul(k, st)), g.sr.val))
            ctx.oblige("thm.C01.sample-time", V.eq(t_out, t_in), "post")
        c.forall_int("k", 0, L, sample_time)
        stop = c.attr(result, "stop_time") if not hasattr(result, "_real") else None
        if stop is not None:
            ctx.oblige("thm.C01.stop-time", V.eq(stop.sec, V.add(r.t0.sec, V.div(ctx, L, r.sr.val))) if isinstance(stop, STime) else False, "post")
    ctx.oblige("thm.C01.rate-divided", V.eq(V.mul(r.sr.val, st), g.sr.val), "post")
    # C02.a: labels of the selected channels survive
    if g.is_a("RadioSignal"):
        fa = 0
        if len(idx) > 1 and isinstance(idx[1], SSlice):
            fa, fb, fst = A.slice_adjust(ctx, idx[1], g.nchan)
        # a stepped time slice of a *baseband* signal rescales chan_bw (= sample_rate): named apart
        stepped_bb = g.is_a("BasebandSignal") and ctx.branch(V.lt(1, st), "spec:baseband stepped")
        name = "thm.C02.labels-survive" + (".baseband-stepped" if stepped_bb else "")
        c.forall_int("chan", 0, r.nchan, lambda i: ctx.oblige(name, V.eq(label(c, r, i), label(c, g, V.add(fa, i))), "post"))


for _c in CONTRACTS:
    if _c.qualname in ("pulsarbat.core.Signal.__getitem__", "pulsarbat.core.RadioSignal.__getitem__"):
        _c.theorems = getitem_theorems


# --------------------------------------------------------------------------- polarisation (C13)

def inst_dualpol(pols=("linear", "circular"), dtypes=("complex128", "complex64"), backends=("numpy",), extra=(0, 1)):
    out = []
    for pol in pols:
        for dt in dtypes:
            for be in backends:
                for ex in extra:
                    def build(interp, ctx, nm, pol=pol, dt=dt, be=be, ex=ex):
                        return (mk_signal(interp, ctx, "z", "DualPolarizationSignal", pol=pol, dtype=dt, backend=be,
                                          extra_rank=ex, align="bottom", nm=nm),), {}
                    out.append(Instance(f"pol={pol},{dt},{be},extra={ex}", build))
    return out


def _pol_pair(c, g):
    A0 = A.take(c.ctx, g.data, 0, 2)
    A1 = A.take(c.ctx, g.data, 1, 2)
    return A0, A1


def _cx_dtype_after_norm(dt):
    # (complex array) / np.sqrt(2): the NumPy float64 scalar promotes complex64 to complex128
    return DType("complex128")


def spec_to_circular(c, self):
    """L = (X - iY)/sqrt2, R = (X + iY)/sqrt2; identity when already circular."""
    g = c.view(self)
    if g.pol == "circular":
        return construct(c, g.cls, g.data, like_attrs(g, pol_type="circular"))
    X, Y = _pol_pair(c, g)
    I = Cx(0, 1)
    h = V.HSQRT2
    Lc = A.elementwise(c.ctx, lambda x, y: V.cmul(V.csub(x, V.cmul(I, y)), h), [X, Y], _cx_dtype_after_norm(g.data.dtype))
    Rc = A.elementwise(c.ctx, lambda x, y: V.cmul(V.cadd(x, V.cmul(I, y)), h), [X, Y], _cx_dtype_after_norm(g.data.dtype))
    return construct(c, g.cls, A.stack(c.ctx, [Lc, Rc], 2), like_attrs(g, pol_type="circular"))


def spec_to_linear(c, self):
    """Inverse of to_circular: X = (L + R)/sqrt2, Y = i(L - R)/sqrt2; identity when linear."""
    g = c.view(self)
    if g.pol == "linear":
        return construct(c, g.cls, g.data, like_attrs(g, pol_type="linear"))
    Lc, Rc = _pol_pair(c, g)
    I = Cx(0, 1)
    h = V.HSQRT2
    X = A.elementwise(c.ctx, lambda l, r: V.cmul(V.cadd(l, r), h), [Lc, Rc], _cx_dtype_after_norm(g.data.dtype))
    Y = A.elementwise(c.ctx, lambda l, r: V.cmul(V.cmul(I, V.csub(l, r)), h), [Lc, Rc], _cx_dtype_after_norm(g.data.dtype))
    return construct(c, g.cls, A.stack(c.ctx, [X, Y], 2), like_attrs(g, pol_type="linear"))


def _linear_pair(c, g):
    """(X, Y) element functions of a dual-pol signal in either basis (statement's definition)."""
    P0, P1 = _pol_pair(c, g)
    if g.pol == "linear":
        return P0, P1
    I = Cx(0, 1)
    h = V.HSQRT2
    X = A.elementwise(c.ctx, lambda l, r: V.cmul(V.cadd(l, r), h), [P0, P1], "complex128")
    Y = A.elementwise(c.ctx, lambda l, r: V.cmul(V.cmul(I, V.csub(l, r)), h), [P0, P1], "complex128")
    return X, Y


def spec_to_stokes(c, self):
    """I = |X|^2+|Y|^2, Q = |X|^2-|Y|^2, U = 2Re(X* Y), V = 2Im(X* Y) from the linear pair,
    whichever basis the signal is stored in."""
    g = c.view(self)
    X, Y = _linear_pair(c, g)
    rdt = DType("float32" if g.data.dtype.name == "complex64" else "float64")

    def m2(x):
        x = Cx.of(x)
        return V.add(V.mul(x.re, x.re), V.mul(x.im, x.im))
    Iv = A.elementwise(c.ctx, lambda x, y: V.add(m2(x), m2(y)), [X, Y], rdt)
    Qv = A.elementwise(c.ctx, lambda x, y: V.sub(m2(x), m2(y)), [X, Y], rdt)
    Uv = A.elementwise(c.ctx, lambda x, y: V.mul(2, V.cmul(V.cconj(x), y).re), [X, Y], rdt)
    Vv = A.elementwise(c.ctx, lambda x, y: V.mul(2, V.cmul(V.cconj(x), y).im), [X, Y], rdt)
    attrs = g.attrs()
    attrs.pop("pol_type")
    return construct(c, clsinfo(c, "FullStokesSignal"), A.stack(c.ctx, [Iv, Qv, Uv, Vv], 2), attrs)


def spec_to_intensity(c, self):
    g = c.view(self)
    rdt = DType("float32" if g.data.dtype.name == "complex64" else "float64")

    def m2(x):
        x = Cx.of(x)
        return V.add(V.mul(x.re, x.re), V.mul(x.im, x.im))
    attrs = g.attrs()
    attrs.pop("pol_type", None)
    return construct(c, clsinfo(c, "IntensitySignal"), A.elementwise(c.ctx, m2, [g.data], rdt), attrs)


CONTRACTS.append(Contract("pulsarbat.core.DualPolarizationSignal.to_circular", spec_to_circular, inst_dualpol(backends=("numpy", "dask")), props=("C13",)))
CONTRACTS.append(Contract("pulsarbat.core.DualPolarizationSignal.to_linear", spec_to_linear, inst_dualpol(backends=("numpy", "dask")), props=("C13",)))
CONTRACTS.append(Contract("pulsarbat.core.DualPolarizationSignal.to_stokes", spec_to_stokes, inst_dualpol(backends=("numpy", "dask")), props=("C13",)))


def inst_baseband_any():
    out = []
    for cls, kw in (("BasebandSignal", {}), ("DualPolarizationSignal", {"pol": "circular"})):
        for dt in ("complex128", "complex64"):
            for be in ("numpy", "dask"):
                def build(interp, ctx, nm, cls=cls, kw=kw, dt=dt, be=be):
                    return (mk_signal(interp, ctx, "z", cls, dtype=dt, backend=be, extra_rank=1, nm=nm, **kw),), {}
                out.append(Instance(f"{cls},{dt},{be}", build))
    return out


CONTRACTS.append(Contract("pulsarbat.core.BasebandSignal.to_intensity", spec_to_intensity, inst_baseband_any(), props=("C13",)))


# --------------------------------------------------------------------------- C13 lemmas over compositions of the real methods

def M(interp, ctx, obj, name, *args, **kwargs):
    """Call a method of an interpreter object through the real code / its contract."""
    return interp.call(interp.get_attr(obj, name, ctx), tuple(args), kwargs, ctx)


def lemma(name, body, spec, instances, props, real=None):
    ct = Contract(f"lemma.{name}", spec, instances, props=props, body=body)
    ct.real_call = real
    CONTRACTS.append(ct)
    return ct


def _m2(x):
    x = Cx.of(x)
    return V.add(V.mul(x.re, x.re), V.mul(x.im, x.im))


# round trips: each conversion is undone by the other
lemma("C13.roundtrip", lambda interp, ctx, a, k: M(interp, ctx, M(interp, ctx, a[0], "to_circular"), "to_linear")
      if a[0].ghost["pol"] == "linear" else M(interp, ctx, M(interp, ctx, a[0], "to_linear"), "to_circular"),
      lambda c, self: construct(c, c.view(self).cls, A.astype(c.ctx, c.view(self).data, DType("complex128")), c.view(self).attrs()),
      inst_dualpol(extra=(0,)), ("C13",),
      real=lambda pb, a, k: a[0].to_circular().to_linear() if a[0].pol_type == "linear" else a[0].to_linear().to_circular())


def _rel_elementwise(shape_of, clause, concrete_tol=1e-5):
    """Relational spec over every element index of `shape_of(result)`."""
    def mk(c, self):
        g = c.view(self)

        def sym(interp, ctx, name, got):
            clause(c, g, got, ctx, name, None)

        def conc(got, where, out, pb):
            from pyvc.concrete import ConcTheoremCtx, Mismatch
            cctx = ConcTheoremCtx()
            old = V.CONC_TOL
            V.CONC_TOL = concrete_tol
            try:
                clause(c, g, got, cctx, where, pb)
            finally:
                V.CONC_TOL = old
            out.extend(Mismatch(n, "violated on the real result", "holds") for n in cctx.failed)
        return Rel(sym, conc)
    return mk


def _view_any(c, v, pb):
    """SigView of an interpreter object or of a real signal."""
    if isinstance(v, Obj):
        return c.view(v)
    from pyvc.concrete import obj_from_real_signal
    return c.view(obj_from_real_signal(c.interp, v, pb))


def _forall_sample(c, ctx, shape, fn):
    from pyvc.contract import SpecCtx
    c2 = SpecCtx(c.interp, ctx, c.contract)
    if getattr(ctx, "enumerate_quantifiers", False):
        import itertools
        for ix in itertools.product(*[range(int(d)) for d in shape]):
            fn(ix)
        return
    with ctx.scope():
        fn(A.fresh_index(ctx, shape, "s"))


def clause_power(c, g, got, ctx, name, pb):
    """Total power per sample is preserved by a basis change."""
    r = _view_any(c, got, pb)
    P0, P1 = _pol_pair(c, g)
    Q0, Q1 = A.take(ctx, r.data, 0, 2), A.take(ctx, r.data, 1, 2)
    _forall_sample(c, ctx, P0.shape, lambda ix: ctx.oblige(f"{name}.power-preserved",
                   V.eq(V.add(_m2(Q0.elem(ix)), _m2(Q1.elem(ix))), V.add(_m2(P0.elem(ix)), _m2(P1.elem(ix)))), "post"))


lemma("C13.power", lambda interp, ctx, a, k: M(interp, ctx, a[0], "to_circular" if a[0].ghost["pol"] == "linear" else "to_linear"),
      _rel_elementwise(None, clause_power), inst_dualpol(extra=(0,)), ("C13",),
      real=lambda pb, a, k: a[0].to_circular() if a[0].pol_type == "linear" else a[0].to_linear())


def clause_stokes(c, g, got, ctx, name, pb):
    """I >= 0, I^2 = Q^2 + U^2 + V^2, and I equals to_intensity summed over polarisations."""
    r = _view_any(c, got, pb)
    S = [A.take(ctx, r.data, k, 2) for k in range(4)]
    P0, P1 = _pol_pair(c, g)

    def at(ix):
        i, q, u, v = (s.elem(ix) for s in S)
        ctx.oblige(f"{name}.I-nonnegative", V.le(0, i), "post")
        ctx.oblige(f"{name}.I2=Q2+U2+V2", V.eq(V.mul(i, i), V.add(V.add(V.mul(q, q), V.mul(u, u)), V.mul(v, v))), "post")
        ctx.oblige(f"{name}.I=sum-intensity", V.eq(i, V.add(_m2(P0.elem(ix)), _m2(P1.elem(ix)))), "post")
    _forall_sample(c, ctx, P0.shape, at)


lemma("C13.stokes-identities", lambda interp, ctx, a, k: M(interp, ctx, a[0], "to_stokes"),
      _rel_elementwise(None, clause_stokes, 2e-4), inst_dualpol(extra=(0,)), ("C13",),
      real=lambda pb, a, k: a[0].to_stokes())

# Stokes parameters are identical whichever basis they are computed from
lemma("C13.stokes-basis-independent",
      lambda interp, ctx, a, k: M(interp, ctx, M(interp, ctx, a[0], "to_circular" if a[0].ghost["pol"] == "linear" else "to_linear"), "to_stokes"),
      lambda c, self: spec_to_stokes_f64(c, self), inst_dualpol(extra=(0,)), ("C13",),
      real=lambda pb, a, k: (a[0].to_circular() if a[0].pol_type == "linear" else a[0].to_linear()).to_stokes())


def spec_to_stokes_f64(c, self):
    r = spec_to_stokes(c, self)
    # after a basis change the data are complex128, so the Stokes parameters are float64
    r.data = A.astype(c.ctx, r.data, DType("float64"))
    return r


# --------------------------------------------------------------------------- element-wise NumPy operations (C17)

class UFunc:
    """An arbitrary element-wise ufunc: uninterpreted element function of its inputs."""

    def __init__(self, name, nin, nout, out_dtype="float64", signature=None):
        self.name, self.nin, self.nout, self.out_dtype = name, nin, nout, out_dtype
        self.signature = signature       # core-dimension signature of a generalised ufunc (matmul, vecdot, ...)


def ufunc_elem(uf, k, vals):
    """k-th output of the ufunc at one element (uninterpreted in symbolic mode, a fixed
    arithmetic combination in concrete mode so that the real np ufunc can be compared)."""
    flat = []
    for v in vals:
        cv = Cx.of(v) if isinstance(v, Cx) else None
        if cv is not None:
            flat += [cv.re, cv.im]
        else:
            flat += [V.Ite(v, 1, 0) if (isinstance(v, bool) or (is_sym(v) and z3.is_bool(v))) else v, 0]
    if any(is_sym(x) for x in flat):
        f = z3.Function(f"uf_{uf.name}_{k}", *([z3.RealSort()] * len(flat)), z3.RealSort())
        return f(*[V.R(V.Z(x)) for x in flat])
    return uf.concrete(k, vals)


def apply_ufunc(ctx, uf, in_arr, out_arr):
    """Spec/stub of calling a ufunc on unwrapped operands: results are fresh arrays unless an
    `out` array is given, in which case that array is written and returned."""
    ops = list(in_arr)
    arrs = [o for o in ops if isinstance(o, SArr)]
    results = []
    for k in range(uf.nout):
        res = A.elementwise(ctx, lambda *vals, k=k: ufunc_elem(uf, k, vals), ops, DType(uf.out_dtype)) if arrs else \
            ufunc_elem(uf, k, ops)
        o = out_arr[k] if out_arr is not None else None
        if o is not None:
            if not isinstance(o, SArr):
                raise PyExc("TypeError", "return arrays must be of ArrayType")
            o.elem = res.elem
            o.written = True
            results.append(o)
        else:
            results.append(res)
    return results[0] if uf.nout == 1 else tuple(results)


def install_ufunc_stub(interp):
    """Calling a UFunc value inside interpreted code."""
    from pyvc.interp import Stub
    base_getattr = interp.stubs.value_getattr

    def value_getattr(v, name, ctx):
        if isinstance(v, UFunc):
            if name in ("nin", "nout", "signature"):
                return getattr(v, name)
            raise PyExc("AttributeError", name)
        return base_getattr(v, name, ctx)
    interp.stubs.value_getattr = value_getattr
    base_call = interp.call

    def call(f, args, kwargs, ctx):
        if isinstance(f, UFunc):
            kwargs = dict(kwargs)
            out = kwargs.pop("out", None)
            if kwargs:
                raise PyExc("TypeError", "unexpected ufunc keyword")
            if out is not None and all(o is None for o in out):
                out = None
            for o in (out or ()):
                if isinstance(o, SArr):
                    interp.stubs.frame_write_arr(o, "ufunc out=", ctx)
            for a in args:
                if isinstance(a, Obj):
                    raise PyExc("TypeError", "ufunc received a Signal operand (not unwrapped)")
            return apply_ufunc(ctx, f, args, out)
        return base_call(f, args, kwargs, ctx)
    interp.call = call
    base_ident = interp.identical

    def identical(a, b):
        if isinstance(a, UFunc) or isinstance(b, UFunc):
            # np.matmul is the NS registered in the numpy stub
            na = a.name if isinstance(a, UFunc) else getattr(a, "name", None)
            nb = b.name if isinstance(b, UFunc) else getattr(b, "name", None)
            return {"ufunc:matmul": "matmul"}.get(na, na) == {"ufunc:matmul": "matmul"}.get(nb, nb)
        return base_ident(a, b)
    interp.identical = identical
    base_eq = interp.stubs.generic_eq

    def generic_eq(a, b, ctx):
        if isinstance(a, UFunc) or isinstance(b, UFunc):
            return identical(a, b)
        return base_eq(a, b, ctx)
    interp.stubs.generic_eq = generic_eq


SETUP = [install_ufunc_stub]

UF_ARRANGEMENTS = ["s", "sa", "as", "sx", "xs", "ss", "st"]      # s signal, a array, x scalar, t other-class signal


def inst_ufunc():
    out = []
    for cls in ["Signal", "RadioSignal", "DualPolarizationSignal"]:
        for arr in UF_ARRANGEMENTS:
            for nout in (1, 2):
                for outk in ("none", "sig", "arr"):
                    if outk != "none" and (nout == 2 and arr not in ("s", "ss")):
                        continue
                    for be in (("numpy", "dask") if outk == "none" and nout == 1 and arr in ("s", "sa", "ss") else ("numpy",)):
                        def build(interp, ctx, nm, cls=cls, arr=arr, nout=nout, outk=outk, be=be):
                            from pyvc.sigmodel import DEFAULT_DTYPE
                            dt = DEFAULT_DTYPE[cls]
                            z = mk_signal(interp, ctx, "z", cls, backend=be, nm=nm)
                            shape = z.ghost["data"].shape
                            inputs = []
                            for j, ch in enumerate(arr):
                                if ch == "s" and j == arr.index("s"):
                                    inputs.append(z)
                                elif ch == "s":
                                    w = mk_signal(interp, ctx, "w", cls, backend=be, has_t0=False, dims=dict(enumerate(shape)), nm=nm)
                                    inputs.append(w)
                                elif ch == "t":
                                    w = mk_signal(interp, ctx, "w", "Signal", backend=be, has_t0=False, dims=dict(enumerate(shape)), dtype=dt, nm=nm)
                                    inputs.append(w)
                                elif ch == "a":
                                    inputs.append(sym_array("opnd", shape, dt, be, nm=nm))
                                else:
                                    inputs.append(nm.real("scalar", 3))
                            uf = UFunc(f"g{len(arr)}{nout}", len(arr), nout, out_dtype=dt)
                            uf.concrete = None
                            kw = {}
                            if outk == "sig":
                                kw["out"] = tuple(mk_signal(interp, ctx, f"o{k}", cls, has_t0=False, align="bottom", dims=dict(enumerate(shape)), nm=nm) for k in range(nout))
                            elif outk == "arr":
                                kw["out"] = tuple(sym_array(f"oarr{k}", shape, dt, nm=nm) for k in range(nout))
                            return (z, uf, "__call__") + tuple(inputs), kw
                        out.append(Instance(f"{cls},{arr},nout={nout},out={outk},{be}", build))
    # refused forms
    for method in ("reduce", "accumulate", "outer", "at", "reduceat"):
        def build(interp, ctx, nm, method=method):
            z = mk_signal(interp, ctx, "z", "RadioSignal", nm=nm)
            return (z, UFunc("g11", 1, 1), method, z), {}
        out.append(Instance(f"method={method}", build))
    def build(interp, ctx, nm):
        z = mk_signal(interp, ctx, "z", "BasebandSignal", nm=nm)
        return (z, UFunc("matmul", 2, 1, signature="(n?,k),(k,m?)->(n?,m?)"), "__call__", z, z), {}
    out.append(Instance("matmul", build))
    def build(interp, ctx, nm):
        z = mk_signal(interp, ctx, "z", "Signal", extra_rank=1, nm=nm)
        return (z, UFunc("vecdot", 2, 1, signature="(n),(n)->()"), "__call__", z, z), {}
    out.append(Instance("gufunc-vecdot", build))
    # NumPy dispatches to the operand of the most derived class: `self` is the *second* operand here
    for be in ("numpy", "dask"):
        def build(interp, ctx, nm, be=be):
            first = mk_signal(interp, ctx, "z", "Signal", extra_rank=1, backend=be, nm=nm)
            shape = first.ghost["data"].shape
            second = mk_signal(interp, ctx, "w", "RadioSignal", backend=be, has_t0=False, dims=dict(enumerate(shape)), nm=nm)
            uf = UFunc("g21", 2, 1)
            uf.concrete = None
            return (second, uf, "__call__", first, second), {}
        out.append(Instance(f"first=Signal,second=RadioSignal(self),{be}", build))
    return out


def spec_array_ufunc(c, self, ufunc, method, *inputs, out=None, **kwargs):
    """Values are the ufunc of the underlying arrays; each output is the given out object when one
    was given, else wrapped in the type and metadata of the *first signal operand* (statement; `self` is
    merely the operand NumPy dispatched to, a subclass instance first); non-call methods and generalised
    ufuncs such as matmul are refused (NotImplemented -> TypeError in NumPy)."""
    from pyvc.interp import NOTIMPL
    if method != "__call__" or ufunc.signature is not None:
        return NOTIMPL
    first = next((i for i in inputs if isinstance(i, Obj)), self)
    g = c.view(first)
    in_arr = [c.view(i).data if isinstance(i, Obj) else i for i in inputs]
    outs = out if out is not None else (None,) * ufunc.nout
    out_arr = [c.view(o).data if isinstance(o, Obj) else o for o in outs]
    res = apply_ufunc(c.ctx, ufunc, in_arr, out_arr if any(o is not None for o in out_arr) else None)
    res = (res,) if ufunc.nout == 1 else res
    final = []
    for r, o in zip(res, outs):
        if o is None:
            final.append(construct(c, g.cls, r, g.attrs()))
        elif isinstance(o, Obj):
            final.append(OutObj(o, r))
        else:
            final.append(OutArr(o, r))
    return final[0] if len(final) == 1 else tuple(final)


class OutObj:
    """The *given* out signal: identity preserved, metadata untouched, data = the ufunc values."""

    def __init__(self, obj, arr):
        self.obj, self.arr = obj, arr

    def compare_to(self, interp, ctx, name, got):
        from pyvc.contract import compare_values, SigView
        same = isinstance(got, Obj) and getattr(got, "ghost", None) is not None and got.ghost["data"].name == self.obj.ghost["data"].name
        ctx.oblige(f"{name}.is-given-out", bool(same), "post")
        if same:
            compare_values(interp, ctx, f"{name}.out-data", interp.get_attr(got, "data", ctx), self.arr)
            v = SigView(interp, ctx, self.obj)
            for k, w in v.attrs().items():
                compare_values(interp, ctx, f"{name}.out-meta.{k}", interp.get_attr(got, k, ctx), w)


class OutArr:
    def __init__(self, arr0, arr):
        self.arr0, self.arr = arr0, arr

    def compare_to(self, interp, ctx, name, got):
        from pyvc.contract import compare_values
        same = isinstance(got, SArr) and got.name == self.arr0.name
        ctx.oblige(f"{name}.is-given-out", bool(same), "post")
        if same:
            compare_values(interp, ctx, f"{name}.out-data", got, self.arr)


_uc = Contract("pulsarbat.core.Signal.__array_ufunc__", spec_array_ufunc, inst_ufunc(), props=("C17",))
_uc.no_bounded = True       # the concrete side of C17 is the NumPy-ufunc sweep in props/c17.py
_uc.sanctioned_out = True
CONTRACTS.append(_uc)


def inst_array():
    out = []
    for cls in ["Signal", "BasebandSignal"]:
        for be in ("numpy", "dask"):
            for form in ("plain", "dtype-positional", "dtype-copy-keywords", "same-dtype-keyword"):
                def build(interp, ctx, nm, cls=cls, be=be, form=form):
                    z = mk_signal(interp, ctx, "z", cls, backend=be, nm=nm)
                    if form == "plain":
                        return (z,), {}
                    if form == "dtype-positional":
                        return (z, DType("complex128")), {}
                    if form == "same-dtype-keyword":
                        return (z,), {"dtype": None, "copy": None}
                    return (z,), {"dtype": DType("complex128"), "copy": None}
                out.append(Instance(f"{cls},{be},{form}", build))
    return out


def array_real(pb, rargs, rkwargs):
    import numpy as np
    dt = rargs[1] if len(rargs) > 1 else rkwargs.get("dtype")
    return np.asarray(rargs[0], dtype=dt) if dt is not None else np.asarray(rargs[0])


@contract("pulsarbat.core.Signal.__array__", inst_array(), props=("C17",))
def spec_array(c, self, dtype=None, copy=None):
    """np.asarray(signal) yields its data as a NumPy array."""
    g = c.view(self)
    d = g.data
    if dtype is not None and dtype != d.dtype:
        d = A.astype(c.ctx, d, dtype)
    return SArr(d.shape, d.elem, d.dtype, "numpy")


CONTRACTS[-1].real_call = array_real
CONTRACTS[-1].forcing_allowed = True      # np.asarray(signal) is the explicit conversion to a NumPy array


# --------------------------------------------------------------------------- Dask container helpers (C09, C16)

def inst_backend(classes=("Signal", "BasebandSignal", "FullStokesSignal")):
    out = []
    for cls in classes:
        for be in ("numpy", "dask"):
            def build(interp, ctx, nm, cls=cls, be=be):
                return (mk_signal(interp, ctx, "z", cls, backend=be, has_meta=True, align="top", nm=nm),), {}
            out.append(Instance(f"{cls},{be}", build))
    return out


def _container(c, self, backend):
    g = c.view(self)
    d = g.data
    return construct(c, g.cls, SArr(d.shape, d.elem, d.dtype, backend), g.attrs())


def spec_compute(c, self, **kwargs):
    """only the container changes: same type, metadata, shape, dtype, values; NumPy-backed."""
    return _container(c, self, "numpy")


def spec_persist(c, self, **kwargs):
    g = c.view(self)
    return _container(c, self, g.data.backend)


def spec_to_dask(c, self):
    return _container(c, self, "dask")


def spec_rechunk(c, self, chunks=None, **kwargs):
    # statement: "compute/persist/to_dask_array/rechunk change only the container" -- of every signal, an empty one too
    return _container(c, self, "dask")


for _n, _sp in (("compute", spec_compute), ("persist", spec_persist), ("to_dask_array", spec_to_dask), ("rechunk", spec_rechunk)):
    _cc2 = Contract(f"pulsarbat.core.Signal.{_n}", _sp, inst_backend(), props=("C09", "C16"))
    _cc2.forcing_allowed = _n in ("compute", "persist")
    if _n == "persist":
        # persist of a NumPy-backed signal is np.asarray (no-op); of a Dask-backed one stays Dask
        pass
    CONTRACTS.append(_cc2)


# --------------------------------------------------------------------------- assignment to attributes after construction (C16)

def _assign_body(interp, ctx, a, k):
    z, name, val = a
    from pyvc.contract import compare_values
    before = {n: interp.get_attr(z, n, ctx) for n in _PUBLIC[z.cls.name]}
    try:
        interp.set_attr(z, name, val, ctx)
    except PyExc:
        # a rejected assignment leaves the object as it was (C16: "never yield an object" violating the class
        # contract): every public attribute still reads as before
        for n in _PUBLIC[z.cls.name]:
            try:
                now = interp.get_attr(z, n, ctx)
            except PyExc as e2:
                ctx.oblige(f"post.rejected-assignment-leaves-object-unchanged[{n}]", False, "post", {"got": f"reading raises {e2.kind}"})
                continue
            compare_values(interp, ctx, f"post.rejected-assignment-leaves-object-unchanged[{n}]", now, before[n])
        raise
    # observable state after the assignment
    return {n: interp.get_attr(z, n, ctx) for n in _PUBLIC[z.cls.name] if True}


_PUBLIC = {c: ["sample_rate", "start_time", "meta"] for c in SIGNAL_CLASSES}
for _c in RADIO:
    _PUBLIC[_c] = _PUBLIC[_c] + ["center_freq", "chan_bw", "freq_align"]
_PUBLIC["DualPolarizationSignal"] = _PUBLIC["DualPolarizationSignal"] + ["pol_type"]


def spec_assign(c, z, name, val):
    """Assignment validates exactly like construction: a violated clause raises ValueError and
    leaves the object unchanged; otherwise only that attribute changes (alignment normalised)."""
    g = c.view(z)
    cur = g.attrs()
    if name not in cur:
        raise PyExc("ANY", "not a validated attribute")
    new = dict(cur)
    new[name] = val
    if name == "meta" and val is not None and not isinstance(val, dict):
        if isinstance(val, (list, tuple)) and all(isinstance(p, tuple) and len(p) == 2 for p in val):
            new["meta"] = dict(val)
        else:
            raise PyExc("ValueError", "meta must be a dict")
    if name == "chan_bw" and g.is_a("BasebandSignal"):
        pass        # a baseband signal's chan_bw is only tied to sample_rate at construction (statement)
    r = construct_attrs_only(c, g, new, name)
    return r


def construct_attrs_only(c, g, attrs, changed):
    """Validate one attribute with the class contract (reusing the constructor spec on the same data)."""
    from pyvc.speclib import check_qty, ALIGN_A as _AL
    v = attrs[changed]
    if changed in ("sample_rate", "chan_bw"):
        check_qty(c, v, FREQ_DIM, True, changed)
    elif changed == "center_freq":
        check_qty(c, v, FREQ_DIM, False, changed)
    elif changed == "start_time":
        if v is not None and (not isinstance(v, STime) or not v.is_scalar):
            raise PyExc("ValueError", "start_time")
    elif changed == "freq_align":
        if not isinstance(v, str) or v not in _AL:
            raise PyExc("ValueError", "freq_align")
        odd = c.branch(V.eq(V.mod_int(c.ctx, g.nchan, 2), 1), "nchan odd")
        attrs[changed] = "center" if odd else v
    elif changed == "pol_type":
        if not isinstance(v, str) or v not in ("linear", "circular"):
            raise PyExc("ValueError", "pol_type")
    return attrs


def inst_assign():
    out = []
    cases = []
    for cls in ("Signal", "RadioSignal", "BasebandSignal", "DualPolarizationSignal"):
        for pv in ("sr_ok", "sr_wrong_unit", "sr_number", "sr_array", "t0_time", "t0_none", "t0_number", "t0_array", "meta_dict", "meta_int", "meta_none"):
            cases.append((cls, pv))
        if cls != "Signal":
            for pv in ("cf_ok", "cf_wrong_unit", "cf_number", "bw_ok", "bw_wrong_unit", "align_bottom", "align_top", "align_bogus", "align_none"):
                cases.append((cls, pv))
        if cls == "DualPolarizationSignal":
            for pv in ("pol_linear", "pol_bogus"):
                cases.append((cls, pv))
    for cls, pv in cases:
        def build(interp, ctx, nm, cls=cls, pv=pv):
            U = interp.stubs.units
            z = mk_signal(interp, ctx, "z", cls, has_meta=True, align="center", nm=nm)
            name = {"sr": "sample_rate", "t0": "start_time", "meta": "meta", "cf": "center_freq", "bw": "chan_bw", "align": "freq_align", "pol": "pol_type"}[pv.split("_")[0]]
            val = {
                "sr_ok": lambda: Qty(nm.real("p_x", 3), FREQ_DIM, U["kHz"]), "sr_wrong_unit": lambda: Qty(nm.real("p_x", 3), TIME_DIM, U["s"]),
                "sr_number": lambda: nm.real("p_x", 3), "sr_array": lambda: Qty(sym_array("p_arr", (2,), "float64", nm=nm), FREQ_DIM, U["Hz"]),
                "t0_time": lambda: STime(nm.real("p_t0", 77), "mjd", 3), "t0_none": lambda: None, "t0_number": lambda: nm.real("p_x", 59000),
                "t0_array": lambda: STime(sym_array("p_tarr", (2,), "float64", nm=nm)),
                "meta_dict": lambda: {"q": 2}, "meta_int": lambda: 5, "meta_none": lambda: None,
                "cf_ok": lambda: Qty(nm.real("p_x", 3), FREQ_DIM, U["MHz"]), "cf_wrong_unit": lambda: Qty(nm.real("p_x", 3), TIME_DIM, U["s"]), "cf_number": lambda: nm.real("p_x", 3),
                "bw_ok": lambda: Qty(nm.real("p_x", 3), FREQ_DIM, U["MHz"]), "bw_wrong_unit": lambda: Qty(nm.real("p_x", 3), (), U["one"]),
                "align_bottom": lambda: "bottom", "align_top": lambda: "top", "align_bogus": lambda: "middle", "align_none": lambda: None,
                "pol_linear": lambda: "linear", "pol_bogus": lambda: "elliptical",
            }[pv]()
            return (z, name, val), {}
        out.append(Instance(f"{cls},{pv}", build))
    return out


def _assign_real(pb, a, k):
    z, name, val = a
    import pickle
    def state():
        out = {}
        for n in _PUBLIC[type(z).__name__]:
            v = getattr(z, n)
            out[n] = (type(v).__name__, str(getattr(v, "unit", "")), repr(getattr(v, "jd1", None)), repr(getattr(v, "jd2", None)), repr(getattr(v, "value", v)))
        return out
    before = state()
    try:
        setattr(z, name, val)
    except Exception:
        after = state()
        if after != before:
            raise RuntimeError(f"rejected assignment changed the object: {[(n, before[n], after[n]) for n in before if before[n] != after[n]]}")
        raise
    return {n: getattr(z, n) for n in _PUBLIC[type(z).__name__]}


_as = Contract("pulsarbat.core.Signal.<attribute assignment>", spec_assign, inst_assign(), props={"C16": NO_THM + r"(?!.*/frame\.)"}, body=_assign_body)
_as.real_call = _assign_real
_as.c14_exempt = True          # assignment to an attribute is the explicit, sanctioned mutation of that object
CONTRACTS.append(_as)


# --------------------------------------------------------------------------- get_axis (C16 helper)

def spec_get_axis(c, self, axis):
    g = c.view(self)
    nd = g.data.ndim
    labels = {"time": 0}
    if g.is_a("RadioSignal"):
        labels["freq"] = 1
    if g.is_a("FullStokesSignal") or g.is_a("DualPolarizationSignal"):
        labels["pol"] = 2
    if isinstance(axis, str):
        if axis not in labels:
            raise PyExc("ValueError", "invalid axis label")
        ax = labels[axis]
    elif V.is_intlike(axis) or isinstance(axis, bool):
        ax = axis
    else:
        raise PyExc("ValueError", "invalid axis")
    c.raise_if(V.Or(V.lt(ax, -nd), V.le(nd, ax)), "ValueError", "axis out of range")
    return ax


def inst_get_axis():
    out = []
    for cls in ("Signal", "RadioSignal", "FullStokesSignal", "DualPolarizationSignal"):
        for ax in ("time", "freq", "pol", "bogus", "int", None):
            def build(interp, ctx, nm, cls=cls, ax=ax):
                z = mk_signal(interp, ctx, "z", cls, nm=nm)
                return (z, nm.int("ax", 1) if ax == "int" else ax), {}
            out.append(Instance(f"{cls},axis={ax}", build))
    return out


CONTRACTS.append(Contract("pulsarbat.core.Signal.get_axis", spec_get_axis, inst_get_axis(), props=("C16",)))
