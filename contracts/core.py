"""Sidecar contracts for pulsarbat/core.py.  Each spec is written from the property statements
(C01, C02, C13, C16, C17), not from the code."""
from __future__ import annotations
from fractions import Fraction
import z3
from pyvc import values as V
from pyvc import arrays as A
from pyvc.values import SArr, Qty, STime, PyExc, Cx, DType, SSlice, is_sym, Obj
from pyvc.contract import Contract, Instance, ASig
from pyvc.sigmodel import mk_signal, SIGNAL_CLASSES, CLASS_DTYPES, sym_array
from pyvc.speclib import (raise_any, qdiv, time_plus, clsinfo, construct, label, like_attrs, ALIGN_A)
from pyvc.stubs_lib import FREQ_DIM, TIME_DIM, TAU_T
from pyvc.interp import ClassRef

CONTRACTS = []
# which components of a result belong to which property when a contract serves several
TIME_PARTS = r"(\.data|sample_rate|start_time|\.type|raises|returns-normally|is-signal|frame)"
FREQ_PARTS = r"(\.data|channel-labels|chan_bw|center_freq|freq_align|\.type|raises|returns-normally|is-signal)"
RADIO = ["RadioSignal", "IntensitySignal", "FullStokesSignal", "BasebandSignal", "DualPolarizationSignal"]
CTOR_PARAMS = {
    "Signal": ["sample_rate", "start_time", "meta"],
    "RadioSignal": ["sample_rate", "start_time", "center_freq", "chan_bw", "freq_align", "meta"],
    "IntensitySignal": ["sample_rate", "start_time", "center_freq", "chan_bw", "freq_align", "meta"],
    "FullStokesSignal": ["sample_rate", "start_time", "center_freq", "chan_bw", "freq_align", "meta"],
    "BasebandSignal": ["sample_rate", "start_time", "center_freq", "freq_align", "meta"],
    "DualPolarizationSignal": ["sample_rate", "start_time", "center_freq", "freq_align", "pol_type", "meta"],
}
REQUIRED = {"Signal": ["sample_rate"], "RadioSignal": ["sample_rate", "center_freq", "chan_bw"],
            "IntensitySignal": ["sample_rate", "center_freq", "chan_bw"],
            "FullStokesSignal": ["sample_rate", "center_freq", "chan_bw"],
            "BasebandSignal": ["sample_rate", "center_freq"],
            "DualPolarizationSignal": ["sample_rate", "center_freq", "pol_type"]}


def contract(qualname, instances, props=(), body=None):
    def deco(spec):
        CONTRACTS.append(Contract(qualname, spec, instances, props, doc=spec.__doc__ or "", body=body))
        return spec
    return deco


# --------------------------------------------------------------------------- slices as inputs

def sym_slice(nm, name, pattern):
    """pattern: 3 chars over {'n' (None), 's' (symbolic int)}."""
    parts = []
    for ch, part in zip(pattern, ("start", "stop", "step")):
        parts.append(None if ch == "n" else nm.int(f"{name}_{part}"))
    return SSlice(*parts)


TIME_PATTERNS = ["nnn", "snn", "nsn", "ssn", "nns", "sns", "nss", "sss"]
FREQ_PATTERNS = ["nnn", "ssn", "snn", "nsn", "sss"]


def time_slice_of(c, g, sl):
    """C01: (a, b, step) of a time slice, with the errors the statement allows."""
    if not isinstance(sl, SSlice):
        raise PyExc(("IndexError", "TypeError", "AttributeError"), "time index must be a slice")
    a, b, st = A.slice_adjust(c.ctx, sl, g.N)      # ValueError for step == 0
    c.raise_if(V.lt(st, 0), "AssertionError", "negative step")
    return a, b, st


def time_kw(c, g, a, st):
    kw = {}
    if c.branch(V.lt(1, st), "step > 1"):
        kw["sample_rate"] = qdiv(c, g.sr, st)
    if g.t0 is not None:
        kw["start_time"] = time_plus(c, g.t0, V.div(c.ctx, a, g.sr.val))
    return kw


# --------------------------------------------------------------------------- Signal._time_slice

def inst_time_slice():
    out = []
    for cls in ["Signal", "RadioSignal", "DualPolarizationSignal"]:
        for has_t0 in (True, False):
            for pat in TIME_PATTERNS:
                def build(interp, ctx, nm, cls=cls, has_t0=has_t0, pat=pat):
                    z = mk_signal(interp, ctx, "z", cls, has_t0=has_t0, nm=nm)
                    return (z, sym_slice(nm, "ix", pat)), {}
                out.append(Instance(f"{cls},t0={int(has_t0)},slice={pat}", build))
    return out


@contract("pulsarbat.core.Signal._time_slice", inst_time_slice(), props=("C01",))
def spec_time_slice(c, self, index):
    """start_time advances by (first retained index)/sample_rate; sample_rate divided by step;
    a signal without start time never acquires one; no other key."""
    g = c.view(self)
    a, b, st = time_slice_of(c, g, index)
    return time_kw(c, g, a, st)


# --------------------------------------------------------------------------- like()

def spec_like_core(c, cls, obj, z, kwargs):
    """C16: like(cls, obj, z, **kw) constructs cls with every constructor attribute taken from
    kw when given, else from obj (ValueError when a required one is missing on obj)."""
    g = c.view(obj)
    have = g.attrs()
    params = CTOR_PARAMS[cls.name]
    attrs = {}
    for k in kwargs:
        if k not in params:
            raise PyExc("TypeError", f"unexpected keyword {k}")
    for p in params:
        if p in kwargs:
            attrs[p] = kwargs[p]
        elif p in have:
            attrs[p] = have[p]
        elif p in REQUIRED[cls.name]:
            raise PyExc("ValueError", f"missing required keyword argument {p}")
    data = g.data if z is None else z
    return construct(c, cls, data, attrs)


def inst_like():
    out = []
    pairs = [(a, b) for a in SIGNAL_CLASSES for b in SIGNAL_CLASSES]
    for tgt, src in pairs:
        for variant in ("plain", "override"):
            def build(interp, ctx, nm, tgt=tgt, src=src, variant=variant):
                obj = mk_signal(interp, ctx, "o", src, extra_rank=1, has_meta=True, nm=nm)
                g = obj.ghost
                # data of the target's default dtype with the same shape as obj (may violate tgt's shape contract)
                from pyvc.sigmodel import DEFAULT_DTYPE
                z = sym_array("znew", g["data"].shape, DEFAULT_DTYPE[tgt], nm=nm)
                kw = {}
                if variant == "override":
                    ksr = nm.real("kw_sr", 7)
                    kw["sample_rate"] = Qty(ksr, FREQ_DIM, interp.stubs.units["Hz"])
                    ctx.assume(V.lt(0, ksr), why="input")
                    kw["start_time"] = None
                return (ClassRef(interp.repo.get_class(f"pulsarbat.core.{tgt}")), obj, z), kw
            out.append(Instance(f"{tgt}.like({src}),{variant}", build))
    # z omitted: data taken from obj
    for src in SIGNAL_CLASSES:
        def build(interp, ctx, nm, src=src):
            obj = mk_signal(interp, ctx, "o", src, nm=nm)
            return (ClassRef(obj.cls), obj), {}
        out.append(Instance(f"{src}.like({src}),z=None", build))
    return out


@contract("pulsarbat.core.Signal.like", inst_like(), props=("C16",))
def spec_like(c, cls, obj, z=None, **kwargs):
    if not isinstance(cls, ClassRef):
        raise PyExc("TypeError", "cls")
    return spec_like_core(c, cls.ci, obj, z, kwargs)


# --------------------------------------------------------------------------- __getitem__

def inst_getitem(classes, with_freq):
    out = []
    for cls in classes:
        for has_t0 in (True, False):
            for pat in TIME_PATTERNS:
                def build(interp, ctx, nm, cls=cls, has_t0=has_t0, pat=pat):
                    z = mk_signal(interp, ctx, "z", cls, has_t0=has_t0, extra_rank=1, nm=nm)
                    return (z, sym_slice(nm, "ix", pat)), {}
                out.append(Instance(f"{cls},t0={int(has_t0)},[{pat}]", build))
        # tuple forms
        for pat, fpat in ([("sss", f) for f in FREQ_PATTERNS] + [("nnn", "ssn"), ("snn", "ssn")]):
            def build(interp, ctx, nm, cls=cls, pat=pat, fpat=fpat):
                z = mk_signal(interp, ctx, "z", cls, extra_rank=1, align="bottom", nm=nm)
                return (z, (sym_slice(nm, "ix", pat), sym_slice(nm, "fx", fpat))), {}
            out.append(Instance(f"{cls},[{pat},{fpat}]", build))
        for align in ("top", "center"):
            def build(interp, ctx, nm, cls=cls, align=align):
                z = mk_signal(interp, ctx, "z", cls, extra_rank=1, align=align, has_t0=False, nm=nm)
                return (z, (sym_slice(nm, "ix", "ssn"), sym_slice(nm, "fx", "ssn"), sym_slice(nm, "gx", "ssn"))), {}
            out.append(Instance(f"{cls},align={align},[ssn,ssn,ssn]", build))
        def build(interp, ctx, nm, cls=cls):
            z = mk_signal(interp, ctx, "z", cls, extra_rank=1, nm=nm)
            return (z, (sym_slice(nm, "ix", "ssn"),)), {}
        out.append(Instance(f"{cls},[(ssn,)]", build))
        def build(interp, ctx, nm, cls=cls):
            z = mk_signal(interp, ctx, "z", cls, extra_rank=1, nm=nm)
            return (z, nm.int("k")), {}
        out.append(Instance(f"{cls},[int]", build))
    return out


def spec_getitem_common(c, self, index, freq_axis):
    g = c.view(self)
    idx = index if isinstance(index, tuple) else (index,)
    nsl = 2 if freq_axis else 1
    if not all(isinstance(a, SSlice) for a in idx[:nsl]):
        raise PyExc("IndexError", "only slices on time/frequency axes")
    if len(idx) == 0:
        raise PyExc("IndexError", "empty index tuple")
    a, b, st = time_slice_of(c, g, idx[0])
    over = time_kw(c, g, a, st)
    if freq_axis and len(idx) > 1:
        n = g.nchan
        fa, fb, fst = A.slice_adjust(c.ctx, idx[1], n)
        raise_any(c, [(V.ne(fst, 1), "AssertionError"), (V.le(fb, fa), "AssertionError")])
        # C02: labels of the selected channels are kept: new centre is the mean of the first
        # and last selected label and the alignment becomes 'center'
        f0 = label(c, g, fa)
        f1 = label(c, g, V.sub(fb, 1))
        over["center_freq"] = Qty(V.div(c.ctx, V.add(f0, f1), 2), FREQ_DIM, g.cf.unit)
        over["freq_align"] = "center"
    data = A.getitem(c.ctx, g.data, idx)
    return construct(c, g.cls, data, like_attrs(g, **over))


@contract("pulsarbat.core.Signal.__getitem__", inst_getitem(["Signal"], False), props={"C01": TIME_PARTS, "C16": None})
def spec_signal_getitem(c, self, index):
    return spec_getitem_common(c, self, index, False)


@contract("pulsarbat.core.RadioSignal.__getitem__",
          inst_getitem(["RadioSignal", "IntensitySignal", "BasebandSignal", "DualPolarizationSignal", "FullStokesSignal"], True),
          props={"C01": TIME_PARTS, "C02": FREQ_PARTS, "C16": None})
def spec_radio_getitem(c, self, index):
    return spec_getitem_common(c, self, index, True)
