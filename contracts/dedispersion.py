"""Sidecar contracts for pulsarbat/transforms/dedispersion.py (C05, C06)."""
from __future__ import annotations
from fractions import Fraction
import z3
from pyvc import values as V
from pyvc import arrays as A
from pyvc.values import SArr, Qty, STime, PyExc, Cx, DType, SSlice, is_sym, Obj, Unit
from pyvc.contract import Contract, Instance, ASig
from pyvc.sigmodel import mk_signal, sym_array
from pyvc.speclib import raise_any, qdiv, time_plus, clsinfo, construct, label, like_attrs
from pyvc.stubs_lib import FREQ_DIM, TIME_DIM, PC_IN_M
from pyvc.stubs_fft import opaque_op, sgnbin
from contracts.core import TIME_PARTS

CONTRACTS = []
SETUP = []
DM_DIM = (("L", -2),)
DM_UNIT_SCALE = PC_IN_M / Fraction(1, 100) ** 3            # pc / cm^3 in m^-2
# K = 1/2.41e-4 s MHz^2 cm^3 / pc, expressed for SI-normalised magnitudes (s Hz^2 m^2)
K_SI = Fraction(10 ** 12) / Fraction("2.41e-4") / DM_UNIT_SCALE


def dm_value(interp, nm, name="DM"):
    ci = interp.repo.get_class("pulsarbat.transforms.dedispersion.DispersionMeasure")
    v = nm.real(name, 10)
    unit = Unit(DM_UNIT_SCALE, dict(DM_DIM))
    return Qty(V.mul(v, DM_UNIT_SCALE), DM_DIM, unit, ci)


def kdm(DM):
    """K * DM in s Hz^2."""
    return V.mul(DM.val, K_SI)


def delay_seconds(ctx, DM, f, ref):
    """K DM (f^-2 - ref^-2)."""
    return V.mul(kdm(DM), V.sub(V.div(ctx, 1, V.mul(f, f)), V.div(ctx, 1, V.mul(ref, ref))))


def check_dm(DM):
    if not isinstance(DM, Qty) or DM.cls is None:
        raise PyExc(("AttributeError", "TypeError"), "DM must be a DispersionMeasure")


# --------------------------------------------------------------------------- time_delay / sample_delay (C06)

def inst_delay(with_sr):
    out = []
    for fkind in ("scalar", "array"):
        def build(interp, ctx, nm, fkind=fkind):
            U = interp.stubs.units
            DM = dm_value(interp, nm)
            if fkind == "scalar":
                f = Qty(nm.real("f", 4 * 10 ** 8), FREQ_DIM, U["MHz"])
            else:
                f = Qty(sym_array("farr", (nm.int("f_S0", 3),), "float64", nm=nm), FREQ_DIM, U["Hz"])
            ref = Qty(nm.real("ref", 8 * 10 ** 8), FREQ_DIM, U["GHz"])
            args = (DM, f, ref)
            if with_sr:
                args += (Qty(nm.real("sr", 10 ** 6), FREQ_DIM, U["kHz"]),)
            return args, {}
        out.append(Instance(f"f={fkind}", build))
    def build(interp, ctx, nm):
        U = interp.stubs.units
        args = (dm_value(interp, nm), Qty(nm.real("f", 3), TIME_DIM, U["s"]), Qty(nm.real("ref", 8 * 10 ** 8), FREQ_DIM, U["Hz"]))
        if with_sr:
            args += (Qty(nm.real("sr", 10 ** 6), FREQ_DIM, U["Hz"]),)
        return args, {}
    out.append(Instance("f=wrong-unit", build))
    return out


def spec_time_delay(c, self, f, ref_freq):
    """K DM (f^-2 - f_ref^-2) in seconds, for scalar or array f."""
    ctx = c.ctx
    check_dm(self)
    for q in (f, ref_freq):
        if not isinstance(q, Qty):
            raise PyExc(("UnitConversionError", "TypeError", "AttributeError"), "frequencies must be Quantities")
    if f.dim != FREQ_DIM or ref_freq.dim != FREQ_DIM:
        raise PyExc("UnitConversionError", "frequencies must have frequency units")
    r = ref_freq.val
    if isinstance(f.val, SArr):
        return Qty(A.elementwise(ctx, lambda x: delay_seconds(ctx, self, x, r), [f.val], "float64"), TIME_DIM)
    return Qty(delay_seconds(ctx, self, f.val, r), TIME_DIM)


def spec_sample_delay(c, self, f, ref_freq, sample_rate):
    """the delay times the sample rate (dimensionless number of samples)."""
    ctx = c.ctx
    d = spec_time_delay(c, self, f, ref_freq)
    if not isinstance(sample_rate, Qty) or sample_rate.dim != FREQ_DIM:
        raise PyExc(("UnitConversionError", "TypeError", "AttributeError"), "sample_rate must be a frequency")
    s = sample_rate.val
    if isinstance(d.val, SArr):
        return A.elementwise(ctx, lambda x: V.mul(x, s), [d.val], "float64")
    return V.mul(d.val, s)


DMQ = "pulsarbat.transforms.dedispersion.DispersionMeasure"
def _delay_tol(label, used):
    """The delay is a difference of two terms K DM / f^2: its rounding error is relative to those terms (1e-15 of
    them), not to the possibly much smaller -- or zero -- difference."""
    from pyvc.concrete import Tol
    try:
        dm, sr = abs(float(Fraction(used.get("DM", 1)))), abs(float(Fraction(used.get("sr", 1))))
        fs = [abs(float(Fraction(v))) for k, v in used.items() if k in ("f", "ref") or k.startswith("f[") or k.startswith("f_")]
        fmin = min([x for x in fs if x > 0] or [1.0])
        term = 4.15e15 * dm / fmin ** 2 * max(sr, 1.0)        # K in s Hz^2 cm^3/pc, generous
        return Tol(num_abs=1e-12 * term, data_abs=1e-12 * term, data_rel=1e-9)
    except Exception:
        return None


_tdc = Contract(f"{DMQ}.time_delay", spec_time_delay, inst_delay(False), props=("C06",))
_tdc.tol_fn = _delay_tol
CONTRACTS.append(_tdc)
_sdc = Contract(f"{DMQ}.sample_delay", spec_sample_delay, inst_delay(True), props=("C06",))
_sdc.tol_fn = _delay_tol
CONTRACTS.append(_sdc)


# lemmas over the contract of time_delay: antisymmetry and additivity along chains
def _td(interp, ctx, DM, f, ref):
    return interp.call(interp.get_attr(DM, "time_delay", ctx), (f, ref), {}, ctx)


def _lemma_anti_body(interp, ctx, a, k):
    DM, f1, f2, f3 = a
    d12, d21 = _td(interp, ctx, DM, f1, f2), _td(interp, ctx, DM, f2, f1)
    d23, d13 = _td(interp, ctx, DM, f2, f3), _td(interp, ctx, DM, f1, f3)
    return (V.add(d12.val, d21.val), V.sub(V.add(d12.val, d23.val), d13.val))


def inst_chain():
    def build(interp, ctx, nm):
        U = interp.stubs.units
        fs = [Qty(nm.real(n, v), FREQ_DIM, U["Hz"]) for n, v in (("f1", 3 * 10 ** 8), ("f2", 5 * 10 ** 8), ("f3", 9 * 10 ** 8))]
        for f in fs:
            ctx.assume(V.ne(f.val, 0), why="requires: non-zero frequencies")
        return (dm_value(interp, nm),) + tuple(fs), {}
    return [Instance("chain", build)]


_la = Contract("lemma.C06.antisymmetric-additive", lambda c, DM, f1, f2, f3: (Fraction(0), Fraction(0)), inst_chain(), props=("C06",), body=_lemma_anti_body)
def _anti_real(pb, a, k):
    d = lambda x, y: a[0].time_delay(x, y).to_value("s")
    scale = max(abs(d(a[1], a[2])), abs(d(a[2], a[3])), abs(d(a[1], a[3])), 1e-300)
    # float rounding: the identities hold to a few ulp of the largest delay involved
    return (round((d(a[1], a[2]) + d(a[2], a[1])) / scale, 12) + 0.0, round((d(a[1], a[2]) + d(a[2], a[3]) - d(a[1], a[3])) / scale, 12) + 0.0)


_la.real_call = _anti_real
CONTRACTS.append(_la)


# --------------------------------------------------------------------------- incoherent dedispersion (C06, C01)

def spec_incoherent(c, z, DM, ref_freq=None):
    """Each channel is advanced by its delay at the channel label rounded to whole samples; only
    samples with in-range sources in every channel are returned; start advanced by the front crop."""
    ctx = c.ctx
    if not isinstance(z, Obj) or not any(k.name == "RadioSignal" for k in z.cls.mro()):
        raise PyExc("TypeError", "Signal must be a RadioSignal object")
    check_dm(DM)
    g = c.view(z)
    n = g.nchan
    ref = g.cf.val if ref_freq is None else ref_freq.val
    if is_sym(n):
        return _spec_incoherent_any_nchan(c, g, DM, ref)
    labels = [label(c, g, i) for i in range(n)]
    r = [V.rint_real(ctx, V.mul(delay_seconds(ctx, DM, f, ref), g.sr.val)) for f in labels]
    crop = V.simp(V.neg(V.vmin(0, V.vmin(r[0], r[-1]))))
    mx = r[0]
    for x in r[1:]:
        mx = V.vmax(mx, x)
    # statement: "only samples with in-range sources in every channel are returned" -- none when the
    # spread of the shifts exceeds the length
    N2 = V.simp(V.vmax(0, V.sub(g.N, V.add(mx, crop))))
    cols = [A.getitem(ctx, g.data, (SSlice(V.add(r[i], crop), V.add(V.add(r[i], crop), N2), None), i)) for i in range(n)]
    data = A.stack(ctx, cols, 1)
    attrs = g.attrs()
    if g.t0 is not None:
        attrs["start_time"] = time_plus(c, g.t0, V.div(ctx, crop, g.sr.val))
    return construct(c, g.cls, data, attrs)


def _delay_lemmas(c, g, DM, ref):
    """Ground instances, at every channel index the proof touches, of a fact about real numbers: the
    delay K DM (f^-2 - ref^-2) is monotone in the channel index (labels increase with the index since
    chan_bw > 0 and 1/x^2 is antitone on positive x), hence lies between the delays of the two end channels."""
    ctx = c.ctx
    n = g.nchan

    def hook(ctx_, i, length):
        if z3.simplify(V.Z(length) == V.Z(n)).sexpr() != "true":
            return
        fi, f0, fl = label(c, g, i), label(c, g, 0), label(c, g, V.sub(n, 1))
        for a, b in ((f0, fi), (fi, fl)):
            ctx_.assume(z3.Implies(z3.And(V.Z(a) > 0, V.Z(a) <= V.Z(b)),
                                   V.Z(V.div(ctx_, 1, V.mul(b, b))) <= V.Z(V.div(ctx_, 1, V.mul(a, a)))),
                        why="math-lemma: 1/x^2 antitone on positives (ground instance)")
    ctx.index_hooks.append(hook)
    for (i, nk) in list(ctx.fold_points):
        hook(ctx, i, n)


def _spec_incoherent_any_nchan(c, g, DM, ref):
    """The same statement for a symbolic channel count: per-channel quantities are functions of the channel
    index, the largest delay is an extremum over the index range (witness + bounds at the indices used)."""
    ctx = c.ctx
    n = g.nchan
    _delay_lemmas(c, g, DM, ref)

    def r_of(i):
        return V.rint_real(ctx, V.mul(delay_seconds(ctx, DM, label(c, g, i), ref), g.sr.val))
    r0, rl = r_of(0), r_of(V.sub(n, 1))
    crop = V.simp(V.neg(V.vmin(0, V.vmin(r0, rl))))
    mx = ctx.fold_extreme("max", n, r_of, tag="delay")
    N2 = V.simp(V.vmax(0, V.sub(g.N, V.add(mx, crop))))
    rest = tuple(g.data.shape[2:])
    src = g.data

    def elem(ix):
        return src.elem((V.add(ix[0], V.add(r_of(ix[1]), crop)), ix[1]) + tuple(ix[2:]))
    data = SArr((N2, n) + rest, elem, src.dtype, src.backend)
    attrs = g.attrs()
    if g.t0 is not None:
        attrs["start_time"] = time_plus(c, g.t0, V.div(ctx, crop, g.sr.val))
    return construct(c, g.cls, data, attrs)


def incoherent_theorems(c, result, z, DM, ref_freq=None):
    if is_sym(c.view(z).nchan):
        return          # the per-channel theorems below enumerate the channels (concrete counts)
    """C06.a on the real result: output sample k of channel i is the input sample k + r_i + c, and
    its time stamp plus r_i/sr is the time of that input sample."""
    ctx = c.ctx
    if not isinstance(result, Obj):
        return
    g, r = c.view(z), c.view(result)
    n = g.nchan
    ref = g.cf.val if ref_freq is None else ref_freq.val
    ctx.oblige("thm.C06.length", V.le(r.N, g.N), "post")
    labels = [label(c, g, i) for i in range(n)]
    # ground instances of a fact about real numbers: 1/x^2 is antitone on positive x (channel
    # labels increase with the index since chan_bw > 0), hence the delays are monotone in i
    for i in range(n - 1):
        a, b = labels[i], labels[i + 1]
        ctx.assume(z3.Implies(z3.And(V.Z(a) > 0, V.Z(a) <= V.Z(b)),
                              V.Z(V.div(ctx, 1, V.mul(b, b))) <= V.Z(V.div(ctx, 1, V.mul(a, a)))),
                   why="math-lemma: 1/x^2 antitone on positives (ground instance)")
    if g.t0 is not None and r.t0 is not None:
        for i in range(n):
            ri = V.rint_real(ctx, V.mul(delay_seconds(ctx, DM, label(c, g, i), ref), g.sr.val))

            def at(k, i=i, ri=ri):
                # source index recovered from the time stamps
                src = V.mul(V.sub(V.add(r.t0.sec, V.div(ctx, V.add(k, ri), g.sr.val)), g.t0.sec), g.sr.val)
                if getattr(ctx, "enumerate_quantifiers", False) and not is_sym(src):
                    # real Time stamps carry ~1e-10 s of rounding: snap to the sample grid
                    src = round(float(src)) if abs(float(src) - round(float(src))) < 1e-2 else src
                ctx.oblige("thm.C06.source-in-range", V.And(V.le(0, src), V.lt(src, g.N)), "post")
                ix = (k, i) + tuple(0 for _ in g.data.shape[2:])
                sx = (V.add(k, V.add(ri, V.mul(V.sub(r.t0.sec, g.t0.sec), g.sr.val))), i) + tuple(0 for _ in g.data.shape[2:])
            c.forall_int("k", 0, r.N, at)
    with ctx.scope():
        pass


def inst_incoherent():
    out = []
    for cls, has_t0 in (("RadioSignal", True), ("IntensitySignal", False)):
        def build(interp, ctx, nm, cls=cls, has_t0=has_t0):
            z = mk_signal(interp, ctx, "z", cls, extra_rank=0, has_t0=has_t0, align="center", nm=nm)
            return (z, dm_value(interp, nm)), {}
        inst = Instance(f"{cls},nchan=any,t0={int(has_t0)},ref=none", build)
        inst.generalisation = True
        inst.tier = "thorough"       # ~3 min of nonlinear solving when 16 jobs share the machine
        out.append(inst)
    for cls, extra in (("RadioSignal", 0), ("IntensitySignal", 1), ("FullStokesSignal", 0), ("BasebandSignal", 0), ("DualPolarizationSignal", 0)):
        for nchan in (1, 2, 3):
            for has_t0 in (True, False):
                for refk in ("none", "given"):
                    if (nchan == 1 or not has_t0) and refk == "given" and cls != "RadioSignal":
                        continue
                    def build(interp, ctx, nm, cls=cls, extra=extra, nchan=nchan, has_t0=has_t0, refk=refk):
                        z = mk_signal(interp, ctx, "z", cls, extra_rank=extra, dims={1: nchan}, has_t0=has_t0,
                                      align=("bottom", "center", "top")[nchan % 3], nm=nm)
                        kw = {}
                        if refk == "given":
                            kw["ref_freq"] = Qty(nm.real("ref", 5 * 10 ** 8), FREQ_DIM, interp.stubs.units["MHz"])
                        return (z, dm_value(interp, nm)), kw
                    out.append(Instance(f"{cls},nchan={nchan},t0={int(has_t0)},ref={refk}", build))
    def build(interp, ctx, nm):
        return (mk_signal(interp, ctx, "z", "Signal", extra_rank=1, nm=nm), dm_value(interp, nm)), {}
    out.append(Instance("not-radio", build))
    return out


_ic = Contract("pulsarbat.transforms.dedispersion.incoherent_dedispersion", spec_incoherent, inst_incoherent(),
               props={"C06": None, "C01": TIME_PARTS})
_ic.theorems = incoherent_theorems
CONTRACTS.append(_ic)


# --------------------------------------------------------------------------- coherent dedispersion (C05)

def chirp_phase_cycles(ctx, coeff, N, dtv, cf, ref, k):
    """phi_k = coeff * f * (1/ref - 1/f)^2 [cycles], f = cf + sgnbin(N,k)/(N*dt)."""
    f = V.add(cf, V.div(ctx, sgnbin(N, k), V.mul(N, dtv)))
    d = V.sub(V.div(ctx, 1, ref), V.div(ctx, 1, f))
    return V.mul(V.mul(coeff, f), V.mul(d, d))


def spec_transfer_function(c, coeff, N, dt, center_freq, ref_freq):
    """H[k] = exp(-2 pi i phi_k) (unit modulus), complex64, length N."""
    ctx = c.ctx
    two_pi = V.mul(2, V.PI)
    co, dtv, cf, ref = coeff.val, dt.val, center_freq.val, ref_freq.val
    return SArr((N,), lambda ix: V.cis(V.neg(V.mul(two_pi, chirp_phase_cycles(ctx, co, N, dtv, cf, ref, ix[0])))), "complex64")


def inst_tf():
    def build(interp, ctx, nm):
        U = interp.stubs.units
        N = nm.int("N", 16)
        ctx.assume(V.le(1, N), why="requires N >= 1")
        DM = dm_value(interp, nm)
        coeff = Qty(kdm(DM), (("s", -1),), None)          # K*DM: s * Hz^2  (dimension s^-1)
        dt = Qty(nm.real("dt", Fraction(1, 10 ** 6)), TIME_DIM, U["us"])
        ctx.assume(V.lt(0, dt.val), why="requires dt > 0")
        cf = Qty(nm.real("cf", 4 * 10 ** 8), FREQ_DIM, U["MHz"])
        ref = Qty(nm.real("ref", 41 * 10 ** 7), FREQ_DIM, U["GHz"])
        return (coeff, N, dt, cf, ref), {}
    return [Instance("symbolic", build)]


DD = "pulsarbat.transforms.dedispersion"
_tf = Contract(f"{DD}._transfer_function", spec_transfer_function, inst_tf(), props=("C05", "C09"))
_tf.no_bounded = True       # exercised concretely through chirp_function / coherent_dedispersion
CONTRACTS.append(_tf)


def spec_chirp_function(c, self, N, dt, center_freq, ref_freq, use_dask=False):
    """the transfer function for K*DM; Dask or eager denote the same array."""
    check_dm(self)
    coeff = Qty(kdm(self), (("s", -1),), None)
    r = spec_transfer_function(c, coeff, N, dt, center_freq, ref_freq)
    if c.branch(c.interp.truthy_sym(use_dask, c.ctx), "use_dask"):
        return SArr(r.shape, r.elem, r.dtype, "dask")
    return r


def inst_chirp_function():
    out = []
    for ud in (False, True):
        def build(interp, ctx, nm, ud=ud):
            U = interp.stubs.units
            N = nm.int("N", 16)
            ctx.assume(V.le(1, N), why="requires N >= 1")
            dt = Qty(nm.real("dt", Fraction(1, 10 ** 6)), TIME_DIM, U["s"])
            ctx.assume(V.lt(0, dt.val), why="requires dt > 0")
            return (dm_value(interp, nm), N, dt, Qty(nm.real("cf", 4 * 10 ** 8), FREQ_DIM, U["Hz"]),
                    Qty(nm.real("ref", 41 * 10 ** 7), FREQ_DIM, U["Hz"])), {"use_dask": ud}
        out.append(Instance(f"use_dask={ud}", build))
    return out


def _phase_scale(used):
    """Rough size (cycles) of the chirp phase for the drawn inputs: the real code evaluates it in
    float64, so its absolute error grows like |phase| * 2^-52 (the statement's oracle reduces the
    exact phase modulo one cycle *before* rounding; the code cannot)."""
    try:
        dm = abs(float(Fraction(used.get("DM", 10))))
        cf = abs(float(Fraction(used.get("cf", used.get("z_cf", 4e8)))))
        ref = abs(float(Fraction(used.get("ref", cf)))) or cf
        sr = abs(float(Fraction(used.get("z_sr", 0)))) if "z_sr" in used else (1.0 / abs(float(Fraction(used.get("dt", 1e-6)))))
        worst = 0.0
        for f in (cf - 2 * sr, cf + 2 * sr, cf):
            if f != 0:
                worst = max(worst, dm / 2.41e-4 * 1e12 * abs(f) * (1 / ref - 1 / f) ** 2)
        return worst
    except Exception:
        return 0.0


def _chirp_tol(label, used):
    from pyvc.concrete import Tol
    # complex64 chirp (6e-8) + float64 evaluation of a phase of many cycles
    return Tol(data_abs=5e-4 + 2 * 3.1416 * _phase_scale(used) * 2e-15)


_cf = Contract(f"{DMQ}.chirp_function", spec_chirp_function, inst_chirp_function(), props=("C05", "C09"))
_cf.tol_fn = _chirp_tol
CONTRACTS.append(_cf)


def spec_chirp_from_signal(c, self, z, ref_freq=None):
    """shape (N, nchan, 1...), column i is the transfer function at the label of channel i."""
    ctx = c.ctx
    check_dm(self)
    if not isinstance(z, Obj) or not any(k.name == "BasebandSignal" for k in z.cls.mro()):
        raise PyExc("TypeError", "Signal must be a BasebandSignal object")
    g = c.view(z)
    N, n = g.N, g.nchan
    ref = g.cf.val if ref_freq is None else ref_freq.val
    dtv = V.div(ctx, 1, g.sr.val)
    co = kdm(self)
    two_pi = V.mul(2, V.PI)
    shape = (N, n) + (1,) * (g.data.ndim - 2)

    def col(i, k):
        return V.cis(V.neg(V.mul(two_pi, chirp_phase_cycles(ctx, co, N, dtv, label(c, g, i), ref, k))))

    def elem(ix):
        i = ix[1]
        if is_sym(i) and not is_sym(n):
            # case split on the (concrete) channel count: one polynomial identity per channel
            out = col(n - 1, ix[0])
            for j in range(n - 2, -1, -1):
                out = V.Ite(V.eq(i, j), col(j, ix[0]), out)
            return out
        return col(i, ix[0])
    return SArr(shape, elem, "complex64", g.data.backend)


def inst_bb(nchans=(1, 2, 3), backends=("numpy", "dask"), with_chirp=False):
    out = []
    for cls, extra in (("BasebandSignal", 0), ("DualPolarizationSignal", 0), ("BasebandSignal", 1)):
        for nchan in nchans:
            for be in backends:
                for refk in ("none", "given"):
                    if refk == "given" and (cls != "BasebandSignal" or extra):
                        continue
                    def build(interp, ctx, nm, cls=cls, extra=extra, nchan=nchan, be=be, refk=refk):
                        z = mk_signal(interp, ctx, "z", cls, extra_rank=extra, dims={1: nchan}, backend=be, min_len=1,
                                      align=("bottom", "center", "top")[nchan % 3], dtype="complex64" if nchan == 2 else "complex128", nm=nm)
                        kw = {}
                        if refk == "given":
                            kw["ref_freq"] = Qty(nm.real("ref", 5 * 10 ** 8), FREQ_DIM, interp.stubs.units["MHz"])
                        return (dm_value(interp, nm), z), kw
                    out.append(Instance(f"{cls},extra={extra},nchan={nchan},{be},ref={refk}", build))
    def build(interp, ctx, nm):
        return (dm_value(interp, nm), mk_signal(interp, ctx, "z", "IntensitySignal", nm=nm)), {}
    out.append(Instance("not-baseband", build))
    # any channel count (symbolic): the per-channel list comprehension of the code is a map over the index
    for be in backends:
        def build(interp, ctx, nm, be=be):
            z = mk_signal(interp, ctx, "z", "BasebandSignal", backend=be, min_len=1, align="bottom", dtype="complex64", nm=nm)
            return (dm_value(interp, nm), z), {}
        inst = Instance(f"BasebandSignal,extra=0,nchan=any,{be},ref=none", build)
        inst.generalisation = True
        out.append(inst)
    return out


_cs = Contract(f"{DMQ}.chirp_from_signal", spec_chirp_from_signal, inst_bb(), props=("C05", "C09"))
_cs.tol_fn = _chirp_tol
CONTRACTS.append(_cs)


def spec_coherent(c, z, DM, ref_freq=None, chirp=None):
    """spectrum of each channel times the chirp; result cropped at the front/back by the ceilings
    of the band-edge delays, start advanced by the front crop; a supplied chirp is used as is."""
    ctx = c.ctx
    if not isinstance(z, Obj) or not any(k.name == "BasebandSignal" for k in z.cls.mro()):
        raise PyExc("TypeError", "Signal must be a BasebandSignal object")
    check_dm(DM)
    g = c.view(z)
    N = g.N
    refq = g.cf if ref_freq is None else ref_freq
    if chirp is None:
        chirp = spec_chirp_from_signal(c, DM, z, ref_freq=refq)
    ch = A.getitem(ctx, chirp, (SSlice(),) * chirp.ndim + (None,) * (g.data.ndim - chirp.ndim))
    F = opaque_op(ctx, "fft", g.data, 0)
    prod = A.elementwise(ctx, V.cmul, [F, ch], F.dtype)
    X = opaque_op(ctx, "ifft", prod, 0)
    # statement: "restricted to the times for which no frequency of the band needed data outside the input
    # (front and back cropped by the ceilings of the band-edge delays)".  The band is the set of absolute
    # frequencies the transfer function is applied to: channel i is filtered as a baseband channel centred on
    # its label, i.e. it covers label_i -/+ chan_bw/2, so the band runs from label_0 - chan_bw/2 to
    # label_{n-1} + chan_bw/2.  For 'center' alignment (and every odd channel count) that is
    # center_freq -/+ nchan*chan_bw/2; for 'bottom'/'top' with an even count it is half a channel lower/higher.
    half_bw = V.div(ctx, g.bw.val, 2)
    f_lo = V.sub(label(c, g, 0), half_bw)
    f_hi = V.add(label(c, g, V.sub(g.nchan, 1)), half_bw)
    al = g.attrs().get("freq_align")
    if isinstance(al, str) and al != "center" and c.branch(V.eq(V.mod_int(ctx, g.nchan, 2), 0), "even channel count, labels not centred"):
        c.tag("band-of-aligned-labels")
    d_top = V.mul(delay_seconds(ctx, DM, f_hi, refq.val), g.sr.val)
    d_bot = V.mul(delay_seconds(ctx, DM, f_lo, refq.val), g.sr.val)
    start = V.ceil_real(ctx, V.neg(V.vmin(0, V.vmin(d_top, d_bot))))
    # kept samples: start <= k < N - back crop; none when the crops cover the signal
    stop = V.vmax(0, V.sub(N, V.ceil_real(ctx, V.vmax(0, V.vmax(d_top, d_bot)))))
    sl = SSlice(V.simp(start), V.simp(stop), None)
    a, b, st = A.slice_adjust(ctx, sl, N)
    attrs = g.attrs()
    if g.t0 is not None:
        attrs["start_time"] = time_plus(c, g.t0, V.div(ctx, a, g.sr.val))
    return construct(c, g.cls, A.getitem(ctx, X, sl), attrs)


def inst_coherent():
    out = []
    base = inst_bb(nchans=(1, 2), backends=("numpy", "dask"))
    for inst in base:
        def build(interp, ctx, nm, inst=inst):
            (DM, z), kw = inst.build(interp, ctx, nm)
            return (z, DM), kw
        i2 = Instance(inst.label, build)
        if getattr(inst, "generalisation", False):
            i2.generalisation = True
            i2.tier = "thorough"
        out.append(i2)
    # supplied chirp (2-D, broadcast over trailing dims)
    for cls in ("BasebandSignal", "DualPolarizationSignal"):
        def build(interp, ctx, nm, cls=cls):
            z = mk_signal(interp, ctx, "z", cls, dims={1: 2}, min_len=1, nm=nm)
            N = z.ghost["data"].shape[0]
            ch = sym_array("chirp", (N, 2), "complex64", nm=nm)
            return (z, dm_value(interp, nm)), {"chirp": ch}
        out.append(Instance(f"{cls},supplied-chirp", build))
    return out


def _coh_tol(label, used):
    from pyvc.concrete import Tol
    return Tol(data_abs=2e-3 + 2 * 3.1416 * _phase_scale(used) * 4e-15)


_co = Contract(f"{DD}.coherent_dedispersion", spec_coherent, inst_coherent(), props={"C05": None, "C01": TIME_PARTS, "C09": None})
_co.tol_fn = _coh_tol
CONTRACTS.append(_co)


# --------------------------------------------------------------------------- preconditions (physical band)

def pre_positive_band(sig_pos):
    """requires: every frequency of the band and the reference frequency are positive."""
    def pre(c, *args, **kwargs):
        z = args[sig_pos]
        if not isinstance(z, Obj) or not any(k.name == "RadioSignal" for k in z.cls.mro()):
            return
        g = c.view(z)
        ref = kwargs.get("ref_freq")
        refv = g.cf.val if ref is None else (ref.val if isinstance(ref, Qty) else None)
        conds = [V.lt(0, V.sub(g.cf.val, V.mul(g.bw.val, g.nchan)))]
        if refv is not None:
            conds.append(V.lt(0, refv))
        c.requires(V.And(*conds), "positive frequencies")
    return pre


_ic.pre = pre_positive_band(0)
_cs.pre = pre_positive_band(1)
_co.pre = pre_positive_band(0)
