"""Sidecar contracts for pulsarbat/transforms/transforms.py."""
from __future__ import annotations
from fractions import Fraction
import z3
from pyvc import values as V
from pyvc import arrays as A
from pyvc.values import SArr, Qty, STime, PyExc, Cx, DType, SSlice, is_sym, Obj
from pyvc.contract import Contract, Instance, ASig
from pyvc.sigmodel import mk_signal, SIGNAL_CLASSES, sym_array
from pyvc.speclib import raise_any, qdiv, time_plus, clsinfo, construct, label, like_attrs
from pyvc.stubs_lib import FREQ_DIM, TIME_DIM, TAU_T
from contracts.core import inst_sig, getitem_theorems, TIME_PARTS, NO_THM

CONTRACTS = []
SETUP = []


def contract(qualname, instances, props=(), body=None):
    def deco(spec):
        CONTRACTS.append(Contract(qualname, spec, instances, props, doc=spec.__doc__ or "", body=body))
        return spec
    return deco


# --------------------------------------------------------------------------- fast_len (C01, C18)

def inst_fast_len():
    out = []
    for cls in SIGNAL_CLASSES:
        for has_t0 in (True, False):
            def build(interp, ctx, nm, cls=cls, has_t0=has_t0):
                return (mk_signal(interp, ctx, "z", cls, has_t0=has_t0, nm=nm),), {}
            out.append(Instance(f"{cls},t0={int(has_t0)}", build))
    return out


@contract("pulsarbat.transforms.transforms.fast_len", inst_fast_len(), props={"C01": None, "C18": None})
def spec_fast_len(c, z):
    """Crops from the end to exactly prev_fast_len(len) samples; retained samples and their
    timestamps untouched."""
    g = c.view(z)
    n = c.call("pulsarbat.utils.prev_fast_len", g.N)
    data = A.getitem(c.ctx, g.data, SSlice(None, n, None))
    return construct(c, g.cls, data, g.attrs())


# --------------------------------------------------------------------------- time_shift (C03, C01, C09)
from pyvc.stubs_fft import opaque_op, sgnbin


def same_width_dtype(dt, real):
    """dtype of an FFT round trip at the precision of the input (scipy.fft keeps single precision)."""
    single = dt.name in ("float32", "complex64", "float16")
    if real:
        return DType("float32" if single else "float64")
    return DType("complex64" if single else "complex128")


def shift_as_samples(c, g, shift):
    """The three spellings of a shift: number of samples, array of samples, or time Quantity."""
    if isinstance(shift, Qty):
        if shift.dim != TIME_DIM:
            raise PyExc("UnitConversionError", "shift must have units of time")
        v = shift.val
        if isinstance(v, SArr):
            return A.elementwise(c.ctx, lambda x: V.mul(x, g.sr.val), [v], "float64")
        return V.mul(v, g.sr.val)
    return shift


def shift_per_element(c, s, sample_shape):
    """s_e for every element e of the sample shape: shift axes align with the leading sample
    axes; length-1 shift axes broadcast; missing trailing axes broadcast."""
    if not isinstance(s, SArr):
        return (lambda e: s), [()], (lambda m: s)
    r = s.ndim
    for i in range(r):
        d = s.shape[i]
        if not (not is_sym(d) and d == 1):
            c.raise_if(V.ne(d, sample_shape[i]), "ValueError", "shift does not broadcast against the sample shape")

    def s_of(e):
        return s.elem(tuple(0 if (not is_sym(s.shape[i]) and s.shape[i] == 1) else e[i] for i in range(r)))
    import itertools
    space = list(itertools.product(*[range(int(d)) for d in s.shape]))
    return s_of, space, (lambda m: s.elem(m))


def spec_time_shift(c, z, shift, crop=False):
    """C03: DFT shift-theorem delay per element, exact zero-fill of out-of-range samples for every
    element (also for broadcast shift axes), metadata unchanged; crop removes exactly the edge samples."""
    ctx = c.ctx
    g = c.view(z)
    N = g.N
    s = shift_as_samples(c, g, shift)
    if isinstance(s, SArr) and s.ndim >= g.data.ndim:
        raise PyExc("ValueError", "shift has too many dimensions")
    S = g.data.shape[1:]
    s_of, space, s_at = shift_per_element(c, s, S)
    tiny = Fraction(1, 10 ** 8)
    allzero = V.And(*[V.And(V.le(s_at(m), tiny), V.le(V.neg(tiny), s_at(m))) for m in space])
    if c.branch(allzero, "all shifts are zero"):
        return z
    F = opaque_op(ctx, "fft", g.data, 0)
    two_pi = V.mul(2, V.PI)

    def ramp(ix):
        theta = V.neg(V.div(ctx, V.mul(V.mul(two_pi, s_of(ix[1:])), sgnbin(N, ix[0])), N))
        return V.cis(theta)
    R = SArr((N,) + tuple(S), ramp, "complex64", g.data.backend)
    prod = A.elementwise(ctx, V.cmul, [F, R], F.dtype)
    Y = opaque_op(ctx, "ifft", prod, 0)
    real_in = not g.data.is_complex
    out_dt = same_width_dtype(g.data.dtype, real_in)

    def zero_region(ix):
        k, se = ix[0], s_of(ix[1:])
        pos = V.And(V.le(0, se), V.lt(k, V.ceil_real(ctx, se)))
        neg = V.And(V.lt(se, 0), V.le(V.add(N, V.floor_real(ctx, se)), k))
        return V.Or(pos, neg)

    def out_elem(ix):
        y = Y.elem(ix)
        if real_in:
            return V.Ite(zero_region(ix), 0, Cx.of(y).re)
        return V.Ite(zero_region(ix), Cx(0, 0), Cx.of(y))
    data = SArr(Y.shape, out_elem, out_dt, g.data.backend)
    data.exact_zero = lambda ix: bool(V.conc(zero_region(ix)) is True)
    attrs = g.attrs()
    if not c.branch(c.interp.truthy_sym(crop, ctx), "crop"):
        return construct(c, g.cls, data, attrs)
    start, stop = 0, 0
    for m in space:
        sm = s_at(m)
        start = V.vmax(start, V.Ite(V.le(0, sm), V.ceil_real(ctx, sm), 0))
        stop = V.vmin(stop, V.Ite(V.lt(sm, 0), V.floor_real(ctx, sm), 0))
    sl = SSlice(V.simp(start), V.simp(V.add(N, stop)), None)
    a, b, st = A.slice_adjust(ctx, sl, N)
    if g.t0 is not None:
        attrs["start_time"] = time_plus(c, g.t0, V.div(ctx, a, g.sr.val))
    return construct(c, g.cls, A.getitem(ctx, data, sl), attrs)


def shift_value(nm, ctx, kind, name="sh"):
    if kind == "scalar":
        return nm.real(name)
    raise ValueError(kind)


# sample dimensions are concrete (2 or 3) so that the element loop of the real code can be executed
# whichever index space it iterates over; the signal length N and all values stay symbolic.
SHIFT_CONFIGS = [
    # label, class, extra_rank, fixed dims {axis: n}, shift builder
    ("scalar,rank1", "Signal", 0, {}, ("scalar",)),
    ("scalar,S=(3,)", "Signal", 1, {1: 3}, ("scalar",)),
    ("scalar,S=(2,2)", "DualPolarizationSignal", 0, {1: 2}, ("scalar",)),
    ("quantity,S=(2,)", "RadioSignal", 0, {1: 2}, ("quantity",)),
    ("arr(2),S=(2,)", "Signal", 1, {1: 2}, ("array", (2,))),
    ("arr(1),S=(3,)", "Signal", 1, {1: 3}, ("array", (1,))),
    ("arr(2),S=(2,3)", "BasebandSignal", 1, {1: 2, 2: 3}, ("array", (2,))),
    ("arr(2,1),S=(2,3)", "BasebandSignal", 1, {1: 2, 2: 3}, ("array", (2, 1))),
    ("arr(1,2),S=(3,2)", "DualPolarizationSignal", 0, {1: 3}, ("array", (1, 2))),
    ("arr(2,2),S=(2,2)", "DualPolarizationSignal", 0, {1: 2}, ("array", (2, 2))),
    ("arr(3),S=(3,)", "IntensitySignal", 0, {1: 3}, ("array", (3,))),
    ("arr(2),rank1-too-many", "Signal", 0, {}, ("array", (2,))),
    ("qarr(2),S=(2,)", "RadioSignal", 0, {1: 2}, ("qarray", (2,))),
]


def inst_time_shift():
    out = []
    for label, cls, extra, dims, sb in SHIFT_CONFIGS:
        for dt, be in ((None, "numpy"), ("single", "numpy"), (None, "dask")):
            for crop in (False, True):
                def build(interp, ctx, nm, cls=cls, extra=extra, dims=dims, sb=sb, dt=dt, be=be, crop=crop):
                    from pyvc.sigmodel import DEFAULT_DTYPE
                    d = DEFAULT_DTYPE[cls]
                    if dt == "single":
                        d = {"float64": "float32", "complex128": "complex64"}[d]
                    z = mk_signal(interp, ctx, "z", cls, extra_rank=extra, dims=dims, dtype=d, backend=be, min_len=1, nm=nm)
                    if sb[0] == "scalar":
                        sh = nm.real("sh")
                    elif sb[0] == "quantity":
                        sh = Qty(nm.real("sh_t", Fraction(7, 2000)), TIME_DIM, interp.stubs.units["s"])
                    elif sb[0] == "array":
                        sh = sym_array("sh", sb[1], "float64", nm=nm, scale=3)
                    else:
                        sh = Qty(sym_array("sh_t", sb[1], "float64", nm=nm, scale=3), TIME_DIM, interp.stubs.units["s"])
                    return (z, sh), {"crop": crop}
                out.append(Instance(f"{label},{cls},{dt or 'double'},{be},crop={int(crop)}", build))
    return out


_ts = Contract("pulsarbat.transforms.transforms.time_shift", spec_time_shift, inst_time_shift(), props={"C03": None, "C01": TIME_PARTS, "C09": None})
CONTRACTS.append(_ts)


# --------------------------------------------------------------------------- freq_shift (C04, C09)

def spec_freq_shift(c, z, shift):
    """C04: multiply by exp(2 pi i df t), zero every bin content would wrap into, for every element
    of the sample shape (scalar or broadcast shift); type, dtype, rate, start and labels unchanged."""
    ctx = c.ctx
    if not isinstance(z, Obj) or not any(k.name == "BasebandSignal" for k in z.cls.mro()):
        raise PyExc("TypeError", "Signal must be a BasebandSignal object")
    g = c.view(z)
    N = g.N
    if not isinstance(shift, Qty) or shift.dim != FREQ_DIM:
        raise PyExc("ValueError", "shift must be a Quantity with units of frequency")
    sv = shift.val
    s = sv if isinstance(sv, SArr) else SArr((1,), lambda ix: sv, "float64")
    if s.ndim >= g.data.ndim:
        raise PyExc("ValueError", "shift has too many dimensions")
    S = g.data.shape[1:]
    s_of, space, s_at = shift_per_element(c, s, S)
    sr = g.sr.val

    def ft_of(e):
        return V.div(ctx, s_of(e), sr)
    two_pi = V.mul(2, V.PI)
    M = SArr((N,) + tuple(S), lambda ix: V.cis(V.mul(V.mul(two_pi, ft_of(ix[1:])), ix[0])), g.data.dtype, g.data.backend)
    mixed = A.elementwise(ctx, V.cmul, [g.data, M], g.data.dtype)
    F = opaque_op(ctx, "fft", mixed, 0)
    Xs = c.interp.stubs.fftshift(ctx, F, (0,), False)

    def zero_region(ix):
        p, a = ix[0], V.mul(ft_of(ix[1:]), N)
        pos = V.And(V.le(0, a), V.lt(p, V.ceil_real(ctx, a)))
        neg = V.And(V.lt(a, 0), V.le(V.add(N, V.floor_real(ctx, a)), p))
        return V.Or(pos, neg)
    Xz = SArr(Xs.shape, lambda ix: V.Ite(zero_region(ix), Cx(0, 0), Cx.of(Xs.elem(ix))), Xs.dtype, Xs.backend)
    Xi = c.interp.stubs.fftshift(ctx, Xz, (0,), True)
    Y = opaque_op(ctx, "ifft", Xi, 0)
    return construct(c, g.cls, Y, g.attrs())


FSHIFT_CONFIGS = [
    ("scalar,S=(2,)", "BasebandSignal", 0, {1: 2}, ("scalar",)),
    ("scalar,S=(1,)", "BasebandSignal", 0, {1: 1}, ("scalar",)),
    ("scalar,S=(2,2)", "DualPolarizationSignal", 0, {1: 2}, ("scalar",)),
    ("arr(2),S=(2,)", "BasebandSignal", 0, {1: 2}, ("array", (2,))),
    ("arr(1),S=(3,)", "BasebandSignal", 0, {1: 3}, ("array", (1,))),
    ("arr(2),S=(2,2)", "DualPolarizationSignal", 0, {1: 2}, ("array", (2,))),
    ("arr(2,1),S=(2,2)", "DualPolarizationSignal", 0, {1: 2}, ("array", (2, 1))),
    ("arr(1,2),S=(3,2)", "DualPolarizationSignal", 0, {1: 3}, ("array", (1, 2))),
    ("arr(2,2),S=(2,2)", "DualPolarizationSignal", 0, {1: 2}, ("array", (2, 2))),
    ("arr(2,2),rank-too-many", "BasebandSignal", 0, {1: 2}, ("array", (2, 2))),
    ("not-baseband", "IntensitySignal", 0, {1: 2}, ("scalar",)),
    ("wrong-unit", "BasebandSignal", 0, {1: 2}, ("wrong-unit",)),
    ("plain-number", "BasebandSignal", 0, {1: 2}, ("number",)),
]


def inst_freq_shift():
    out = []
    for label, cls, extra, dims, sb in FSHIFT_CONFIGS:
        for dt, be in (("complex128", "numpy"), ("complex64", "numpy"), ("complex128", "dask")):
            def build(interp, ctx, nm, cls=cls, extra=extra, dims=dims, sb=sb, dt=dt, be=be):
                d = dt if cls != "IntensitySignal" else "float64"
                z = mk_signal(interp, ctx, "z", cls, extra_rank=extra, dims=dims, dtype=d, backend=be, min_len=1, align="bottom", nm=nm)
                U = interp.stubs.units
                if sb[0] == "scalar":
                    sh = Qty(nm.real("df", 137), FREQ_DIM, U["Hz"])
                elif sb[0] == "array":
                    sh = Qty(sym_array("df", sb[1], "float64", nm=nm, scale=400), FREQ_DIM, U["Hz"])
                elif sb[0] == "wrong-unit":
                    sh = Qty(nm.real("df", 1), TIME_DIM, U["s"])
                else:
                    sh = nm.real("df", 1)
                return (z, sh), {}
            out.append(Instance(f"{label},{cls},{dt},{be}", build))
    return out


CONTRACTS.append(Contract("pulsarbat.transforms.transforms.freq_shift", spec_freq_shift, inst_freq_shift(), props={"C04": None, "C09": None}))
