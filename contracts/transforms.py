"""Sidecar contracts for pulsarbat/transforms/transforms.py."""
from __future__ import annotations
from fractions import Fraction
import z3
from pyvc import values as V
from pyvc import arrays as A
from pyvc.values import SArr, Qty, STime, PyExc, Cx, DType, SSlice, is_sym, Obj
from pyvc.contract import Contract, Instance, ASig
from pyvc.sigmodel import mk_signal, SIGNAL_CLASSES, sym_array
from pyvc.speclib import raise_any, qdiv, time_plus, clsinfo, construct, label, like_attrs
from pyvc.stubs_lib import FREQ_DIM, TIME_DIM, TAU_T
from contracts.core import inst_sig, getitem_theorems, TIME_PARTS, NO_THM

CONTRACTS = []
SETUP = []


def contract(qualname, instances, props=(), body=None):
    def deco(spec):
        CONTRACTS.append(Contract(qualname, spec, instances, props, doc=spec.__doc__ or "", body=body))
        return spec
    return deco


# --------------------------------------------------------------------------- fast_len (C01, C18)

def inst_fast_len():
    out = []
    for cls in SIGNAL_CLASSES:
        for has_t0 in (True, False):
            def build(interp, ctx, nm, cls=cls, has_t0=has_t0):
                return (mk_signal(interp, ctx, "z", cls, has_t0=has_t0, nm=nm),), {}
            out.append(Instance(f"{cls},t0={int(has_t0)}", build))
    return out


@contract("pulsarbat.transforms.transforms.fast_len", inst_fast_len(), props={"C01": None, "C18": None})
def spec_fast_len(c, z):
    """Crops from the end to exactly prev_fast_len(len) samples; retained samples and their
    timestamps untouched."""
    g = c.view(z)
    n = c.call("pulsarbat.utils.prev_fast_len", g.N)
    data = A.getitem(c.ctx, g.data, SSlice(None, n, None))
    return construct(c, g.cls, data, g.attrs())


# --------------------------------------------------------------------------- time_shift (C03, C01, C09)
from pyvc.stubs_fft import opaque_op, sgnbin


def same_width_dtype(dt, real):
    """dtype of an FFT round trip at the precision of the input (scipy.fft keeps single precision)."""
    single = dt.name in ("float32", "complex64", "float16")
    if real:
        return DType("float32" if single else "float64")
    return DType("complex64" if single else "complex128")


def shift_as_samples(c, g, shift):
    """The three spellings of a shift: number of samples, array of samples, or time Quantity."""
    if isinstance(shift, Qty):
        if shift.dim != TIME_DIM:
            raise PyExc("UnitConversionError", "shift must have units of time")
        v = shift.val
        if isinstance(v, SArr):
            return A.elementwise(c.ctx, lambda x: V.mul(x, g.sr.val), [v], "float64")
        return V.mul(v, g.sr.val)
    return shift


def shift_per_element(c, s, sample_shape):
    """s_e for every element e of the sample shape: shift axes align with the leading sample
    axes; length-1 shift axes broadcast; missing trailing axes broadcast."""
    if not isinstance(s, SArr):
        return (lambda e: s), [()], (lambda m: s)
    r = s.ndim
    for i in range(r):
        d = s.shape[i]
        if not (not is_sym(d) and d == 1):
            c.raise_if(V.ne(d, sample_shape[i]), "ValueError", "shift does not broadcast against the sample shape")

    def s_of(e):
        return s.elem(tuple(0 if (not is_sym(s.shape[i]) and s.shape[i] == 1) else e[i] for i in range(r)))
    import itertools
    if any(is_sym(d) for d in s.shape):
        return s_of, None, (lambda m: s.elem(m))       # symbolic extent: no enumeration of the elements
    space = list(itertools.product(*[range(int(d)) for d in s.shape]))
    return s_of, space, (lambda m: s.elem(m))


def _any_extent(S):
    return len(S) == 1 and is_sym(S[0])


def _shift_any_extent(c, g, s):
    """Per-element shift over ONE sample axis of symbolic extent: s_at(j) for an index term j, the statement's two
    reductions over the elements (largest front crop, most negative back crop) as extremum symbols shared with the
    summary of the code's element loop, and the two "all elements" conditions."""
    ctx = c.ctx
    S = g.data.shape[1]
    if isinstance(s, SArr):
        if s.ndim != 1:
            from pyvc.ctx import Unsupported
            raise Unsupported("symbolic sample extent with a shift array of rank other than 1")
        one = (not is_sym(s.shape[0])) and s.shape[0] == 1
        if not one:
            c.raise_if(V.ne(s.shape[0], S), "ValueError", "shift does not broadcast against the sample shape")
        s_at = (lambda j: s.elem((0,))) if one else (lambda j: s.elem((j,)))
    else:
        s_at = lambda j: s
    cached = getattr(ctx, "_shift_folds", None)
    if cached is None:
        g_start = lambda j: V.Ite(V.lt(s_at(j), 0), 0, V.ceil_real(ctx, s_at(j)))
        g_stop = lambda j: V.Ite(V.lt(s_at(j), 0), V.floor_real(ctx, s_at(j)), 0)
        start = ctx.fold_extreme("max", S, g_start, tag="front-crop")
        stop = ctx.fold_extreme("min", S, g_stop, tag="back-crop")
        cached = ctx._shift_folds = (g_start, g_stop, start, stop)
    return s_at, cached


def time_shift_loop_folds(c, z, shift, crop=False):
    """The reductions the element loop of time_shift must compute (statement: the front / back edge samples to
    remove are those of the largest positive / most negative shift)."""
    g = c.view(z)
    S = g.data.shape[1:]
    if not _any_extent(S):
        return []
    s = shift_as_samples(c, g, shift)
    s_at, (g_start, g_stop, start, stop) = _shift_any_extent(c, g, s)
    return [("max", 0, g_start, start), ("min", 0, g_stop, stop)]


def spec_time_shift(c, z, shift, crop=False):
    """C03: DFT shift-theorem delay per element, exact zero-fill of out-of-range samples for every
    element (also for broadcast shift axes), metadata unchanged; crop removes exactly the edge samples."""
    ctx = c.ctx
    g = c.view(z)
    N = g.N
    s = shift_as_samples(c, g, shift)
    if isinstance(s, SArr) and s.ndim >= g.data.ndim:
        raise PyExc("ValueError", "shift has too many dimensions")
    S = g.data.shape[1:]
    tiny = Fraction(1, 10 ** 8)
    if _any_extent(S):
        s_at_j, (g_start, g_stop, f_start, f_stop) = _shift_any_extent(c, g, s)
        s_of = lambda e: s_at_j(e[0])
        per_elem = SArr((S[0],), lambda ix: s_at_j(ix[0]), "float64")
        allzero = c.interp.stubs.forall_elems(ctx, per_elem, lambda v: V.eq(v, 0), "shift0")
        alltiny = c.interp.stubs.forall_elems(ctx, per_elem, lambda v: V.And(V.le(v, tiny), V.le(V.neg(tiny), v)), "shifttiny")
        space = None
    else:
        s_of, space, s_at = shift_per_element(c, s, S)
        allzero = V.And(*[V.eq(s_at(m), 0) for m in space])
        alltiny = V.And(*[V.And(V.le(s_at(m), tiny), V.le(V.neg(tiny), s_at(m))) for m in space])
    if c.branch(allzero, "all shifts are zero"):
        return z            # a delay by 0 samples is the identity and zero-fills nothing (ceil(0) = 0)
    if c.branch(alltiny, "all shifts within 1e-8 of zero (not all exactly zero)"):
        # the statement has no tolerance: a shift of 1e-9 samples still zero-fills ceil(s) = 1 sample
        c.tag("shift-below-1e-8")
    F = opaque_op(ctx, "fft", g.data, 0)
    two_pi = V.mul(2, V.PI)

    def ramp(ix):
        theta = V.neg(V.div(ctx, V.mul(V.mul(two_pi, s_of(ix[1:])), sgnbin(N, ix[0])), N))
        return V.cis(theta)
    R = SArr((N,) + tuple(S), ramp, "complex64", g.data.backend)
    prod = A.elementwise(ctx, V.cmul, [F, R], F.dtype)
    Y = opaque_op(ctx, "ifft", prod, 0)
    real_in = not g.data.is_complex
    out_dt = same_width_dtype(g.data.dtype, real_in)

    def zero_region(ix):
        k, se = ix[0], s_of(ix[1:])
        pos = V.And(V.le(0, se), V.lt(k, V.ceil_real(ctx, se)))
        neg = V.And(V.lt(se, 0), V.le(V.add(N, V.floor_real(ctx, se)), k))
        return V.Or(pos, neg)

    def out_elem(ix):
        y = Y.elem(ix)
        if real_in:
            return V.Ite(zero_region(ix), 0, Cx.of(y).re)
        return V.Ite(zero_region(ix), Cx(0, 0), Cx.of(y))
    data = SArr(Y.shape, out_elem, out_dt, g.data.backend)
    data.exact_zero = lambda ix: bool(V.conc(zero_region(ix)) is True)
    attrs = g.attrs()
    if not c.branch(c.interp.truthy_sym(crop, ctx), "crop"):
        return construct(c, g.cls, data, attrs)
    if space is None:
        start, stop = f_start, f_stop
    else:
        start, stop = 0, 0
        for m in space:
            sm = s_at(m)
            start = V.vmax(start, V.Ite(V.le(0, sm), V.ceil_real(ctx, sm), 0))
            stop = V.vmin(stop, V.Ite(V.lt(sm, 0), V.floor_real(ctx, sm), 0))
    # statement: "the crop=False result with exactly those edge samples removed" -- the kept samples are
    # start <= k < N + stop, none at all when the removed edges cover the signal (|s| >= N, mixed signs)
    sl = SSlice(V.simp(start), V.simp(V.vmax(0, V.add(N, stop))), None)
    a, b, st = A.slice_adjust(ctx, sl, N)
    if g.t0 is not None:
        attrs["start_time"] = time_plus(c, g.t0, V.div(ctx, a, g.sr.val))
    return construct(c, g.cls, A.getitem(ctx, data, sl), attrs)


def shift_value(nm, ctx, kind, name="sh"):
    if kind == "scalar":
        return nm.real(name)
    raise ValueError(kind)


# sample dimensions are concrete (2 or 3) so that the element loop of the real code can be executed
# whichever index space it iterates over; the signal length N and all values stay symbolic.
SHIFT_CONFIGS = [
    # label, class, extra_rank, fixed dims {axis: n}, shift builder
    ("scalar,rank1", "Signal", 0, {}, ("scalar",)),
    ("scalar,S=(3,)", "Signal", 1, {1: 3}, ("scalar",)),
    ("scalar,S=(2,2)", "DualPolarizationSignal", 0, {1: 2}, ("scalar",)),
    ("quantity,S=(2,)", "RadioSignal", 0, {1: 2}, ("quantity",)),
    ("arr(2),S=(2,)", "Signal", 1, {1: 2}, ("array", (2,))),
    ("arr(1),S=(3,)", "Signal", 1, {1: 3}, ("array", (1,))),
    ("arr(2),S=(2,3)", "BasebandSignal", 1, {1: 2, 2: 3}, ("array", (2,))),
    ("arr(2,1),S=(2,3)", "BasebandSignal", 1, {1: 2, 2: 3}, ("array", (2, 1))),
    ("arr(1,2),S=(3,2)", "DualPolarizationSignal", 0, {1: 3}, ("array", (1, 2))),
    ("arr(2,2),S=(2,2)", "DualPolarizationSignal", 0, {1: 2}, ("array", (2, 2))),
    ("arr(3),S=(3,)", "IntensitySignal", 0, {1: 3}, ("array", (3,))),
    ("arr(2),rank1-too-many", "Signal", 0, {}, ("array", (2,))),
    ("qarr(2),S=(2,)", "RadioSignal", 0, {1: 2}, ("qarray", (2,))),
    ("quantity-us,rate-kHz,S=(2,)", "RadioSignal", 0, {1: 2}, ("quantity-us",)),
]


def inst_time_shift():
    out = []
    for label, cls, extra, dims, sb in SHIFT_CONFIGS:
        for dt, be in ((None, "numpy"), ("single", "numpy"), (None, "dask")):
            for crop in (False, True):
                def build(interp, ctx, nm, cls=cls, extra=extra, dims=dims, sb=sb, dt=dt, be=be, crop=crop):
                    from pyvc.sigmodel import DEFAULT_DTYPE
                    d = DEFAULT_DTYPE[cls]
                    if dt == "single":
                        d = {"float64": "float32", "complex128": "complex64"}[d]
                    z = mk_signal(interp, ctx, "z", cls, extra_rank=extra, dims=dims, dtype=d, backend=be, min_len=1, nm=nm,
                                  sr_unit="kHz" if sb[0] == "quantity-us" else "Hz")
                    if sb[0] == "quantity-us":
                        sh = Qty(nm.real("sh_t", Fraction(7, 2000)), TIME_DIM, interp.stubs.units["us"])
                    elif sb[0] == "scalar":
                        sh = nm.real("sh")
                    elif sb[0] == "quantity":
                        sh = Qty(nm.real("sh_t", Fraction(7, 2000)), TIME_DIM, interp.stubs.units["s"])
                    elif sb[0] == "array":
                        sh = sym_array("sh", sb[1], "float64", nm=nm, scale=3)
                    else:
                        sh = Qty(sym_array("sh_t", sb[1], "float64", nm=nm, scale=3), TIME_DIM, interp.stubs.units["s"])
                    return (z, sh), {"crop": crop}
                out.append(Instance(f"{label},{cls},{dt or 'double'},{be},crop={int(crop)}", build))
    # any extent of one sample axis (symbolic): the element loop of the code is summarised, not unrolled
    for kind in ("scalar", "array-full", "array-one"):
        for crop in (False, True):
            def build(interp, ctx, nm, kind=kind, crop=crop):
                z = mk_signal(interp, ctx, "z", "Signal", extra_rank=1, min_len=1, nm=nm)
                S1 = z.ghost["data"].shape[1]
                if kind == "scalar":
                    sh = nm.real("sh")
                elif kind == "array-full":
                    sh = sym_array("sh", (S1,), "float64", nm=nm, scale=3)
                else:
                    sh = sym_array("sh", (1,), "float64", nm=nm, scale=3)
                return (z, sh), {"crop": crop}
            inst = Instance(f"{kind},S=(any,),Signal,double,numpy,crop={int(crop)}", build)
            inst.generalisation = True
            out.append(inst)
    return out


_ts = Contract("pulsarbat.transforms.transforms.time_shift", spec_time_shift, inst_time_shift(), props={"C03": None, "C01": TIME_PARTS, "C09": None})
_ts.loop_folds = time_shift_loop_folds
CONTRACTS.append(_ts)


# --------------------------------------------------------------------------- freq_shift (C04, C09)

def spec_freq_shift(c, z, shift):
    """C04: multiply by exp(2 pi i df t), zero every bin content would wrap into, for every element
    of the sample shape (scalar or broadcast shift); type, dtype, rate, start and labels unchanged."""
    ctx = c.ctx
    if not isinstance(z, Obj) or not any(k.name == "BasebandSignal" for k in z.cls.mro()):
        raise PyExc("TypeError", "Signal must be a BasebandSignal object")
    g = c.view(z)
    N = g.N
    if not isinstance(shift, Qty) or shift.dim != FREQ_DIM:
        raise PyExc("ValueError", "shift must be a Quantity with units of frequency")
    sv = shift.val
    s = sv if isinstance(sv, SArr) else SArr((1,), lambda ix: sv, "float64")
    if s.ndim >= g.data.ndim:
        raise PyExc("ValueError", "shift has too many dimensions")
    S = g.data.shape[1:]
    s_of, space, s_at = shift_per_element(c, s, S)
    sr = g.sr.val

    def ft_of(e):
        return V.div(ctx, s_of(e), sr)
    two_pi = V.mul(2, V.PI)
    M = SArr((N,) + tuple(S), lambda ix: V.cis(V.mul(V.mul(two_pi, ft_of(ix[1:])), ix[0])), g.data.dtype, g.data.backend)
    mixed = A.elementwise(ctx, V.cmul, [g.data, M], g.data.dtype)
    F = opaque_op(ctx, "fft", mixed, 0)
    Xs = c.interp.stubs.fftshift(ctx, F, (0,), False)

    def zero_region(ix):
        p, a = ix[0], V.mul(ft_of(ix[1:]), N)
        pos = V.And(V.le(0, a), V.lt(p, V.ceil_real(ctx, a)))
        neg = V.And(V.lt(a, 0), V.le(V.add(N, V.floor_real(ctx, a)), p))
        return V.Or(pos, neg)
    Xz = SArr(Xs.shape, lambda ix: V.Ite(zero_region(ix), Cx(0, 0), Cx.of(Xs.elem(ix))), Xs.dtype, Xs.backend)
    Xi = c.interp.stubs.fftshift(ctx, Xz, (0,), True)
    Y = opaque_op(ctx, "ifft", Xi, 0)
    return construct(c, g.cls, Y, g.attrs())


FSHIFT_CONFIGS = [
    ("scalar,S=(2,)", "BasebandSignal", 0, {1: 2}, ("scalar",)),
    ("scalar,S=(1,)", "BasebandSignal", 0, {1: 1}, ("scalar",)),
    ("scalar,S=(2,2)", "DualPolarizationSignal", 0, {1: 2}, ("scalar",)),
    ("arr(2),S=(2,)", "BasebandSignal", 0, {1: 2}, ("array", (2,))),
    ("arr(1),S=(3,)", "BasebandSignal", 0, {1: 3}, ("array", (1,))),
    ("arr(2),S=(2,2)", "DualPolarizationSignal", 0, {1: 2}, ("array", (2,))),
    ("arr(2,1),S=(2,2)", "DualPolarizationSignal", 0, {1: 2}, ("array", (2, 1))),
    ("arr(1,2),S=(3,2)", "DualPolarizationSignal", 0, {1: 3}, ("array", (1, 2))),
    ("arr(2,2),S=(2,2)", "DualPolarizationSignal", 0, {1: 2}, ("array", (2, 2))),
    ("arr(2,2),rank-too-many", "BasebandSignal", 0, {1: 2}, ("array", (2, 2))),
    ("not-baseband", "IntensitySignal", 0, {1: 2}, ("scalar",)),
    ("wrong-unit", "BasebandSignal", 0, {1: 2}, ("wrong-unit",)),
    ("plain-number", "BasebandSignal", 0, {1: 2}, ("number",)),
]


def inst_freq_shift():
    out = []
    for label, cls, extra, dims, sb in FSHIFT_CONFIGS:
        for dt, be in (("complex128", "numpy"), ("complex64", "numpy"), ("complex128", "dask")):
            def build(interp, ctx, nm, cls=cls, extra=extra, dims=dims, sb=sb, dt=dt, be=be):
                d = dt if cls != "IntensitySignal" else "float64"
                z = mk_signal(interp, ctx, "z", cls, extra_rank=extra, dims=dims, dtype=d, backend=be, min_len=1, align="bottom", nm=nm)
                U = interp.stubs.units
                if sb[0] == "scalar":
                    sh = Qty(nm.real("df", 137), FREQ_DIM, U["Hz"])
                elif sb[0] == "array":
                    sh = Qty(sym_array("df", sb[1], "float64", nm=nm, scale=400), FREQ_DIM, U["Hz"])
                elif sb[0] == "wrong-unit":
                    sh = Qty(nm.real("df", 1), TIME_DIM, U["s"])
                else:
                    sh = nm.real("df", 1)
                return (z, sh), {}
            out.append(Instance(f"{label},{cls},{dt},{be}", build))
    # any channel count (one sample axis of symbolic extent): the element loop of the code is summarised
    for kind in ("scalar", "array-full", "array-one"):
        def build(interp, ctx, nm, kind=kind):
            z = mk_signal(interp, ctx, "z", "BasebandSignal", dtype="complex128", min_len=1, align="bottom", nm=nm)
            U = interp.stubs.units
            S1 = z.ghost["data"].shape[1]
            if kind == "scalar":
                sh = Qty(nm.real("df", 137), FREQ_DIM, U["Hz"])
            else:
                sh = Qty(sym_array("df", (S1,) if kind == "array-full" else (1,), "float64", nm=nm, scale=400), FREQ_DIM, U["Hz"])
            return (z, sh), {}
        inst = Instance(f"{kind},S=(any,),BasebandSignal,complex128,numpy", build)
        inst.generalisation = True
        out.append(inst)
    return out


CONTRACTS.append(Contract("pulsarbat.transforms.transforms.freq_shift", spec_freq_shift, inst_freq_shift(), props={"C04": None, "C09": None}))


# --------------------------------------------------------------------------- snippet (C12, C01)

def spec_snippet(c, z, t, n):
    """C12: n samples starting exactly at t (count / duration / absolute Time): whole-sample t is
    the plain slice z[t:t+n]; otherwise the band-limited shift by the fractional offset; any
    request outside [0, len] or a Time without start time raises ValueError."""
    ctx = c.ctx
    g = c.view(z)
    if not V.is_intlike(n) and not isinstance(n, bool):
        raise PyExc("TypeError", "n must be an integer")
    c.raise_if(V.lt(n, 0), "ValueError", "n must be non-negative")
    if isinstance(t, STime):
        if g.t0 is None:
            raise PyExc("ValueError", "t is a Time but the signal has no start time")
        ts = V.mul(V.sub(t.sec, g.t0.sec), g.sr.val)
    elif isinstance(t, Qty):
        if t.dim != TIME_DIM:
            raise PyExc("UnitConversionError", "t must have units of time")
        ts = V.mul(t.val, g.sr.val)
    else:
        ts = t
    raise_any(c, [(V.lt(ts, 0), "ValueError"), (V.lt(g.N, V.add(ts, n)), "ValueError")])
    i = V.floor_real(ctx, ts) if not V.is_intlike(ts) else ts
    if not c.branch(V.lt(i, ts), "fractional start"):
        sl = SSlice(i, V.add(i, n), None)
        attrs = g.attrs()
        if g.t0 is not None:
            attrs["start_time"] = time_plus(c, g.t0, V.div(ctx, i, g.sr.val))
        return construct(c, g.cls, A.getitem(ctx, g.data, sl), attrs)
    B = spec_time_shift(c, z, V.sub(i, ts), True)
    if isinstance(B, Obj):       # |i - ts| <= 1e-8: time_shift returns the signal itself
        Bdata = g.data
    else:
        Bdata = B.data
    attrs = g.attrs()
    if g.t0 is not None:
        attrs["start_time"] = time_plus(c, g.t0, V.div(ctx, ts, g.sr.val))
    return construct(c, g.cls, A.getitem(ctx, Bdata, SSlice(i, V.add(i, n), None)), attrs)


def snippet_theorems(c, result, z, t, n):
    ctx = c.ctx
    g = c.view(z)
    if not isinstance(result, Obj):
        return
    r = c.view(result)
    ctx.oblige("thm.C12.length-is-n", V.eq(r.N, n), "post")
    if g.t0 is not None and r.t0 is not None:
        if isinstance(t, STime):
            want = t.sec
        elif isinstance(t, Qty):
            want = V.add(g.t0.sec, t.val)
        else:
            want = V.add(g.t0.sec, V.div(ctx, t, g.sr.val))
        ctx.oblige("thm.C12.start-is-t", V.eq(r.t0.sec, want), "post")
    else:
        ctx.oblige("thm.C12.no-start-acquired", (g.t0 is None) == (r.t0 is None), "post")


def inst_snippet():
    out = []
    for cls, extra, dims in (("Signal", 0, {}), ("BasebandSignal", 0, {1: 2}), ("DualPolarizationSignal", 0, {1: 2})):
        for has_t0 in (True, False):
            for tform in ("int", "float", "quantity", "time"):
                def build(interp, ctx, nm, cls=cls, extra=extra, dims=dims, has_t0=has_t0, tform=tform):
                    z = mk_signal(interp, ctx, "z", cls, extra_rank=extra, dims=dims, has_t0=has_t0, min_len=1, nm=nm)
                    U = interp.stubs.units
                    n = nm.int("n")
                    sr = z.ghost["sr"].val
                    if tform == "int":
                        t = nm.int("t_i")
                    elif tform == "float":
                        t = nm.real("t_s")
                    elif tform == "quantity":
                        t = Qty(V.div(ctx, nm.real("t_s"), sr), TIME_DIM, U["s"])
                    else:
                        t = STime(V.add(z.ghost["t0"].sec if has_t0 else 0, V.div(ctx, nm.real("t_s"), sr)))
                    return (z, t, n), {}
                out.append(Instance(f"{cls},t0={int(has_t0)},t={tform}", build))
    # a duration in ms against a rate in kHz: the product of the display values is not the sample count
    def build(interp, ctx, nm):
        z = mk_signal(interp, ctx, "z", "Signal", has_t0=True, min_len=1, nm=nm, sr_unit="kHz")
        U = interp.stubs.units
        return (z, Qty(V.div(ctx, nm.real("t_s"), z.ghost["sr"].val), TIME_DIM, U["us"]), nm.int("n")), {}
    out.append(Instance("Signal,t0=1,t=quantity-us,rate-kHz", build))
    return out


_sn = Contract("pulsarbat.transforms.transforms.snippet", spec_snippet, inst_snippet(), props={"C12": None, "C01": TIME_PARTS})
_sn.theorems = snippet_theorems


def _snippet_tol(label, used):
    """An absolute Time resolves the start only to ~1e-10 s (two-double JD): 'the same result up
    to time resolution' -> the fractional offset, hence the interpolated data, may differ by
    sample_rate * 1e-10 samples."""
    from pyvc.concrete import Tol
    if "t=time" in label:
        sr = float(used.get("z_sr", 1))
        return Tol(data_abs=1e-5 + 20 * sr * 1e-10, time_s=2e-10)
    return None


_sn.tol_fn = _snippet_tol


def _snippet_skip(label, used):
    """With an absolute Time the request is only known to ~1e-10 s: requests exactly on the
    bounds (t = 0 or t + n = len) may legitimately fall on either side."""
    if "t=time" in label and "t_s" in used:
        ts, n, N = Fraction(used["t_s"]), int(used.get("n", 0)), int(used.get("z_N", 0))
        return ts == 0 or ts + n == N
    return False


# Requests exactly on a bound given as a Time are the known finding KF-C12-1; they are probed deterministically
# by props/c12.py (where any *other* failure of a bound request is still a violation), so the seeded draws of
# this layer leave them out instead of hitting the finding on some seeds and not on others.
_sn.skip_fn = _snippet_skip
CONTRACTS.append(_sn)


# --------------------------------------------------------------------------- concatenate (C10)
ISCLOSE_RTOL = Fraction(1, 10 ** 5)
ZONE_ACCEPT_INV = 10 ** 6          # "fits": off by at most 1e-6 of a sample / channel (rounded doubles)
REJECT = ("ValueError", "TypeError")


def _absv(x):
    return V.Ite(V.le(0, x), x, V.neg(x))


def u_isclose(a, b):
    """astropy.units.isclose default: |a - b| <= 1e-5 * |b|."""
    return V.le(_absv(V.sub(a, b)), V.mul(ISCLOSE_RTOL, _absv(b)))


def spec_concatenate(c, signals, axis=0):
    """C10: joins contiguous pieces (time: each started piece starts where the previous samples
    end, within Time resolution; frequency: adjacent labels one chan_bw apart; other axes: equal
    start and labels); anything else is rejected with an error.  Result: concatenated data,
    start of the first sample (None if no piece has one), attributes of piece 0, labels of the
    joined band."""
    ctx = c.ctx
    if not isinstance(signals, (list, tuple)):
        raise PyExc(REJECT, "sequence expected")
    if len(signals) == 0:
        raise PyExc("ValueError", "need at least one signal")
    if not all(isinstance(s, Obj) and s.cls.is_subclass(clsinfo(c, "Signal")) for s in signals):
        raise PyExc(REJECT, "signals must be Signal objects")
    cls = signals[0].cls
    if not all(s.cls is cls for s in signals):
        raise PyExc("TypeError", "all signals must have the same type")
    gs = [c.view(s) for s in signals]
    g0 = gs[0]
    radio = g0.is_a("RadioSignal")
    time_axis = (axis == 0 and not isinstance(axis, bool)) or axis == "time"
    freq_axis = radio and ((axis == 1 and not isinstance(axis, bool)) or axis == "freq")
    if axis == "freq" and not radio:
        raise PyExc(REJECT, "frequency axis needs radio signals")
    # The statement fixes two zones for every comparison of metadata between pieces: a piece whose time /
    # frequency / sample-rate metadata is off by at least one sample or one channel MUST be rejected; pieces
    # that fit (exactly, in real arithmetic; within ZONE_ACCEPT of a sample / channel for rounded doubles) MUST
    # be joined.  In between the statement is silent ("ANY").  The tolerances the code happens to use
    # (astropy's relative 1e-5, Time.isclose's 2 ulp of a day) are not part of the contract.
    def zone(reject, accept, why, case=None):
        if c.branch(reject, f"must reject: {why}"):
            if case:
                c.tag(case)
            raise PyExc(REJECT, why)
        if not c.branch(accept, f"must accept: {why}"):
            raise PyExc("ANY", f"between fitting and off by one sample/channel: {why}")

    for g in gs[1:]:
        # a rate mismatch that accumulates to a sample over the piece is a perturbation by one sample
        drift = V.mul(_absv(V.sub(g.sr.val, g0.sr.val)), g.N)
        coarse = V.Not(u_isclose(g0.sr.val, g.sr.val))
        if c.branch(coarse, "sample rates differ by more than 1e-5"):
            raise PyExc(REJECT, "sample rates differ")
        zone(V.le(g0.sr.val, drift), V.le(V.mul(drift, ZONE_ACCEPT_INV), g0.sr.val), "sample rates differ", case="rate-or-bandwidth-mismatch-below-1e-5")
    ref = None
    nd0 = gs[0].data.ndim
    if isinstance(axis, int) and not isinstance(axis, bool) and axis < 0:
        axis = axis + nd0          # NumPy's meaning of a negative axis
        time_axis = axis == 0
        freq_axis = radio and axis == 1
    if time_axis:
        n = 0
        for g in gs:
            if g.t0 is not None:
                if ref is None:
                    ref = V.sub(g.t0.sec, V.div(ctx, n, g0.sr.val))
                else:
                    gap = _absv(V.sub(V.add(ref, V.div(ctx, n, g0.sr.val)), g.t0.sec))
                    zone(V.And(V.le(1, V.mul(gap, g0.sr.val)), V.lt(TAU_T, gap)), V.And(V.le(gap, TAU_T), V.le(V.mul(V.mul(gap, g0.sr.val), ZONE_ACCEPT_INV), 1)), "not contiguous in time")
            n = V.add(n, g.N)
        ax = 0
    else:
        for g in gs:
            if g.t0 is not None:
                if ref is None:
                    ref = g.t0.sec
                else:
                    gap = _absv(V.sub(ref, g.t0.sec))
                    zone(V.And(V.le(1, V.mul(gap, g0.sr.val)), V.lt(TAU_T, gap)), V.And(V.le(gap, TAU_T), V.le(V.mul(V.mul(gap, g0.sr.val), ZONE_ACCEPT_INV), 1)), "different start times")
        ax = 1 if freq_axis else axis
        if not isinstance(ax, int) or isinstance(ax, bool):
            raise PyExc(REJECT, "bad axis")
    attrs = g0.attrs()
    attrs["start_time"] = None if ref is None else STime(V.simp(ref), "isot", 9)
    if radio:
        for g in gs[1:]:
            coarse = V.Not(u_isclose(g0.bw.val, g.bw.val))
            if c.branch(coarse, "chan_bw differ by more than 1e-5"):
                raise PyExc(REJECT, "chan_bw differ")
            spread = V.mul(_absv(V.sub(g.bw.val, g0.bw.val)), g.nchan)
            zone(V.le(g0.bw.val, spread), V.le(V.mul(spread, ZONE_ACCEPT_INV), g0.bw.val), "chan_bw differ", case="rate-or-bandwidth-mismatch-below-1e-5")
        if freq_axis:
            for x, y in zip(gs, gs[1:]):
                d = V.sub(label(c, y, 0), label(c, x, V.sub(x.nchan, 1)))
                off = _absv(V.sub(d, g0.bw.val))
                zone(V.le(g0.bw.val, off), V.le(V.mul(off, ZONE_ACCEPT_INV), g0.bw.val), "not contiguous in frequency")
            f0, f1 = label(c, gs[0], 0), label(c, gs[-1], V.sub(gs[-1].nchan, 1))
        else:
            for g in gs[1:]:
                c.raise_if(V.ne(g.nchan, g0.nchan), REJECT, "channel counts differ")
                # labels of same-count pieces with (nearly) equal chan_bw differ by (nearly) the same amount in
                # every channel; the largest difference is at one of the two ends
                d_lo = _absv(V.sub(label(c, g, 0), label(c, g0, 0)))
                d_hi = _absv(V.sub(label(c, g, V.sub(g0.nchan, 1)), label(c, g0, V.sub(g0.nchan, 1))))
                worst = V.vmax(d_lo, d_hi)
                zone(V.le(g0.bw.val, worst), V.le(V.mul(worst, ZONE_ACCEPT_INV), g0.bw.val), "different frequency channels")
            f0, f1 = label(c, g0, 0), label(c, g0, V.sub(g0.nchan, 1))
        attrs["center_freq"] = Qty(V.div(ctx, V.add(f0, f1), 2), FREQ_DIM, g0.cf.unit)
        attrs["freq_align"] = "center"
    arrs = [g.data for g in gs]
    nd = arrs[0].ndim
    if any(a.ndim != nd for a in arrs) or not (-nd <= ax < nd):
        raise PyExc(REJECT, "dimension mismatch")
    axn = ax % nd
    for a in arrs[1:]:
        for k in range(nd):
            if k != axn:
                c.raise_if(V.ne(a.shape[k], arrs[0].shape[k]), REJECT, "shape mismatch off the concatenation axis")
    data = A.concatenate(ctx, arrs, axn)
    return construct(c, cls, data, attrs)


def inst_concat():
    out = []
    cfgs = []
    for cls in ("Signal", "RadioSignal", "BasebandSignal"):
        axes = [0, "time", 1, -2] if cls == "Signal" else [0, 1, "freq", 2, -3, -2]
        for axis in axes:
            for npieces, t0pat in ((1, "1"), (2, "11"), (2, "00"), (2, "01"), (2, "10"), (3, "111"), (3, "101"), (3, "011")):
                if axis not in (0,) and npieces == 3 and t0pat != "111":
                    continue
                if isinstance(axis, int) and axis < 0 and (npieces, t0pat) not in ((2, "11"), (2, "01")):
                    continue
                cfgs.append((cls, axis, npieces, t0pat))
    for cls, axis, npieces, t0pat in cfgs:
        def build(interp, ctx, nm, cls=cls, axis=axis, npieces=npieces, t0pat=t0pat):
            extra = 1
            sigs = [mk_signal(interp, ctx, f"p{k}", cls, extra_rank=extra, has_t0=(t0pat[k] == "1"), align=("bottom", "center", "top")[k % 3], nm=nm)
                    for k in range(npieces)]
            return (sigs,), {"axis": axis}
        inst = Instance(f"{cls},axis={axis},pieces={npieces},t0={t0pat}", build)
        if npieces == 3 and not (cls == "Signal" and axis == 0):
            inst.tier = "thorough"      # three radio pieces: ~10x the paths of two; every clause is already exercised with two
        out.append(inst)
    # rejected argument kinds
    def build(interp, ctx, nm):
        return ([],), {}
    out.append(Instance("empty", build))
    def build(interp, ctx, nm):
        return ([mk_signal(interp, ctx, "p0", "RadioSignal", nm=nm), mk_signal(interp, ctx, "p1", "IntensitySignal", nm=nm)],), {}
    out.append(Instance("mixed-types", build))
    def build(interp, ctx, nm):
        return ([mk_signal(interp, ctx, "p0", "Signal", extra_rank=1, nm=nm), mk_signal(interp, ctx, "p1", "Signal", extra_rank=1, nm=nm)],), {"axis": "freq"}
    out.append(Instance("freq-axis-non-radio", build))
    def build(interp, ctx, nm):
        return ([sym_array("notsig", (3,), "float64", nm=nm)],), {}
    out.append(Instance("not-a-signal", build))
    return out


_cc = Contract("pulsarbat.transforms.transforms.concatenate", spec_concatenate, inst_concat(), props={"C10": None})
CONTRACTS.append(_cc)


# --------------------------------------------------------------------------- C10 lemmas: split then concatenate
from contracts.core import M


def lemma(name, body, spec, instances, props, real=None):
    ct = Contract(f"lemma.{name}", spec, instances, props=props, body=body)
    ct.real_call = real
    CONTRACTS.append(ct)
    return ct


def _call_concat(interp, ctx, pieces, axis):
    fv = interp.funcval_for("pulsarbat.transforms.transforms.concatenate")
    return interp.call_function(fv, (pieces,), {"axis": axis}, ctx)


def _split_time_body(drop):
    def body(interp, ctx, a, k):
        z, c1, c2 = a
        pieces = [M(interp, ctx, z, "__getitem__", SSlice(None, c1, None)),
                  M(interp, ctx, z, "__getitem__", SSlice(c1, c2, None)),
                  M(interp, ctx, z, "__getitem__", SSlice(c2, None, None))]
        for j in drop:     # pieces lacking a start time
            pieces[j] = interp.call(interp.get_attr(ClassRefOf(pieces[j]), "like", ctx), (pieces[j],), {"start_time": None}, ctx)
        return _call_concat(interp, ctx, pieces, 0)
    return body


def ClassRefOf(obj):
    from pyvc.interp import ClassRef
    return ClassRef(obj.cls)


def _split_time_real(drop):
    def real(pb, a, k):
        z, c1, c2 = a
        pieces = [z[:c1], z[c1:c2], z[c2:]]
        for j in drop:
            pieces[j] = type(z).like(pieces[j], start_time=None)
        return pb.concatenate(pieces, axis=0)
    return real


def _spec_identity(keep_t0):
    def spec(c, z, c1, c2):
        """splitting at 0 <= c1 <= c2 <= N and concatenating reproduces data, start, rate, labels."""
        g = c.view(z)
        attrs = g.attrs()
        if not keep_t0:
            attrs["start_time"] = None
        return construct(c, g.cls, g.data, attrs)
    return spec


def inst_split(classes, axis_len_name="z_N", freq=False):
    out = []
    for cls in classes:
        for al in (("center",) if not freq else ("bottom", "center", "top")):
            def build(interp, ctx, nm, cls=cls, al=al):
                z = mk_signal(interp, ctx, "z", cls, extra_rank=0 if cls != "Signal" else 1, align=al, nm=nm)
                L = z.ghost["data"].shape[1 if freq else 0]
                c1, c2 = nm.int("c1"), nm.int("c2")
                ctx.assume(V.And(V.le(0 if not freq else 1, c1), V.le(c1, c2) if not freq else V.lt(c1, c2), V.le(c2, L) if not freq else V.lt(c2, L)), why="cut points")
                return (z, c1, c2), {}
            out.append(Instance(f"{cls},align={al}", build))
    return out


lemma("C10.split-concat-time", _split_time_body(()), _spec_identity(True), inst_split(["Signal", "RadioSignal", "BasebandSignal"]), ("C10",), real=_split_time_real(()))
lemma("C10.split-concat-time.middle-start-missing", _split_time_body((1,)), _spec_identity(True), inst_split(["Signal", "BasebandSignal"]), ("C10",), real=_split_time_real((1,)))
lemma("C10.split-concat-time.no-starts", _split_time_body((0, 1, 2)), _spec_identity(False), inst_split(["RadioSignal"]), ("C10",), real=_split_time_real((0, 1, 2)))


def _split_freq_body(interp, ctx, a, k):
    z, c1, c2 = a
    full = SSlice(None, None, None)
    pieces = [M(interp, ctx, z, "__getitem__", (full, SSlice(None, c1, None))),
              M(interp, ctx, z, "__getitem__", (full, SSlice(c1, c2, None))),
              M(interp, ctx, z, "__getitem__", (full, SSlice(c2, None, None)))]
    return _call_concat(interp, ctx, pieces, "freq")


lemma("C10.split-concat-freq", _split_freq_body, _spec_identity(True), inst_split(["RadioSignal", "BasebandSignal", "FullStokesSignal"], freq=True), ("C10",),
      real=lambda pb, a, k: pb.concatenate([a[0][:, :a[1]], a[0][:, a[1]:a[2]], a[0][:, a[2]:]], axis="freq"))


# a piece displaced by at least one sample (or one channel) is rejected
def _shifted_time_body(interp, ctx, a, k):
    z, c1, delta = a
    p0 = M(interp, ctx, z, "__getitem__", SSlice(None, c1, None))
    p1 = M(interp, ctx, z, "__getitem__", SSlice(c1, None, None))
    t1 = interp.get_attr(p1, "start_time", ctx)
    p1 = interp.call(interp.get_attr(ClassRefOf(p1), "like", ctx), (p1,), {"start_time": STime(V.add(t1.sec, delta))}, ctx)
    return _call_concat(interp, ctx, [p0, p1], 0)


def _spec_reject(c, z, c1, delta):
    raise PyExc(REJECT, "displaced piece must be rejected")


def inst_shifted():
    out = []
    for cls in ("Signal", "BasebandSignal"):
        def build(interp, ctx, nm, cls=cls):
            z = mk_signal(interp, ctx, "z", cls, extra_rank=0 if cls != "Signal" else 1, nm=nm)
            sr = z.ghost["sr"].val
            c1 = nm.int("c1", 2)
            delta = nm.real("delta", 1)
            ctx.assume(V.And(V.le(0, c1), V.le(c1, z.ghost["data"].shape[0])), why="cut point")
            # displaced by at least one sample either way; one sample is longer than Time's resolution (sr < 26 GHz)
            ctx.assume(V.And(V.le(1, V.mul(_absv(delta), sr)), V.lt(V.mul(TAU_T, sr), 1)), why="perturbation of at least one sample")
            return (z, c1, delta), {}
        out.append(Instance(cls, build))
    return out


def _shifted_real(pb, a, k):
    import astropy.units as u
    z, c1, delta = a
    p0, p1 = z[:c1], z[c1:]
    p1 = type(z).like(p1, start_time=p1.start_time + float(delta) * u.s)
    return pb.concatenate([p0, p1], axis=0)


lemma("C10.displaced-piece-rejected", _shifted_time_body, _spec_reject, inst_shifted(), ("C10",), real=_shifted_real)


# --------------------------------------------------------------------------- signal_transform (C09, C16)
from pyvc.interp import Stub as _Stub, ClassRef as _ClassRef


def _array_func():
    """An arbitrary array function F(x, **kwargs): uninterpreted, same result for equal inputs."""
    def F(ctx, x, **kw):
        return ctx_interp[0].stubs.opaque_generic(ctx, "userfunc", x, (), kw)
    return _Stub(F, "userfunc")


ctx_interp = [None]


def _st_body(interp, ctx, a, k):
    ctx_interp[0] = interp
    z, F = a
    deco = interp.funcval_for("pulsarbat.transforms.transforms.signal_transform")
    wrapper = interp.call_function(deco, (F,), {}, ctx)
    return interp.call(wrapper, (z,), dict(k), ctx)


def spec_signal_transform(c, z, F, signal_type=None, signal_kwargs=None, dask_kwargs=None, **kwargs):
    """func applied to the data (block-wise and lazily for Dask data), wrapped like the input signal
    (or as signal_type with signal_kwargs overriding attributes)."""
    ctx_interp[0] = c.interp
    g = c.view(z)
    cls = g.cls if signal_type is None else signal_type
    if signal_type is not None:
        if not isinstance(signal_type, _ClassRef):
            raise PyExc("TypeError", "signal_type must be a class")
        if not signal_type.ci.is_subclass(clsinfo(c, "Signal")):
            raise PyExc("TypeError", "Signal type must be a subclass of pulsarbat.Signal")
        cls = signal_type.ci
    d = g.data
    r = c.interp.call(F, (SArr(d.shape, d.elem, d.dtype, "numpy"),), dict(kwargs), c.ctx)
    r = SArr(r.shape, r.elem, r.dtype, d.backend)
    from contracts.core import spec_like_core
    return spec_like_core(c, cls, z, r, dict(signal_kwargs or {}))


def inst_signal_transform():
    out = []
    for cls in ("Signal", "BasebandSignal"):
        for be in ("numpy", "dask"):
            for variant in ("plain", "kwargs", "signal_type", "signal_kwargs", "bad-signal-type"):
                def build(interp, ctx, nm, cls=cls, be=be, variant=variant):
                    z = mk_signal(interp, ctx, "z", cls, backend=be, nm=nm)
                    kw = {}
                    if variant == "kwargs":
                        kw["size"] = 5
                    if variant == "signal_type":
                        kw["signal_type"] = _ClassRef(interp.repo.get_class("pulsarbat.core.Signal"))
                    if variant == "signal_kwargs":
                        kw["signal_kwargs"] = {"start_time": None}
                    if variant == "bad-signal-type":
                        kw["signal_type"] = interp.stubs.types["dict"]
                    return (z, _array_func()), kw
                out.append(Instance(f"{cls},{be},{variant}", build))
    return out


_stc = Contract("pulsarbat.transforms.transforms.signal_transform", spec_signal_transform, inst_signal_transform(), props=("C09", "C16"), body=_st_body)
_stc.no_bounded = True
CONTRACTS.append(_stc)


# --------------------------------------------------------------------------- more lemmas: grouping (C10), pipelines of crops (C01)

def _grouped_body(left):
    def body(interp, ctx, a, k):
        z, c1, c2 = a
        p = [M(interp, ctx, z, "__getitem__", SSlice(None, c1, None)), M(interp, ctx, z, "__getitem__", SSlice(c1, c2, None)),
             M(interp, ctx, z, "__getitem__", SSlice(c2, None, None))]
        if left:
            return _call_concat(interp, ctx, [_call_concat(interp, ctx, p[:2], 0), p[2]], 0)
        return _call_concat(interp, ctx, [p[0], _call_concat(interp, ctx, p[1:], 0)], "time")
    return body


lemma("C10.grouping-left", _grouped_body(True), _spec_identity(True), inst_split(["Signal", "BasebandSignal"]), ("C10",),
      real=lambda pb, a, k: pb.concatenate([pb.concatenate([a[0][:a[1]], a[0][a[1]:a[2]]]), a[0][a[2]:]]))
lemma("C10.grouping-right", _grouped_body(False), _spec_identity(True), inst_split(["Signal", "RadioSignal"]), ("C10",),
      real=lambda pb, a, k: pb.concatenate([a[0][:a[1]], pb.concatenate([a[0][a[1]:a[2]], a[0][a[2]:]])], axis="time"))


def _pipeline_body(interp, ctx, a, k):
    z, s1, s2 = a
    y = M(interp, ctx, z, "__getitem__", s1)
    y = interp.call(interp.funcval_for("pulsarbat.transforms.transforms.fast_len"), (y,), {}, ctx)
    return M(interp, ctx, y, "__getitem__", s2)


class PipelineLedger:
    """every sample retained by slice -> fast_len -> slice carries the absolute time of the input sample
    it was taken from; the rate is divided by the product of the steps; stop = start + len/rate."""

    def __init__(self, c, z, s1, s2):
        self.c, self.z, self.s1, self.s2 = c, z, s1, s2

    def compare_to(self, interp, ctx, name, got):
        c = self.c
        g = c.view(self.z)
        if not isinstance(got, Obj):
            ctx.oblige(f"{name}.is-signal", False, "post")
            return
        r = c.view(got)
        a1, b1, st1 = A.slice_adjust(ctx, self.s1, g.N)
        L1 = A.slice_len(ctx, a1, b1, st1)
        L2 = c.call("pulsarbat.utils.prev_fast_len", L1)
        a2, b2, st2 = A.slice_adjust(ctx, self.s2, L2)
        ctx.oblige(f"{name}.type", got.cls is self.z.cls, "post")
        ctx.oblige(f"{name}.rate", V.eq(V.mul(r.sr.val, V.mul(st1, st2)), g.sr.val), "post")
        ctx.oblige(f"{name}.length", V.eq(r.N, A.slice_len(ctx, a2, b2, st2)), "post")
        if g.t0 is None:
            ctx.oblige(f"{name}.no-start-acquired", r.t0 is None, "post")
            return
        if r.t0 is None:
            ctx.oblige(f"{name}.start-kept", False, "post")
            return

        def at(k):
            src = V.add(a1, V.mul(st1, V.add(a2, V.mul(st2, k))))
            ctx.oblige(f"{name}.sample-time", V.eq(V.add(r.t0.sec, V.div(ctx, k, r.sr.val)), V.add(g.t0.sec, V.div(ctx, src, g.sr.val))), "post")
            ix = (k,) + tuple(0 for _ in r.data.shape[1:])
            sx = (src,) + tuple(0 for _ in r.data.shape[1:])
            ge, we = r.data.elem(ix), g.data.elem(sx)
            ctx.oblige(f"{name}.sample-value", V.ceq(ge, we) if isinstance(ge, Cx) or isinstance(we, Cx) else V.eq(ge, we), "post")
        c.forall_int("k", 0, r.N, at)

    def compare_concrete(self, got, where, out, pb):
        pass


def _spec_pipeline(c, z, s1, s2):
    g = c.view(z)
    a1, b1, st1 = A.slice_adjust(c.ctx, s1, g.N)
    c.raise_if(V.lt(st1, 0), "AssertionError", "negative step")
    L1 = A.slice_len(c.ctx, a1, b1, st1)
    L2 = c.call("pulsarbat.utils.prev_fast_len", L1)
    a2, b2, st2 = A.slice_adjust(c.ctx, s2, L2)
    c.raise_if(V.lt(st2, 0), "AssertionError", "negative step")
    return PipelineLedger(c, z, s1, s2)


def inst_pipeline():
    from contracts.core import sym_slice
    out = []
    for cls in ("Signal", "BasebandSignal"):
        for has_t0 in (True, False):
            for p1, p2 in (("sss", "sss"), ("snn", "nss"), ("nsn", "sns")):
                def build(interp, ctx, nm, cls=cls, has_t0=has_t0, p1=p1, p2=p2):
                    z = mk_signal(interp, ctx, "z", cls, has_t0=has_t0, nm=nm)
                    return (z, sym_slice(nm, "ix", p1), sym_slice(nm, "jx", p2)), {}
                out.append(Instance(f"{cls},t0={int(has_t0)},{p1},{p2}", build))
    return out


_pl = lemma("C01.pipeline.slice-fast_len-slice", _pipeline_body, _spec_pipeline, inst_pipeline(), ("C01",),
            real=lambda pb, a, k: pb.fast_len(a[0][a[1]])[a[2]])
_pl.no_bounded = True
