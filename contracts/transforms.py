"""Sidecar contracts for pulsarbat/transforms/transforms.py."""
from __future__ import annotations
from fractions import Fraction
import z3
from pyvc import values as V
from pyvc import arrays as A
from pyvc.values import SArr, Qty, STime, PyExc, Cx, DType, SSlice, is_sym, Obj
from pyvc.contract import Contract, Instance, ASig
from pyvc.sigmodel import mk_signal, SIGNAL_CLASSES, sym_array
from pyvc.speclib import raise_any, qdiv, time_plus, clsinfo, construct, label, like_attrs
from pyvc.stubs_lib import FREQ_DIM, TIME_DIM, TAU_T
from contracts.core import inst_sig, getitem_theorems, TIME_PARTS, NO_THM

CONTRACTS = []
SETUP = []


def contract(qualname, instances, props=(), body=None):
    def deco(spec):
        CONTRACTS.append(Contract(qualname, spec, instances, props, doc=spec.__doc__ or "", body=body))
        return spec
    return deco


# --------------------------------------------------------------------------- fast_len (C01, C18)

def inst_fast_len():
    out = []
    for cls in SIGNAL_CLASSES:
        for has_t0 in (True, False):
            def build(interp, ctx, nm, cls=cls, has_t0=has_t0):
                return (mk_signal(interp, ctx, "z", cls, has_t0=has_t0, nm=nm),), {}
            out.append(Instance(f"{cls},t0={int(has_t0)}", build))
    return out


@contract("pulsarbat.transforms.transforms.fast_len", inst_fast_len(), props={"C01": None, "C18": None})
def spec_fast_len(c, z):
    """Crops from the end to exactly prev_fast_len(len) samples; retained samples and their
    timestamps untouched."""
    g = c.view(z)
    n = c.call("pulsarbat.utils.prev_fast_len", g.N)
    data = A.getitem(c.ctx, g.data, SSlice(None, n, None))
    return construct(c, g.cls, data, g.attrs())
