"""Sidecar contracts for pulsarbat/readers (C11, C09, C14).

BaseReader is abstract (its _read_array returns NotImplemented), so the harness defines a test
double in a synthetic module -- parsed by the same extractor and executed by the same interpreter --
whose _read_array returns rows of a symbolic array RAW.  The BasebandReader family is run
against a stub of baseband.open (fresh, independent stream reader over immutable content RAW)."""
from __future__ import annotations
from fractions import Fraction
import z3
from pyvc import values as V
from pyvc import arrays as A
from pyvc.values import SArr, Qty, STime, PyExc, Cx, DType, SSlice, is_sym, Obj
from pyvc.contract import Contract, Instance, ASig
from pyvc.extract import ModuleInfo
from pyvc.interp import ClassRef, Stub, NS
from pyvc.sigmodel import sym_array
from pyvc.speclib import construct, time_plus
from pyvc.stubs_lib import FREQ_DIM, TIME_DIM, TAU_T
from contracts.core import valid_kwargs, CTOR_PARAMS

CONTRACTS = []
SETUP = []
DOUBLE_SRC = '''
from pulsarbat.readers import BaseReader

class SymReader(BaseReader):
    """Test double: a reader over the symbolic array RAW."""

    def _read_array(self, offset, n, /, **kwargs):
        return RAW[offset : offset + n]
'''


def install_double(interp):
    repo = interp.repo
    if "verif_doubles" not in repo.modules:
        m = ModuleInfo("verif_doubles", "/verif/contracts/readers.py#DOUBLE_SRC", DOUBLE_SRC)
        repo.modules["verif_doubles"] = m
        ci = m.classes["SymReader"]
        ci.bases = [repo.get_class("pulsarbat.readers._base.BaseReader")]


SETUP.append(install_double)


def mk_reader(interp, ctx, nm, sigcls="Signal", has_t0=True, extra=1, dtype="float64"):
    from pyvc.sigmodel import REQ_RANK, FIXED_AX
    rank = REQ_RANK[sigcls] + (extra if sigcls == "Signal" else 0)
    shape = []
    for ax in range(rank):
        fx = FIXED_AX.get(sigcls, {}).get(ax)
        if fx is not None:
            shape.append(fx)
        else:
            d = nm.int("r_N" if ax == 0 else f"r_S{ax}")
            ctx.assume(V.le(0 if ax == 0 else 1, d), why="reader shape")
            shape.append(d)
    raw = sym_array("RAW", shape, dtype, nm=nm)
    interp.global_cache[("verif_doubles", "RAW")] = raw
    interp.repo.modules["verif_doubles"].globals["RAW"] = None
    sr = nm.real("r_sr", 1000)
    ctx.assume(V.lt(0, sr), why="reader sample rate")
    kw = {"shape": tuple(shape), "dtype": DType(dtype), "signal_type": ClassRef(interp.repo.get_class(f"pulsarbat.core.{sigcls}")),
          "sample_rate": Qty(sr, FREQ_DIM, interp.stubs.units["Hz"])}
    t0 = None
    if has_t0:
        t0 = STime(nm.real("r_t0", 5000), "isot", 9)
        kw["start_time"] = t0
    sk = {k: v for k, v in valid_kwargs(interp, ctx, nm, sigcls, prefix="r").items() if k != "sample_rate"}
    if "chan_bw" in sk:
        ctx.assume(V.lt(0, sk["chan_bw"].val), why="reader chan_bw > 0")
    kw.update(sk)
    cls = interp.repo.get_class("verif_doubles.SymReader")
    # the constructor itself calls read(0, 0): run the real bodies (no ghost record exists yet)
    names = {q for q in interp.contracts if q.startswith("pulsarbat.readers.")}
    added = names - interp.no_contract
    interp.no_contract |= names
    try:
        obj = interp.instantiate(cls, (), kw, ctx)
    except PyExc as e:
        from pyvc.ctx import Unsupported
        raise Unsupported(f"harness: BaseReader.__init__ rejected a well-formed reader: {e.kind} {e.msg}")
    finally:
        interp.no_contract -= added
    obj.ghost = {"raw": raw, "N": shape[0], "sr": kw["sample_rate"], "t0": t0, "sigcls": sigcls, "sigkw": sk, "data": raw}
    obj.is_reader = True
    return obj


def to_real_reader(obj, pb):
    """Concrete side: a real BaseReader subclass over the materialised RAW."""
    from pyvc.concrete import materialize, to_real
    import numpy as np
    g = obj.ghost
    raw = materialize(g["raw"])

    class RealSymReader(pb.readers.BaseReader):
        def _read_array(self, offset, n, /, **kwargs):
            return raw[offset: offset + n]
    kw = {k: to_real(v, pb) for k, v in g["sigkw"].items()}
    r = RealSymReader(shape=raw.shape, dtype=raw.dtype, signal_type=getattr(pb, g["sigcls"]), sample_rate=to_real(g["sr"], pb),
                      start_time=None if g["t0"] is None else to_real(g["t0"], pb), **kw)
    return r


def contract(qualname, instances, props=("C11",)):
    def deco(spec):
        ct = Contract(qualname, spec, instances, props)
        CONTRACTS.append(ct)
        return spec
    return deco


# hook the concrete conversion of reader objects
def _install_to_real(interp):
    from pyvc import concrete
    if getattr(concrete, "_reader_hook", False):
        return
    orig = concrete.to_real

    def to_real(v, pb):
        if isinstance(v, Obj) and getattr(v, "is_reader", False):
            if not hasattr(v, "_real"):
                v._real = to_real_reader(v, pb)
            return v._real
        return orig(v, pb)
    concrete.to_real = to_real
    concrete._reader_hook = True


SETUP.append(_install_to_real)
OOB = ("OutOfBoundsError", "EOFError")


def reader_instances(argbuilder, sigclasses=("Signal", "BasebandSignal", "FullStokesSignal"), t0s=(True, False)):
    out = []
    for sc in sigclasses:
        for has_t0 in t0s:
            def build(interp, ctx, nm, sc=sc, has_t0=has_t0):
                dt = {"Signal": "float64", "BasebandSignal": "complex64", "FullStokesSignal": "float32"}[sc]
                r = mk_reader(interp, ctx, nm, sc, has_t0, dtype=dt)
                a, k = argbuilder(interp, ctx, nm, r)
                return (r,) + tuple(a), k
            out.append(Instance(f"{sc},t0={int(has_t0)}", build))
    return out


def spec_time_at(c, self, offset, unit=None):
    """time_at(k) = start_time + k/sample_rate (None without a start); a relative Quantity with unit."""
    g = self.ghost
    rel = V.div(c.ctx, offset, g["sr"].val)
    if unit is not None:
        return Qty(rel, TIME_DIM)
    if g["t0"] is None:
        return None
    return time_plus(c, g["t0"], rel)


RB = "pulsarbat.readers._base.BaseReader"
CONTRACTS.append(Contract(f"{RB}.time_at", spec_time_at, reader_instances(lambda i, c, nm, r: ((nm.int("k", 3),), {})), ("C11",)))
CONTRACTS.append(Contract(f"{RB}.time_at#unit", spec_time_at,
                          reader_instances(lambda i, c, nm, r: ((nm.int("k", 3),), {"unit": i.stubs.units["ms"]}), sigclasses=("Signal",)), ("C11",),
                          body=lambda interp, ctx, a, k: interp.call(interp.get_attr(a[0], "time_at", ctx), a[1:], k, ctx)))
CONTRACTS[-1].real_call = lambda pb, a, k: a[0].time_at(*a[1:], **k)


def spec_stop_time(c, self):
    g = self.ghost
    if g["t0"] is None:
        return None
    return time_plus(c, g["t0"], V.div(c.ctx, g["N"], g["sr"].val))


CONTRACTS.append(Contract(f"{RB}.stop_time", spec_stop_time, reader_instances(lambda i, c, nm, r: ((), {}), sigclasses=("Signal",)), ("C11",)))


def spec_len(c, self):
    return self.ghost["N"]


CONTRACTS.append(Contract(f"{RB}.__len__", spec_len, reader_instances(lambda i, c, nm, r: ((), {}), sigclasses=("Signal", "BasebandSignal"), t0s=(True,)), ("C11",)))


def spec_offset_at(c, self, t):
    """nearest sample to the given absolute Time or relative duration; outside [0, len] raises."""
    ctx = c.ctx
    g = self.ghost
    if isinstance(t, STime):
        if g["t0"] is None:
            raise PyExc(("TypeError", "UnitConversionError", "ValueError", "AttributeError", "UnitTypeError"), "absolute time without a start time")
        x = V.mul(V.sub(t.sec, g["t0"].sec), g["sr"].val)
    elif isinstance(t, Qty) and t.dim == TIME_DIM:
        x = V.mul(t.val, g["sr"].val)
    else:
        raise PyExc(("TypeError", "UnitConversionError", "ValueError", "AttributeError", "UnitTypeError"), "t must be a Time or a duration")
    k = V.rint_real(ctx, x)
    c.raise_if(V.Or(V.lt(k, 0), V.lt(g["N"], k)), OOB, "out of bounds")
    return k


def inst_offset_at():
    out = []
    for tk in ("time", "quantity", "number"):
        for has_t0 in (True, False):
            def build(interp, ctx, nm, tk=tk, has_t0=has_t0):
                r = mk_reader(interp, ctx, nm, "Signal", has_t0)
                sr = r.ghost["sr"].val
                if tk == "time":
                    t = STime(V.add(r.ghost["t0"].sec if has_t0 else 0, V.div(ctx, nm.real("t_s"), sr)))
                elif tk == "quantity":
                    t = Qty(V.div(ctx, nm.real("t_s"), sr), TIME_DIM, interp.stubs.units["s"])
                else:
                    t = nm.real("t_s")
                return (r, t), {}
            out.append(Instance(f"t={tk},t0={int(has_t0)}", build))
    return out


_oa = Contract(f"{RB}.offset_at", spec_offset_at, inst_offset_at(), ("C11",))
CONTRACTS.append(_oa)


def _oa_skip(label, used):
    # exact half-sample requests round either way within Time/float resolution
    ts = Fraction(used.get("t_s", 0))
    return (ts * 2).denominator == 1 and ts.denominator != 1
_oa.skip_fn = _oa_skip


# offset_at(time_at(k)) = k for 0 <= k <= len, also through relative times (lemma over the two contracts)
def _inverse_body(interp, ctx, a, k):
    r, kk, rel = a
    t = interp.call(interp.get_attr(r, "time_at", ctx), (kk,), {"unit": interp.stubs.units["s"]} if rel else {}, ctx)
    return interp.call(interp.get_attr(r, "offset_at", ctx), (t,), {}, ctx)


def inst_inverse():
    out = []
    for rel in (False, True):
        def build(interp, ctx, nm, rel=rel):
            r = mk_reader(interp, ctx, nm, "Signal", True)
            kk = nm.int("k", 3)
            ctx.assume(V.And(V.le(0, kk), V.le(kk, r.ghost["N"])), why="0 <= k <= len")
            return (r, kk, rel), {}
        out.append(Instance(f"relative={int(rel)}", build))
    return out


_inv = Contract("lemma.C11.offset_at-inverts-time_at", lambda c, r, k, rel: k, inst_inverse(), ("C11",), body=_inverse_body)
_inv.real_call = lambda pb, a, k: a[0].offset_at(a[0].time_at(a[1], unit="s" if a[2] else None) if a[2] else a[0].time_at(a[1]))
CONTRACTS.append(_inv)


def spec_read(c, self, offset, n, **kwargs):
    """exactly n samples RAW[offset:offset+n] as signal_type with start_time = time_at(offset);
    negative arguments raise ValueError, requests beyond the end raise OutOfBoundsError; stateless."""
    ctx = c.ctx
    g = self.ghost
    for v in (offset, n):
        if not (V.is_intlike(v) or isinstance(v, bool)):
            raise PyExc("TypeError", "offset and n must be integers")
    c.raise_if(V.lt(offset, 0), "ValueError", "offset must be non-negative")
    c.raise_if(V.lt(n, 0), "ValueError", "n must be non-negative")
    c.raise_if(V.lt(g["N"], V.add(offset, n)), OOB, "cannot read beyond the end")
    data = A.getitem(ctx, g["raw"], SSlice(offset, V.add(offset, n), None))
    use_dask = kwargs.get("use_dask", False)
    data = SArr(data.shape, data.elem, data.dtype, "dask" if use_dask else "numpy")
    attrs = dict(g["sigkw"])
    attrs["sample_rate"] = g["sr"]
    attrs["start_time"] = None if g["t0"] is None else time_plus(c, g["t0"], V.div(ctx, offset, g["sr"].val))
    return construct(c, c.interp.repo.get_class(f"pulsarbat.core.{g['sigcls']}"), data, attrs)


def read_theorems(c, result, self, offset, n, **kwargs):
    if not isinstance(result, Obj):
        return
    r = c.view(result)
    c.ctx.oblige("thm.C11.exactly-n-samples", V.eq(r.N, n), "post")


_rd = Contract(f"{RB}.read", spec_read, reader_instances(lambda i, c, nm, r: ((nm.int("offset", 2), nm.int("n", 3)), {})), ("C11", "C14"))
_rd.theorems = read_theorems
CONTRACTS.append(_rd)
_rdd = Contract(f"{RB}.read#use_dask", spec_read, reader_instances(lambda i, c, nm, r: ((nm.int("offset", 2), nm.int("n", 3)), {"use_dask": True}), t0s=(True,)),
                ("C11", "C09"), body=lambda interp, ctx, a, k: interp.call(interp.get_attr(a[0], "read", ctx), a[1:], k, ctx))
_rdd.real_call = lambda pb, a, k: a[0].read(*a[1:], **k)
CONTRACTS.append(_rdd)


def spec_dask_read(c, self, offset, n, **kwargs):
    return spec_read(c, self, offset, n, use_dask=True, **kwargs)


CONTRACTS.append(Contract(f"{RB}.dask_read", spec_dask_read, reader_instances(lambda i, c, nm, r: ((nm.int("offset", 2), nm.int("n", 3)), {}), t0s=(True,)), ("C11", "C09")))


# --------------------------------------------------------------------------- BasebandReader family over a stub of baseband.open

class FakeHeader(dict):
    sideband = True


def install_baseband_stub(interp):
    """baseband.open(name, 'rs', **kw): a *fresh* stream reader over the immutable content registered
    under `name` (interp.files[name]); handles are independent of each other (assumed)."""
    interp.files = getattr(interp, "files", {})

    def open_(ctx, name, mode="rs", **kw):
        ctx.note("stub:baseband.open returns a fresh, independent stream reader over immutable file content")
        f = interp.files.get(name)
        if f is None:
            raise PyExc("FileNotFoundError", str(name))
        fh = NS("baseband-stream-reader", dict(f["attrs"]))
        fh.is_context = True
        fh.pos = 0
        fh.opened_with = dict(kw)
        raw = f["raw"]

        def seek(c, k):
            fh.pos = k
            return k

        def read(c, m):
            a = fh.pos
            fh.pos = V.add(a, m)
            sl = A.getitem(c, raw, SSlice(a, V.add(a, m), None))
            return SArr(sl.shape, sl.elem, sl.dtype, "numpy")        # a new array on every read
        fh.attrs["seek"] = Stub(seek, "fh.seek")
        fh.attrs["read"] = Stub(read, "fh.read")
        ctx.events.append(("open", name))
        return fh
    interp.stubs.ext["baseband"] = NS("baseband", {"open": Stub(open_, "baseband.open")})
    V.EXC_PARENTS.setdefault("FileNotFoundError", "Exception")


SETUP.append(install_baseband_stub)
BR = "pulsarbat.readers._baseband_readers"


def register_file(interp, ctx, nm, name, in_sample_shape, complex_data, header=None, sideband=True):
    L = nm.int("f_N", 16)
    ctx.assume(V.le(0, L), why="file length")
    shape = (L,) + tuple(in_sample_shape)
    raw = sym_array("FILE", shape, "complex64" if complex_data else "float32", nm=nm)
    sr = nm.real("f_sr", 16 * 10 ** 6)
    ctx.assume(V.lt(0, sr), why="file sample rate")
    hdr = FakeHeader(header or {})
    hdr_ns = NS("header", dict(hdr))
    hdr_ns.attrs["sideband"] = sideband
    hdr_ns.is_header = True
    hdr_ns.items_ = dict(hdr)
    attrs = {"complex_data": complex_data, "shape": shape, "sample_rate": Qty(sr, FREQ_DIM, interp.stubs.units["Hz"]),
             "start_time": STime(nm.real("f_t0", 4000), "isot", 9), "header0": hdr_ns}
    interp.files[name] = {"raw": raw, "attrs": attrs}
    return raw, attrs


def _install_header_getitem(interp):
    base = interp.stubs.getitem

    def getitem(b, idx, ctx):
        if isinstance(b, NS) and getattr(b, "is_header", False):
            if idx in b.items_:
                return b.items_[idx]
            raise PyExc("KeyError", str(idx))
        return base(b, idx, ctx)
    interp.stubs.getitem = getitem


SETUP.append(_install_header_getitem)


def mk_bb_reader(interp, ctx, nm, kind="complex", lsb=False, sigcls="BasebandSignal", in_shape=None):
    """BasebandReader over a symbolic file, built by the real constructor."""
    in_shape = in_shape if in_shape is not None else (nm.int("f_S1", 2),)
    for d in in_shape:
        if is_sym(d):
            ctx.assume(V.le(1, d), why="file sample shape")
    raw, attrs = register_file(interp, ctx, nm, "file.dat", in_shape, kind == "complex")
    cls = interp.repo.get_class(f"{BR}.BasebandReader")
    kw = {"signal_type": ClassRef(interp.repo.get_class(f"pulsarbat.core.{sigcls}")), "lower_sideband": lsb}
    if sigcls in ("BasebandSignal",):
        kw["signal_kwargs"] = {"center_freq": Qty(nm.real("r_cf", 4 * 10 ** 8), FREQ_DIM, interp.stubs.units["Hz"])}
    if sigcls == "IntensitySignal":
        kw["signal_kwargs"] = {"center_freq": Qty(nm.real("r_cf", 4 * 10 ** 8), FREQ_DIM, interp.stubs.units["Hz"]),
                               "chan_bw": Qty(nm.real("r_bw", 10 ** 6), FREQ_DIM, interp.stubs.units["Hz"])}
        ctx.assume(V.lt(0, kw["signal_kwargs"]["chan_bw"].val), why="chan_bw > 0")
    names = {q for q in interp.contracts if q.startswith("pulsarbat.readers.")}
    added = names - interp.no_contract
    interp.no_contract |= names
    try:
        obj = interp.instantiate(cls, ("file.dat",), kw, ctx)
    finally:
        interp.no_contract -= added
    obj.ghost = {"raw": raw, "file": attrs, "kind": kind, "lsb": lsb, "sigcls": sigcls}
    return obj


def spec_read_baseband(c, self, offset, n, lock=None, **kwargs):
    """complex/intensity data: rows offset..offset+n of the file; real baseband: the analytic-signal
    conversion of rows 2*offset..2*offset+2n; conjugated for lower-sideband voltages; reader dtype."""
    ctx = c.ctx
    g = self.ghost
    raw = g["raw"]
    if g["kind"] == "real":
        rows = A.getitem(ctx, raw, SSlice(V.mul(2, offset), V.add(V.mul(2, offset), V.mul(2, n)), None))
        z = c.call("pulsarbat.utils.real_to_complex", SArr(rows.shape, rows.elem, rows.dtype, "numpy"), axis=0)
        # position-faithful (statement): the mixer phase belongs to the absolute raw sample index 2*offset + j,
        # so the conversion of a chunk that starts at an odd offset carries the factor exp(-i pi offset) = -1
        odd = V.eq(V.mod_int(ctx, offset, 2), 1)
        z0 = z
        z = SArr(z0.shape, lambda ix: Cx(V.Ite(odd, V.neg(Cx.of(z0.elem(ix)).re), Cx.of(z0.elem(ix)).re),
                                        V.Ite(odd, V.neg(Cx.of(z0.elem(ix)).im), Cx.of(z0.elem(ix)).im)), z0.dtype, "numpy")
    else:
        rows = A.getitem(ctx, raw, SSlice(offset, V.add(offset, n), None))
        z = SArr(rows.shape, rows.elem, rows.dtype, "numpy")
    if g["kind"] != "intensity" and g["lsb"] is True:
        z = A.conj(ctx, z)
    want_dt = DType("float32") if g["kind"] == "intensity" else DType("complex64")
    return SArr(z.shape, z.elem, want_dt, "numpy")


def inst_read_baseband():
    out = []
    for kind, sigcls in (("complex", "BasebandSignal"), ("real", "BasebandSignal"), ("intensity", "IntensitySignal")):
        for lsb in (False, True):
            def build(interp, ctx, nm, kind=kind, sigcls=sigcls, lsb=lsb):
                r = mk_bb_reader(interp, ctx, nm, "complex" if kind == "complex" else "real", lsb, sigcls)
                r.ghost["kind"] = kind
                off, n = nm.int("offset", 2), nm.int("n", 3)
                ctx.assume(V.And(V.le(0, off), V.le(0, n)), why="requires: read() has validated the bounds")
                with inline_readers(interp):
                    ctx.assume(V.le(V.add(off, n), interp.get_attr(r, "shape", ctx)[0]), why="requires: read() has validated the bounds")
                return (r, off, n), {}
            out.append(Instance(f"{kind},lsb={lsb}", build))
    return out


_rb = Contract(f"{BR}.BasebandReader._read_baseband", spec_read_baseband, inst_read_baseband(), ("C11", "C19", "C14"))
_rb.no_bounded = True      # the concrete side reads the real sample files (props/c11.py)
CONTRACTS.append(_rb)


def spec_bb_attrs(c, kind, lsb, sigcls):
    return None


def bb_init_body(interp, ctx, a, k):
    with inline_readers(interp):
        return _bb_init_body(interp, ctx, a, k)


def _bb_init_body(interp, ctx, a, k):
    r = a[0]
    return {"len": interp.call(interp.get_attr(r, "__len__", ctx), (), {}, ctx), "sample_rate": interp.get_attr(r, "sample_rate", ctx),
            "start_time": interp.get_attr(r, "start_time", ctx), "dtype": interp.get_attr(r, "dtype", ctx),
            "sample_shape": interp.get_attr(r, "sample_shape", ctx)}


def spec_bb_init(c, r):
    """length, rate, dtype, start derived from the stream reader: halved length and rate for real
    baseband (Hilbert conversion), complex64 voltages, float32 intensities."""
    g = r.ghost
    f = g["file"]
    L, sr = f["shape"][0], f["sample_rate"].val
    real = g["kind"] == "real"
    return {"len": V.simp(V.floordiv_int(c.ctx, L, 2)) if real else L,
            "sample_rate": Qty(V.div(c.ctx, sr, 2) if real else sr, FREQ_DIM),
            "start_time": STime(f["start_time"].sec), "dtype": DType("float32" if g["kind"] == "intensity" else "complex64"),
            "sample_shape": tuple(f["shape"][1:])}


def inst_bb_init():
    out = []
    for kind, sigcls in (("complex", "BasebandSignal"), ("real", "BasebandSignal"), ("intensity", "IntensitySignal")):
        def build(interp, ctx, nm, kind=kind, sigcls=sigcls):
            r = mk_bb_reader(interp, ctx, nm, "complex" if kind == "complex" else "real", False, sigcls)
            r.ghost["kind"] = kind
            return (r,), {}
        out.append(Instance(kind, build))
    return out


_bi = Contract(f"{BR}.BasebandReader.__init__#attributes", spec_bb_init, inst_bb_init(), ("C11",), body=bb_init_body)
_bi.no_bounded = True
CONTRACTS.append(_bi)


# GUPPI raw: file axes (time, pol, chan) -> signal axes (time, chan, pol); header mapping
def mk_guppi(interp, ctx, nm, pol="LIN", sideband=True):
    nchan = nm.int("f_S2", 3)
    ctx.assume(V.le(1, nchan), why="nchan >= 1")
    obsfreq = nm.real("f_obsfreq", 1400)
    raw, attrs = register_file(interp, ctx, nm, "guppi.raw", (2, nchan), True, header={"OBSFREQ": obsfreq, "FD_POLN": pol}, sideband=sideband)
    cls = interp.repo.get_class(f"{BR}.GUPPIRawReader")
    names = {q for q in interp.contracts if q.startswith("pulsarbat.readers.")}
    added = names - interp.no_contract
    interp.no_contract |= names
    try:
        obj = interp.instantiate(cls, ("guppi.raw",), {}, ctx)
    finally:
        interp.no_contract -= added
    obj.ghost = {"raw": raw, "file": attrs, "obsfreq": obsfreq, "pol": pol, "sideband": sideband}
    return obj


class inline_readers:
    """Run reader methods through their real bodies (the BaseReader contracts are stated for the test double)."""

    def __init__(self, interp):
        self.interp = interp

    def __enter__(self):
        names = {q for q in self.interp.contracts if q.startswith("pulsarbat.readers.")}
        self.added = names - self.interp.no_contract
        self.interp.no_contract |= names

    def __exit__(self, *a):
        self.interp.no_contract -= self.added
        return False


def guppi_read_body(interp, ctx, a, k):
    r, off, n = a
    with inline_readers(interp):
        return interp.call(interp.get_attr(r, "read", ctx), (off, n), {}, ctx)


def spec_guppi_read(c, r, offset, n):
    """out[t, c, p] = file[offset + t, p, c] (conjugated for lower sideband); center_freq = OBSFREQ MHz,
    pol_type from FD_POLN, centre alignment, rate and start from the stream."""
    ctx = c.ctx
    g = r.ghost
    f = g["file"]
    L = f["shape"][0]
    c.raise_if(V.lt(offset, 0), "ValueError", "offset")
    c.raise_if(V.lt(n, 0), "ValueError", "n")
    c.raise_if(V.lt(L, V.add(offset, n)), OOB, "beyond end")
    rows = A.getitem(ctx, g["raw"], SSlice(offset, V.add(offset, n), None))
    z = A.transpose(ctx, SArr(rows.shape, rows.elem, rows.dtype, "numpy"), (0, 2, 1))
    if not g["sideband"]:
        z = A.conj(ctx, z)
    z = SArr(z.shape, z.elem, "complex64", "numpy")
    sr = f["sample_rate"]
    attrs = {"sample_rate": sr, "start_time": time_plus(c, f["start_time"], V.div(ctx, offset, sr.val)),
             "center_freq": Qty(V.mul(g["obsfreq"], 10 ** 6), FREQ_DIM, c.interp.stubs.units["MHz"]), "freq_align": "center",
             "pol_type": {"LIN": "linear", "CIRC": "circular"}[g["pol"]]}
    return construct(c, c.interp.repo.get_class("pulsarbat.core.DualPolarizationSignal"), z, attrs)


def inst_guppi():
    out = []
    for pol in ("LIN", "CIRC"):
        for sb in (True, False):
            def build(interp, ctx, nm, pol=pol, sb=sb):
                r = mk_guppi(interp, ctx, nm, pol, sb)
                return (r, nm.int("offset", 2), nm.int("n", 3)), {}
            out.append(Instance(f"FD_POLN={pol},upper={sb}", build))
    return out


_gr = Contract(f"{BR}.GUPPIRawReader.read", spec_guppi_read, inst_guppi(), ("C11",), body=guppi_read_body)
_gr.no_bounded = True
CONTRACTS.append(_gr)


# DADA full Stokes: file axes (time, stokes, chan) -> (time, chan, stokes); BW < 0 flips the channel axis
def mk_dada_stokes(interp, ctx, nm, lsb=False, npol=4, ndim=1):
    nchan = nm.int("f_S2", 3)
    ctx.assume(V.le(1, nchan), why="nchan >= 1")
    freq = nm.real("f_freq", 1400)
    bwabs = nm.real("f_bw", 16)
    ctx.assume(V.lt(0, bwabs), why="|BW| > 0")
    bw = V.neg(bwabs) if lsb else bwabs
    raw, attrs = register_file(interp, ctx, nm, "stokes.dada", (4, nchan), False,
                               header={"NPOL": npol, "NDIM": ndim, "BW": bw, "FREQ": freq, "NCHAN": nchan})
    cls = interp.repo.get_class(f"{BR}.DADAStokesReader")
    names = {q for q in interp.contracts if q.startswith("pulsarbat.readers.")}
    added = names - interp.no_contract
    interp.no_contract |= names
    try:
        obj = interp.instantiate(cls, ("stokes.dada",), {}, ctx)
    finally:
        interp.no_contract -= added
    obj.ghost = {"raw": raw, "file": attrs, "freq": freq, "bwabs": bwabs, "nchan": nchan, "lsb": lsb}
    return obj


def spec_dada_read(c, r, offset, n):
    """out[t, c, s] = file[offset + t, s, c'] with c' = c (BW > 0) or nchan-1-c (BW < 0); center FREQ MHz,
    chan_bw |BW/NCHAN| MHz, 'bottom' alignment for BW > 0 and 'top' for BW < 0."""
    ctx = c.ctx
    g = r.ghost
    f = g["file"]
    L = f["shape"][0]
    c.raise_if(V.lt(offset, 0), "ValueError", "offset")
    c.raise_if(V.lt(n, 0), "ValueError", "n")
    c.raise_if(V.lt(L, V.add(offset, n)), OOB, "beyond end")
    rows = A.getitem(ctx, g["raw"], SSlice(offset, V.add(offset, n), None))
    z = SArr(rows.shape, rows.elem, rows.dtype, "numpy")
    if g["lsb"]:
        z = A.flip(ctx, z, 2)
    z = A.transpose(ctx, z, (0, 2, 1))
    z = SArr(z.shape, z.elem, "float32", "numpy")
    sr = f["sample_rate"]
    attrs = {"sample_rate": sr, "start_time": time_plus(c, f["start_time"], V.div(ctx, offset, sr.val)),
             "center_freq": Qty(V.mul(g["freq"], 10 ** 6), FREQ_DIM, c.interp.stubs.units["MHz"]),
             "chan_bw": Qty(V.mul(V.div(ctx, g["bwabs"], g["nchan"]), 10 ** 6), FREQ_DIM, c.interp.stubs.units["MHz"]),
             "freq_align": "top" if g["lsb"] else "bottom"}
    return construct(c, c.interp.repo.get_class("pulsarbat.core.FullStokesSignal"), z, attrs)


def dada_read_body(interp, ctx, a, k):
    r, off, n = a
    with inline_readers(interp):
        return interp.call(interp.get_attr(r, "read", ctx), (off, n), {}, ctx)


def inst_dada():
    out = []
    for lsb in (False, True):
        def build(interp, ctx, nm, lsb=lsb):
            return (mk_dada_stokes(interp, ctx, nm, lsb), nm.int("offset", 2), nm.int("n", 3)), {}
        out.append(Instance(f"lsb={lsb}", build))
    return out


_dr = Contract(f"{BR}.DADAStokesReader.read", spec_dada_read, inst_dada(), ("C11",), body=dada_read_body)
_dr.no_bounded = True
CONTRACTS.append(_dr)


# statelessness: every read hands out memory of its own (never an array a cache keeps)
for _c in CONTRACTS:
    if _c.qualname.split("#")[0].split(".")[-1] in ("read", "dask_read", "_read_baseband", "_read_array", "_read_data"):
        _c.fresh_result = True
