"""Regenerate MANIFEST.json from props/__init__.py (claimed) + properties.jsonl (not_applicable)."""
import json, sys
sys.path.insert(0, '.')
from props import PROPS, NOT_APPLICABLE
ids = [json.loads(l)['id'] for l in open('properties.jsonl')]
checks = []
for p in ids:
    if p not in PROPS:
        continue
    c = PROPS[p]
    checks.append({
        "property_id": p,
        "quick_cmd": f"./check {p} --tier quick",
        "thorough_cmd": f"./check {p} --tier thorough",
        "evidence_file": f"/verif/evidence/{p}.json",
        "replay_cmd_template": "./check --replay {path}",
        "engine": "pyvc",
        "level_claimed": {"category": c["level"], "text": c["level_text"], "design_ref": c.get("design_ref", "DESIGN.md section 6 " + p)},
        "level_note": c["level_note"],
        "technique": c["technique"],
    })
m = {"version": 1, "setup_cmd": "./setup.sh",
     "hooks": {"guard": "PULSARBAT_VERIF", "enable": "no hooks: contracts are sidecar files under /verif/contracts; nothing in /repo is instrumented",
               "baseline_off_cmd": "cd /repo && /venv/bin/python -m pytest -ra -q -p no:cacheprovider --timeout=900 --continue-on-collection-errors",
               "source_commits": [], "add_only": True},
     "engines": [{"name": "pyvc", "path": "/verif/pyvc", "serves_properties": [c["property_id"] for c in checks],
                  "kind_free_text": "contract-based deductive verification: AST of the real /repo functions -> symbolic execution against sidecar spec functions -> z3/cvc5 obligations; concrete replay + bounded differential layer on the real code"}],
     "checks": checks,
     "notes": "exit codes of ./check: 0 held (KNOWN-FINDING lines allowed), 1 violation (VIOLATION line), 2 undecided, 3 checker failure; known findings and repaired defects: /verif/known_findings.json (committed, never written at run time); baseline of obligation kinds: /verif/baseline_obligations.json; triage of independently reported defects: /verif/findings_triage.md; see DESIGN.md sections 5, 8, 13",
     "not_applicable": [{"property_id": p, "reason": NOT_APPLICABLE.get(p, "check not built yet (work in progress; plan in DESIGN.md section 6)")} for p in ids if p not in PROPS]}
json.dump(m, open('MANIFEST.json', 'w'), indent=1)
import jsonschema
jsonschema.validate(m, json.load(open('/root/.vp/MANIFEST.schema.json')))
print("manifest ok:", [c["property_id"] for c in checks])
