"""Stubs, part 3: FFT operators as uninterpreted linear operators along an axis (DESIGN 3.2),
fftfreq / fftshift index maps, np.nditer with multi_index, scipy.fft / dask fft_wrap dispatch."""
from __future__ import annotations
import ast
import itertools
from fractions import Fraction
import z3
from . import values as V
from . import arrays as A
from .values import SArr, Qty, PyExc, Cx, DType, is_sym
from .ctx import Unsupported
from .interp import Stub, NS, ExtType, _Break, _Continue
from .stubs_lib import StubsLib

FFT_NAMES = ["fft", "fft2", "fftn", "ifft", "ifft2", "ifftn", "rfft", "rfft2", "rfftn", "irfft", "irfft2", "irfftn",
             "hfft", "ihfft"]


def sgnbin(N, k):
    """Signed DFT bin of index k for length N (numpy.fft.fftfreq numerator)."""
    return V.Ite(V.le(V.mul(2, k), V.sub(N, 1)), k, V.sub(k, N))


class NdIter:
    def __init__(self, arr, multi):
        self.arr, self.multi = arr, multi
        self.multi_index = None


class FftFunc:
    """Value of scipy.fft.<name> (and of its dask wrapper): an opaque operator named `name`."""

    def __init__(self, name, wrapped=False):
        self.name, self.wrapped = name, wrapped

    def __repr__(self):
        return f"FftFunc({self.name}{',dask-wrapped' if self.wrapped else ''})"


def opaque_op(ctx, op, arr: SArr, axis, n=None, out_dtype=None, out_len=None, params=(None,)):
    """Apply an uninterpreted operator along `axis`.  Two applications of the same operator to
    provably equal inputs denote the same array (congruence, checked with the solver)."""
    axis = A.norm_axis(arr, axis)
    shape = list(arr.shape)
    if n is not None:
        shape[axis] = n
    if out_len is not None:
        shape[axis] = out_len
    shape = tuple(shape)
    if ctx.branch(V.le(shape[axis], 0), "fft of zero length"):
        raise PyExc("ValueError", "invalid number of data points (0) specified")
    if out_dtype is None:
        out_dtype = DType("complex64") if arr.dtype.name in ("float32", "complex64", "float16") else DType("complex128")
    if getattr(ctx, "concrete", False):
        return concrete_fft(op, arr, axis, n, out_dtype, params)
    # congruence with earlier applications on this path
    for (op2, axis2, params2, src2, res2) in ctx.opaque_registry:
        if op2 == op and axis2 == axis and params2 == (n,) + tuple(params) and src2.ndim == arr.ndim and src2.dtype.kind == arr.dtype.kind:
            if src2.elem is arr.elem or _provably_equal(ctx, src2, arr):
                return SArr(shape, res2.elem, out_dtype, arr.backend, opaque=(op, axis, arr))
    k = len(ctx.opaque_registry)
    nd = len(shape)
    sorts = [z3.IntSort()] * nd
    if out_dtype.kind == "c":
        fre = z3.Function(f"{op}#{k}_re", *sorts, z3.RealSort())
        fim = z3.Function(f"{op}#{k}_im", *sorts, z3.RealSort())
        elem = lambda ix: Cx(fre(*[V.Z(i) for i in ix]), fim(*[V.Z(i) for i in ix]))
    else:
        fr = z3.Function(f"{op}#{k}_r", *sorts, z3.RealSort())
        elem = lambda ix: fr(*[V.Z(i) for i in ix])
    res = SArr(shape, elem, out_dtype, arr.backend, opaque=(op, axis, arr))
    # snapshots: arrays are mutable (in-place ops replace .elem), the registry must not follow them
    ctx.opaque_registry.append((op, axis, (n,) + tuple(params), SArr(arr.shape, arr.elem, arr.dtype, arr.backend),
                                SArr(shape, elem, out_dtype, arr.backend)))
    ctx.note(f"stub:{op} is an uninterpreted operator along an axis (values of the FFT are not modelled)")
    return res


def concrete_fft(op, arr, axis, n, out_dtype, params):
    """Concrete mode (replay / bounded layer): evaluate the operator numerically in complex128."""
    import numpy as np
    from .concrete import materialize, arr_from_real
    if int(arr.shape[axis]) == 0:
        raise PyExc("ValueError", "invalid number of data points (0) specified")
    x = materialize(SArr(arr.shape, arr.elem, arr.dtype, "numpy"))
    x = x.astype(np.complex128)
    norm = params[0] if params else None
    y = {"fft": np.fft.fft, "ifft": np.fft.ifft}[op](x, n=None if n is None else int(n), axis=axis, norm=norm)
    out = arr_from_real(y.astype(np.dtype(out_dtype.name)))
    return SArr(out.shape, out.elem, out_dtype, arr.backend, opaque=(op, axis, arr))


def _provably_equal(ctx, a: SArr, b: SArr):
    if a.ndim != b.ndim:
        return False
    for x, y in zip(a.shape, b.shape):
        if not ctx.is_valid(V.eq(x, y)):
            return False
    with ctx.scope():
        ix = A.fresh_index(ctx, a.shape, "u")
        ea, eb = a.elem(ix), b.elem(ix)
        if isinstance(ea, Cx) or isinstance(eb, Cx):
            return ctx.is_valid(V.ceq(ea, eb))
        if (isinstance(ea, bool) or (is_sym(ea) and z3.is_bool(ea))) != (isinstance(eb, bool) or (is_sym(eb) and z3.is_bool(eb))):
            return False
        return ctx.is_valid(V.eq(ea, eb) if not (isinstance(ea, bool) or (is_sym(ea) and z3.is_bool(ea))) else V.Z(ea) == V.Z(eb))


class StubsFft(StubsLib):
    def __init__(self):
        super().__init__()
        np_ns = self.ext["numpy"]
        np_ns.attrs["fft"] = NS("numpy.fft", {
            "fftfreq": Stub(lambda c, n, d=1: self.fftfreq(c, n, d, "numpy"), "np.fft.fftfreq"),
            "fftshift": Stub(lambda c, x, axes=None: self.fftshift(c, x, axes, False), "np.fft.fftshift"),
            "ifftshift": Stub(lambda c, x, axes=None: self.fftshift(c, x, axes, True), "np.fft.ifftshift"),
        })
        np_ns.attrs["nditer"] = Stub(self.np_nditer, "np.nditer")
        sp = NS("scipy.fft", {n: FftFunc(n) for n in FFT_NAMES})

        def sp_fast_len(kind):
            def f(c, target, real=False):
                c.note(f"stub:scipy.fft.{kind}_fast_len is an uninterpreted integer function (11-smooth lengths: not the statement's 7-smooth ones)")
                fn = z3.Function(f"scipy_{kind}_fast_len", z3.IntSort(), z3.IntSort())
                r = fn(V.Z(target))
                c.assume(z3.And(r >= 0, (r <= V.Z(target)) if kind == "prev" else (r >= V.Z(target))), why=f"scipy.fft.{kind}_fast_len range")
                return r
            return f
        sp.attrs["prev_fast_len"] = Stub(sp_fast_len("prev"), "scipy.fft.prev_fast_len")
        sp.attrs["next_fast_len"] = Stub(sp_fast_len("next"), "scipy.fft.next_fast_len")
        self.ext["scipy.fft"] = sp
        self.ext["scipy"] = NS("scipy", {"fft": sp})
        da = self.ext["dask.array"]
        da.attrs["fft"] = NS("dask.array.fft", {
            "fftfreq": Stub(lambda c, n, d=1, chunks=None: self.fftfreq(c, n, d, "dask"), "da.fft.fftfreq"),
            "fft_wrap": Stub(self.fft_wrap, "da.fft.fft_wrap"),
        })

    # -- index maps ------------------------------------------------------------------
    def fftfreq(self, ctx, n, d, backend):
        ctx.note("stub:fftfreq(N,d)[k] = sgnbin(N,k)/(N*d)")
        if isinstance(d, Qty):
            val = SArr((n,), lambda ix: V.div(ctx, sgnbin(n, ix[0]), V.mul(n, d.val)), "float64", backend)
            from .values import Unit
            return Qty(val, V.dim_pow(d.dim, -1))
        if not V.is_num(d):
            raise Unsupported("fftfreq spacing")
        return SArr((n,), lambda ix: V.div(ctx, sgnbin(n, ix[0]), V.mul(n, d)), "float64", backend)

    def fftshift(self, ctx, x, axes, inverse):
        ctx.note("stub:fftshift/ifftshift = index rotation by floor(N/2) / ceil(N/2)")
        if not isinstance(x, SArr):
            raise Unsupported("fftshift operand")
        if axes is None:
            axes = tuple(range(x.ndim))
        if isinstance(axes, int):
            axes = (axes,)
        axes = [A.norm_axis(x, a) for a in axes]

        def elem(ix):
            src = list(ix)
            for ax in axes:
                N = x.shape[ax]
                half = V.floordiv_int(ctx, N, 2)
                sh = half if not inverse else V.sub(N, half)       # roll by +floor(N/2) (fftshift) / +ceil(N/2)... see below
                # fftshift: y[k] = x[(k - floor(N/2)) mod N] = x[(k + ceil(N/2)) mod N]; ifftshift: y[k] = x[(k + floor(N/2)) mod N]
                off = V.sub(N, half) if not inverse else half
                j = V.add(ix[ax], off)
                src[ax] = V.Ite(V.lt(j, N), j, V.sub(j, N))
            return x.elem(tuple(src))
        return SArr(x.shape, elem, x.dtype, x.backend)

    # -- scipy / dask fft ----------------------------------------------------------------
    def fft_wrap(self, ctx, f, **kw):
        ctx.note("stub:da.fft.fft_wrap(f) applies f lazily along un-chunked axes")
        if not isinstance(f, FftFunc):
            raise Unsupported("fft_wrap of a non-FFT function")
        return FftFunc(f.name, wrapped=True)

    def call_fft(self, ctx, f: FftFunc, *args, **kwargs):
        if not args:
            raise PyExc("TypeError", "missing array argument")
        x = args[0]
        if isinstance(x, Qty):
            raise Unsupported("fft of a Quantity")
        if not isinstance(x, SArr):
            raise Unsupported("fft operand")
        if f.wrapped and x.backend != "dask":
            raise PyExc("TypeError", "dask fft wrapper applied to a non-dask array")
        if not f.wrapped and x.backend == "dask":
            ctx.events.append(("force", f"scipy.fft.{f.name}(dask)"))
            x = SArr(x.shape, x.elem, x.dtype, "numpy")
        if self.interp.truthy_sym(kwargs.pop("overwrite_x", False), ctx) is not False:
            # scipy.fft may destroy the contents of x: an in-place write to the caller's array
            ctx.note("stub:scipy.fft overwrite_x=True writes into its argument")
            self.frame_write_arr(x, "scipy.fft overwrite_x", ctx)
        if f.name not in ("fft", "ifft"):
            return self.opaque_generic(ctx, f.name, x, args[1:], kwargs)
        rest = list(args[1:])
        n = kwargs.pop("n", rest.pop(0) if rest else None)
        axis = kwargs.pop("axis", rest.pop(0) if rest else -1)
        norm = kwargs.pop("norm", None)
        if kwargs:
            raise Unsupported(f"fft keyword {sorted(kwargs)}")
        if f.name == "ifft" and x.opaque is not None and x.opaque[0] == "fft" and n is None and norm is None \
                and x.opaque[1] == A.norm_axis(x, axis):
            src = x.opaque[2]
            ctx.note("axiom:ifft(fft(x)) = x along the same axis")
            dt = DType("complex64") if src.dtype.name in ("float32", "complex64") else DType("complex128")
            return SArr(src.shape, lambda ix: Cx.of(src.elem(ix)), dt, x.backend)
        return opaque_op(ctx, f.name, x, axis, n=n, params=(norm,))

    def opaque_generic(self, ctx, name, x, rest, kwargs):
        """Any other scipy.fft transform: an uninterpreted array-valued function of (input, arguments);
        shape unknown (fresh dims of the same rank), same result for provably equal inputs."""
        key = (name, repr(rest), repr(sorted(kwargs.items())))
        if getattr(ctx, "concrete", False):
            import numpy as np
            import scipy.fft
            from .concrete import materialize, arr_from_real, to_real
            xr = materialize(SArr(x.shape, x.elem, x.dtype, "numpy"))
            y = getattr(scipy.fft, name)(xr, *[to_real(a, None) for a in rest], **{k: to_real(v, None) for k, v in kwargs.items()})
            out = arr_from_real(y)
            return SArr(out.shape, out.elem, out.dtype, x.backend)
        for (k2, src2, res2) in ctx.__dict__.setdefault("generic_registry", []):
            if k2 == key and src2.ndim == x.ndim and (src2.elem is x.elem or _provably_equal(ctx, src2, x)):
                return SArr(res2.shape, res2.elem, res2.dtype, x.backend)
        k = len(ctx.generic_registry)
        shape = tuple(ctx.fresh(f"{name}#{k}_dim{a}", "int") for a in range(x.ndim))
        for d in shape:
            ctx.assume(d >= 0, why="dims are non-negative")
        fre = z3.Function(f"{name}#g{k}_re", *([z3.IntSort()] * x.ndim), z3.RealSort())
        fim = z3.Function(f"{name}#g{k}_im", *([z3.IntSort()] * x.ndim), z3.RealSort())
        res = SArr(shape, lambda ix: Cx(fre(*[V.Z(i) for i in ix]), fim(*[V.Z(i) for i in ix])), "complex128", x.backend)
        ctx.generic_registry.append((key, SArr(x.shape, x.elem, x.dtype, x.backend), res))
        ctx.note(f"stub:scipy.fft.{name} is an uninterpreted function of its input and arguments")
        return res

    # -- nditer ---------------------------------------------------------------------------
    def np_nditer(self, ctx, arr, flags=()):
        if isinstance(arr, Qty):
            arr = arr.val
        if not isinstance(arr, SArr):
            if V.is_num(arr):
                arr = SArr((), lambda ix: arr, "float64")
            else:
                raise Unsupported("nditer operand")
        if any(is_sym(d) for d in arr.shape):
            raise Unsupported("np.nditer over an array with symbolic extent (instances use concrete shift extents)")
        ctx.note("stub:np.nditer visits every multi-index once in C order")
        return NdIter(arr, "multi_index" in list(flags))

    def for_loop(self, interp, st, it, env, ctx):
        if not isinstance(it, NdIter):
            return super().for_loop(interp, st, it, env, ctx)
        if it.arr.backend == "dask":
            ctx.events.append(("force", "np.nditer(dask)"))
        for m in itertools.product(*[range(d) for d in it.arr.shape]):
            it.multi_index = tuple(m)
            interp.assign(st.target, it.arr.elem(tuple(m)), env, ctx)
            try:
                interp.exec_block(st.body, env, ctx)
            except _Break:
                return True
            except _Continue:
                continue
        interp.exec_block(st.orelse, env, ctx)
        return True

    def value_getattr(self, v, name, ctx):
        if isinstance(v, NdIter):
            if name == "multi_index":
                if v.multi_index is None:
                    raise PyExc("ValueError", "iterator not started")
                return v.multi_index
            raise PyExc("AttributeError", name)
        if isinstance(v, FftFunc):
            if name in ("__name__", "__qualname__"):
                return v.name
            if name == "__doc__":
                return "<doc>"
            raise PyExc("AttributeError", name)
        return super().value_getattr(v, name, ctx)
