"""Stubs, part 3: FFT operators as uninterpreted linear operators along an axis (DESIGN 3.2),
fftfreq / fftshift index maps, np.nditer with multi_index, scipy.fft / dask fft_wrap dispatch."""
from __future__ import annotations
import ast
import itertools
from fractions import Fraction
import z3
from . import values as V
from . import arrays as A
from .values import SArr, Qty, PyExc, Cx, DType, is_sym
from .ctx import Unsupported
from .interp import Stub, NS, ExtType, _Break, _Continue
from .stubs_lib import StubsLib

FFT_NAMES = ["fft", "fft2", "fftn", "ifft", "ifft2", "ifftn", "rfft", "rfft2", "rfftn", "irfft", "irfft2", "irfftn",
             "hfft", "ihfft"]


def sgnbin(N, k):
    """Signed DFT bin of index k for length N (numpy.fft.fftfreq numerator)."""
    return V.Ite(V.le(V.mul(2, k), V.sub(N, 1)), k, V.sub(k, N))


def _eq_val(a, b):
    from .values import Cx as _Cx
    if isinstance(a, _Cx) or isinstance(b, _Cx):
        return V.ceq(_Cx.of(a), _Cx.of(b))
    return V.eq(a, b)


def _subst(val, m, to):
    """val with the generic loop index m replaced by the index term `to`."""
    from .values import Cx as _Cx
    if isinstance(val, _Cx):
        return _Cx(_subst(val.re, m, to), _subst(val.im, m, to))
    if is_sym(val):
        return z3.substitute(val, (m, V.Z(to) if not isinstance(to, int) else z3.IntVal(to)))
    return val


class NdIter:
    def __init__(self, arr, multi):
        self.arr, self.multi = arr, multi
        self.multi_index = None


class FftFunc:
    """Value of scipy.fft.<name> (and of its dask wrapper): an opaque operator named `name`."""

    def __init__(self, name, wrapped=False):
        self.name, self.wrapped = name, wrapped

    def __repr__(self):
        return f"FftFunc({self.name}{',dask-wrapped' if self.wrapped else ''})"


def opaque_op(ctx, op, arr: SArr, axis, n=None, out_dtype=None, out_len=None, params=(None,)):
    """Apply an uninterpreted operator along `axis`.  Two applications of the same operator to
    provably equal inputs denote the same array (congruence, checked with the solver)."""
    axis = A.norm_axis(arr, axis)
    shape = list(arr.shape)
    if n is not None:
        shape[axis] = n
    if out_len is not None:
        shape[axis] = out_len
    shape = tuple(shape)
    if ctx.branch(V.le(shape[axis], 0), "fft of zero length"):
        raise PyExc("ValueError", "invalid number of data points (0) specified")
    if out_dtype is None:
        out_dtype = DType("complex64") if arr.dtype.name in ("float32", "complex64", "float16") else DType("complex128")
    if getattr(ctx, "concrete", False):
        return concrete_fft(op, arr, axis, n, out_dtype, params)
    # congruence with earlier applications on this path
    for (op2, axis2, params2, src2, res2) in ctx.opaque_registry:
        if op2 == op and axis2 == axis and params2 == (n,) + tuple(params) and src2.ndim == arr.ndim and src2.dtype.kind == arr.dtype.kind:
            if src2.elem is arr.elem or _provably_equal(ctx, src2, arr):
                return SArr(shape, res2.elem, out_dtype, arr.backend, opaque=(op, axis, arr))
    k = len(ctx.opaque_registry)
    nd = len(shape)
    sorts = [z3.IntSort()] * nd
    if out_dtype.kind == "c":
        fre = z3.Function(f"{op}#{k}_re", *sorts, z3.RealSort())
        fim = z3.Function(f"{op}#{k}_im", *sorts, z3.RealSort())
        elem = lambda ix: Cx(fre(*[V.Z(i) for i in ix]), fim(*[V.Z(i) for i in ix]))
    else:
        fr = z3.Function(f"{op}#{k}_r", *sorts, z3.RealSort())
        elem = lambda ix: fr(*[V.Z(i) for i in ix])
    res = SArr(shape, elem, out_dtype, arr.backend, opaque=(op, axis, arr))
    # snapshots: arrays are mutable (in-place ops replace .elem), the registry must not follow them
    ctx.opaque_registry.append((op, axis, (n,) + tuple(params), SArr(arr.shape, arr.elem, arr.dtype, arr.backend),
                                SArr(shape, elem, out_dtype, arr.backend)))
    ctx.note(f"stub:{op} is an uninterpreted operator along an axis (values of the FFT are not modelled)")
    return res


def concrete_fft(op, arr, axis, n, out_dtype, params):
    """Concrete mode (replay / bounded layer): evaluate the operator numerically in complex128."""
    import numpy as np
    from .concrete import materialize, arr_from_real
    if int(arr.shape[axis]) == 0:
        raise PyExc("ValueError", "invalid number of data points (0) specified")
    x = materialize(SArr(arr.shape, arr.elem, arr.dtype, "numpy"))
    x = x.astype(np.complex128)
    norm = params[0] if params else None
    y = {"fft": np.fft.fft, "ifft": np.fft.ifft}[op](x, n=None if n is None else int(n), axis=axis, norm=norm)
    out = arr_from_real(y.astype(np.dtype(out_dtype.name)))
    return SArr(out.shape, out.elem, out_dtype, arr.backend, opaque=(op, axis, arr))


def _entailed_or_undecided(ctx, cond):
    """Congruence of two applications of an uninterpreted transform: entailed (same result), refutable (a fresh
    result), or -- when the solver can decide neither within the retried budget -- an undecided path: guessing
    'different' would turn a solver timeout into a refuted postcondition."""
    cond = V.conc(cond)
    if isinstance(cond, bool):
        return cond
    ctx.solver.push()
    try:
        ctx.solver.add(z3.Not(cond))
        r = ctx.solver.check()
        if r == z3.unknown:
            ctx.solver.set("timeout", ctx.BRANCH_TIMEOUT_MS * 10)
            try:
                r = ctx.solver.check()
            finally:
                ctx.solver.set("timeout", ctx.BRANCH_TIMEOUT_MS)
    finally:
        ctx.solver.pop()
    if r == z3.unknown:
        raise Unsupported("congruence of two transform applications undecided within the solver budget")
    return r == z3.unsat


def _provably_equal(ctx, a: SArr, b: SArr):
    if a.ndim != b.ndim:
        return False
    for x, y in zip(a.shape, b.shape):
        if not ctx.is_valid(V.eq(x, y)):
            return False
    with ctx.scope():
        ix = A.fresh_index(ctx, a.shape, "u")
        ea, eb = a.elem(ix), b.elem(ix)
        if isinstance(ea, Cx) or isinstance(eb, Cx):
            return _entailed_or_undecided(ctx, V.ceq(ea, eb))
        if (isinstance(ea, bool) or (is_sym(ea) and z3.is_bool(ea))) != (isinstance(eb, bool) or (is_sym(eb) and z3.is_bool(eb))):
            return False
        return ctx.is_valid(V.eq(ea, eb) if not (isinstance(ea, bool) or (is_sym(ea) and z3.is_bool(ea))) else V.Z(ea) == V.Z(eb))


class StubsFft(StubsLib):
    def __init__(self):
        super().__init__()
        np_ns = self.ext["numpy"]
        np_ns.attrs["fft"] = NS("numpy.fft", {
            "fftfreq": Stub(lambda c, n, d=1: self.fftfreq(c, n, d, "numpy"), "np.fft.fftfreq"),
            "fftshift": Stub(lambda c, x, axes=None: self.fftshift(c, x, axes, False), "np.fft.fftshift"),
            "ifftshift": Stub(lambda c, x, axes=None: self.fftshift(c, x, axes, True), "np.fft.ifftshift"),
        })
        np_ns.attrs["nditer"] = Stub(self.np_nditer, "np.nditer")
        sp = NS("scipy.fft", {n: FftFunc(n) for n in FFT_NAMES})

        def sp_fast_len(kind):
            def f(c, target, real=False):
                c.note(f"stub:scipy.fft.{kind}_fast_len is an uninterpreted integer function (11-smooth lengths: not the statement's 7-smooth ones)")
                fn = z3.Function(f"scipy_{kind}_fast_len", z3.IntSort(), z3.IntSort())
                r = fn(V.Z(target))
                c.assume(z3.And(r >= 0, (r <= V.Z(target)) if kind == "prev" else (r >= V.Z(target))), why=f"scipy.fft.{kind}_fast_len range")
                return r
            return f
        sp.attrs["prev_fast_len"] = Stub(sp_fast_len("prev"), "scipy.fft.prev_fast_len")
        sp.attrs["next_fast_len"] = Stub(sp_fast_len("next"), "scipy.fft.next_fast_len")
        self.ext["scipy.fft"] = sp
        self.ext["scipy"] = NS("scipy", {"fft": sp})
        da = self.ext["dask.array"]
        da.attrs["fft"] = NS("dask.array.fft", {
            "fftfreq": Stub(lambda c, n, d=1, chunks=None: self.fftfreq(c, n, d, "dask"), "da.fft.fftfreq"),
            "fft_wrap": Stub(self.fft_wrap, "da.fft.fft_wrap"),
        })

    # -- index maps ------------------------------------------------------------------
    def fftfreq(self, ctx, n, d, backend):
        ctx.note("stub:fftfreq(N,d)[k] = sgnbin(N,k)/(N*d)")
        if isinstance(d, Qty):
            val = SArr((n,), lambda ix: V.div(ctx, sgnbin(n, ix[0]), V.mul(n, d.val)), "float64", backend)
            from .values import Unit
            return Qty(val, V.dim_pow(d.dim, -1))
        if not V.is_num(d):
            raise Unsupported("fftfreq spacing")
        return SArr((n,), lambda ix: V.div(ctx, sgnbin(n, ix[0]), V.mul(n, d)), "float64", backend)

    def fftshift(self, ctx, x, axes, inverse):
        ctx.note("stub:fftshift/ifftshift = index rotation by floor(N/2) / ceil(N/2)")
        if not isinstance(x, SArr):
            raise Unsupported("fftshift operand")
        if axes is None:
            axes = tuple(range(x.ndim))
        if isinstance(axes, int):
            axes = (axes,)
        axes = [A.norm_axis(x, a) for a in axes]

        def elem(ix):
            src = list(ix)
            for ax in axes:
                N = x.shape[ax]
                half = V.floordiv_int(ctx, N, 2)
                sh = half if not inverse else V.sub(N, half)       # roll by +floor(N/2) (fftshift) / +ceil(N/2)... see below
                # fftshift: y[k] = x[(k - floor(N/2)) mod N] = x[(k + ceil(N/2)) mod N]; ifftshift: y[k] = x[(k + floor(N/2)) mod N]
                off = V.sub(N, half) if not inverse else half
                j = V.add(ix[ax], off)
                src[ax] = V.Ite(V.lt(j, N), j, V.sub(j, N))
            return x.elem(tuple(src))
        return SArr(x.shape, elem, x.dtype, x.backend)

    # -- scipy / dask fft ----------------------------------------------------------------
    def fft_wrap(self, ctx, f, **kw):
        ctx.note("stub:da.fft.fft_wrap(f) applies f lazily along un-chunked axes")
        if not isinstance(f, FftFunc):
            raise Unsupported("fft_wrap of a non-FFT function")
        return FftFunc(f.name, wrapped=True)

    def call_fft(self, ctx, f: FftFunc, *args, **kwargs):
        if not args:
            raise PyExc("TypeError", "missing array argument")
        x = args[0]
        if isinstance(x, Qty):
            raise Unsupported("fft of a Quantity")
        if not isinstance(x, SArr):
            raise Unsupported("fft operand")
        if f.wrapped and x.backend != "dask":
            raise PyExc("TypeError", "dask fft wrapper applied to a non-dask array")
        if not f.wrapped and x.backend == "dask":
            ctx.events.append(("force", f"scipy.fft.{f.name}(dask)"))
            x = SArr(x.shape, x.elem, x.dtype, "numpy")
        if self.interp.truthy_sym(kwargs.pop("overwrite_x", False), ctx) is not False:
            # scipy.fft may destroy the contents of x: an in-place write to the caller's array
            ctx.note("stub:scipy.fft overwrite_x=True writes into its argument")
            self.frame_write_arr(x, "scipy.fft overwrite_x", ctx)
        if f.name.endswith("n"):
            # n-dimensional transforms: which axes a shape given WITHOUT axes applies to is where the dask wrapper
            # and scipy differ (dask.array.fft.fft_wrap: the first len(s) axes; scipy.fft: the last len(s)); the
            # arguments are made explicit so that the uninterpreted operator is keyed on what is really transformed
            rest = list(args[1:])
            s_ = kwargs.pop("s", rest.pop(0) if rest else None)
            axes_ = kwargs.pop("axes", rest.pop(0) if rest else None)
            if rest:
                raise Unsupported("positional arguments of an n-dimensional FFT beyond (x, s, axes)")
            if s_ is not None and any(is_sym(v) for v in s_) or axes_ is not None and any(is_sym(v) for v in axes_):
                raise Unsupported("symbolic s/axes of an n-dimensional FFT")
            if axes_ is None and s_ is not None:
                axes_ = tuple(range(len(s_))) if f.wrapped else tuple(range(x.ndim - len(s_), x.ndim))
                ctx.note("stub:fftn-family with s and no axes -- scipy: last len(s) axes; dask fft_wrap: first len(s) axes")
            kw2 = dict(kwargs)
            if s_ is not None:
                kw2["s"] = tuple(int(v) for v in s_)
            if axes_ is not None:
                kw2["axes"] = tuple(int(v) % x.ndim for v in axes_)
            return self.opaque_generic(ctx, f.name, x, (), kw2)
        if f.name not in ("fft", "ifft"):
            return self.opaque_generic(ctx, f.name, x, args[1:], kwargs)
        rest = list(args[1:])
        n = kwargs.pop("n", rest.pop(0) if rest else None)
        axis = kwargs.pop("axis", rest.pop(0) if rest else -1)
        norm = kwargs.pop("norm", None)
        if kwargs:
            raise Unsupported(f"fft keyword {sorted(kwargs)}")
        if f.name == "ifft" and x.opaque is not None and x.opaque[0] == "fft" and n is None and norm is None \
                and x.opaque[1] == A.norm_axis(x, axis):
            src = x.opaque[2]
            ctx.note("axiom:ifft(fft(x)) = x along the same axis")
            dt = DType("complex64") if src.dtype.name in ("float32", "complex64") else DType("complex128")
            return SArr(src.shape, lambda ix: Cx.of(src.elem(ix)), dt, x.backend)
        return opaque_op(ctx, f.name, x, axis, n=n, params=(norm,))

    def opaque_generic(self, ctx, name, x, rest, kwargs):
        """Any other scipy.fft transform: an uninterpreted array-valued function of (input, arguments);
        shape unknown (fresh dims of the same rank), same result for provably equal inputs."""
        key = (name, repr(rest), repr(sorted(kwargs.items())))
        if getattr(ctx, "concrete", False):
            import numpy as np
            import scipy.fft
            from .concrete import materialize, arr_from_real, to_real
            xr = materialize(SArr(x.shape, x.elem, x.dtype, "numpy"))
            y = getattr(scipy.fft, name)(xr, *[to_real(a, None) for a in rest], **{k: to_real(v, None) for k, v in kwargs.items()})
            out = arr_from_real(y)
            return SArr(out.shape, out.elem, out.dtype, x.backend)
        for (k2, src2, res2) in ctx.__dict__.setdefault("generic_registry", []):
            if k2 == key and src2.ndim == x.ndim and (src2.elem is x.elem or _provably_equal(ctx, src2, x)):
                return SArr(res2.shape, res2.elem, res2.dtype, x.backend)
        k = len(ctx.generic_registry)
        shape = tuple(ctx.fresh(f"{name}#{k}_dim{a}", "int") for a in range(x.ndim))
        for d in shape:
            ctx.assume(d >= 0, why="dims are non-negative")
        fre = z3.Function(f"{name}#g{k}_re", *([z3.IntSort()] * x.ndim), z3.RealSort())
        fim = z3.Function(f"{name}#g{k}_im", *([z3.IntSort()] * x.ndim), z3.RealSort())
        res = SArr(shape, lambda ix: Cx(fre(*[V.Z(i) for i in ix]), fim(*[V.Z(i) for i in ix])), "complex128", x.backend)
        ctx.generic_registry.append((key, SArr(x.shape, x.elem, x.dtype, x.backend), res))
        ctx.note(f"stub:scipy.fft.{name} is an uninterpreted function of its input and arguments")
        return res

    # -- nditer ---------------------------------------------------------------------------
    def np_nditer(self, ctx, arr, flags=()):
        if isinstance(arr, Qty):
            arr = arr.val
        if not isinstance(arr, SArr):
            if V.is_num(arr):
                arr = SArr((), lambda ix: arr, "float64")
            else:
                raise Unsupported("nditer operand")
        ctx.note("stub:np.nditer visits every multi-index once in C order")
        return NdIter(arr, "multi_index" in list(flags))

    def for_loop(self, interp, st, it, env, ctx):
        if not isinstance(it, NdIter):
            return super().for_loop(interp, st, it, env, ctx)
        if it.arr.backend == "dask":
            ctx.events.append(("force", "np.nditer(dask)"))
        if any(is_sym(d) for d in it.arr.shape):
            return self.for_loop_elementwise(interp, st, it, env, ctx)
        for m in itertools.product(*[range(d) for d in it.arr.shape]):
            it.multi_index = tuple(m)
            interp.assign(st.target, it.arr.elem(tuple(m)), env, ctx)
            try:
                interp.exec_block(st.body, env, ctx)
            except _Break:
                return True
            except _Continue:
                continue
        interp.exec_block(st.orelse, env, ctx)
        return True

    def for_loop_elementwise(self, interp, st, it, env, ctx):
        """Summary of `for a in np.nditer(arr, flags=['multi_index'])` over a symbolic index space (one axis), for
        bodies of the shape "at index m: overwrite part of column m of some arrays; update scalar reductions".

        The body is executed at a *generic* index m on the arrays as they are before the loop, with the reduction
        variables havocked, and the following is checked (obligations `loop.*`):
          column-local   -- the iteration at m changes no element whose trailing index differs from m;
          data-oblivious -- what it writes does not depend on the previous contents of the array (the iteration is
                            replayed on a fresh array), so each column is final after its own iteration;
          reductions     -- every live-in scalar the body assigns is updated exactly as one of the folds the
                            *contract* prescribes (`Contract.loop_folds`: kind, initial value, term t(m), final
                            symbol), and enters the loop with that fold's initial value.
        After the loop an element of column j is whatever the iteration at m = j leaves there (the body is
        re-executed at that index when the element is inspected), each reduction variable is the fold over the
        whole index space (an extremum symbol shared with the spec), loop-local temporaries are unspecified."""
        import ast as _ast
        from .loops import assigned_names
        from .interp import Env
        if st.orelse:
            raise Unsupported("nditer loop with else over a symbolic index space")
        shape = it.arr.shape
        if len(shape) != 1:
            raise Unsupported("nditer over a symbolic index space of rank other than 1 (the generalisation covers one sample axis)")
        n = shape[0]
        mods = set()            # names the body (re)binds: plain-name targets only, not the bases of subscript targets

        def names_of(t):
            if isinstance(t, _ast.Name):
                mods.add(t.id)
            elif isinstance(t, (_ast.Tuple, _ast.List)):
                for e_ in t.elts:
                    names_of(e_)
            elif isinstance(t, _ast.Starred):
                names_of(t.value)
        for node in _ast.walk(_ast.Module(body=st.body, type_ignores=[])):
            if isinstance(node, _ast.Assign):
                for t in node.targets:
                    names_of(t)
            elif isinstance(node, (_ast.AugAssign, _ast.AnnAssign)):
                names_of(node.target)
            elif isinstance(node, _ast.NamedExpr):
                names_of(node.target)
            elif isinstance(node, _ast.For):
                names_of(node.target)
        arr_names = set()
        for node in _ast.walk(_ast.Module(body=st.body, type_ignores=[])):
            if isinstance(node, (_ast.Assign, _ast.AugAssign)):
                for t in (node.targets if isinstance(node, _ast.Assign) else [node.target]):
                    if isinstance(t, _ast.Subscript):
                        if not isinstance(t.value, _ast.Name):
                            raise Unsupported("nditer loop writing through a nested subscript")
                        arr_names.add(t.value.id)
        for a in arr_names:
            if not (env.has(a) and isinstance(env.lookup(a), SArr)):
                raise Unsupported("nditer loop writing through a subscript of a non-array")
            if a in mods:
                raise Unsupported("nditer loop rebinding an array it writes")
        live_arrays = {a: env.lookup(a) for a in arr_names}
        # snapshots of the pre-loop contents (the element functions are replaced at the end)
        pre = {a: SArr(x.shape, x.elem, x.dtype, x.backend, owner=x.owner) for a, x in live_arrays.items()}
        live = [v for v in sorted(mods) if env.has(v) and (V.is_num(env.lookup(v)) or isinstance(env.lookup(v), bool))]
        entry = {v: env.lookup(v) for v in live}
        folds = list(ctx.loop_folds() if getattr(ctx, "loop_folds", None) else [])
        alphas = {v: ctx.fresh(f"acc_{v}", "int" if V.is_intlike(entry[v]) else "real") for v in live}

        def run_at(m, sources, keep_obligations):
            e2 = Env(env.mod, env, env.cls, env.func)
            work = {}
            for a, src in sources.items():
                work[a] = SArr(src.shape, src.elem, src.dtype, src.backend, owner=src.owner)
                e2.vars[a] = work[a]
            for v, al in alphas.items():
                e2.vars[v] = al
            it2 = NdIter(it.arr, it.multi)
            it2.multi_index = (m,)
            # the iterator object is read through the name it is bound to in the enclosing frame
            for k, val in list(env.vars.items()):
                if val is it:
                    e2.vars[k] = it2
            nobl = len(ctx.obligations)
            interp.assign(st.target, it.arr.elem((m,)), e2, ctx)
            try:
                interp.exec_block(st.body, e2, ctx)
            except (_Break, _Continue):
                raise Unsupported("break/continue in an nditer loop over a symbolic index space")
            if not keep_obligations:
                del ctx.obligations[nobl:]
            return work, {v: e2.vars[v] for v in alphas}
        m = ctx.fresh("m_loop", "int")
        ctx.assume(z3.And(m >= 0, V.Z(m) < V.Z(n)), why="generic loop index")
        ctx.fold_point(m, n)
        out_arr, out_sc = run_at(m, pre, True)
        for a, src in pre.items():
            if src.ndim < 2:
                raise Unsupported("nditer loop writing an array without a column axis")
            idx = A.fresh_index(ctx, src.shape, "lc")
            with ctx.scope():
                ctx.assume(z3.Not(V.Z(idx[-1]) == V.Z(m)), why="another column")
                ctx.oblige(f"loop.column-local[{a}]", _eq_val(out_arr[a].elem(idx), src.elem(idx)), "loop")
        fresh_src = {}
        for a, src in pre.items():
            k = next(ctx.counter)
            if src.is_complex:
                fr_ = z3.Function(f"loopX_re!{k}", *([z3.IntSort()] * src.ndim), z3.RealSort())
                fi_ = z3.Function(f"loopX_im!{k}", *([z3.IntSort()] * src.ndim), z3.RealSort())
                fresh_src[a] = SArr(src.shape, lambda ix, fr_=fr_, fi_=fi_: Cx(fr_(*[V.Z(i) for i in ix]), fi_(*[V.Z(i) for i in ix])), src.dtype, src.backend, owner=src.owner)
            else:
                fr_ = z3.Function(f"loopX!{k}", *([z3.IntSort()] * src.ndim), z3.RealSort())
                fresh_src[a] = SArr(src.shape, lambda ix, fr_=fr_: fr_(*[V.Z(i) for i in ix]), src.dtype, src.backend, owner=src.owner)
        out_arr2, _ = run_at(m, fresh_src, False)
        for a, src in pre.items():
            idx = A.fresh_index(ctx, src.shape, "ob")
            with ctx.scope():
                ctx.assume(V.Z(idx[-1]) == V.Z(m), why="own column")
                kept1 = V.Z(_eq_val(out_arr[a].elem(idx), src.elem(idx)))
                kept2 = V.Z(_eq_val(out_arr2[a].elem(idx), fresh_src[a].elem(idx)))
                same = V.Z(_eq_val(out_arr[a].elem(idx), out_arr2[a].elem(idx)))
                # at every element both runs kept their input, or both wrote the same value
                ctx.oblige(f"loop.data-oblivious[{a}]", z3.Or(z3.And(kept1, kept2), same), "loop")
        # reductions prescribed by the contract
        unbound = list(live)
        finals = {}
        for (kind, init, term, final_sym) in folds:
            def step_ok(v):
                with ctx.scope():
                    ctx.assume(V.le(init, alphas[v]) if kind == "max" else V.le(alphas[v], init), why="a max (min) fold never drops below (rises above) its initial value")
                    want = V.vmax(alphas[v], term(m)) if kind == "max" else V.vmin(alphas[v], term(m))
                    return ctx.is_valid(V.eq(out_sc[v], want)) and ctx.is_valid(V.eq(entry[v], init))
            match = next((v for v in unbound if step_ok(v)), None)
            if match is None:
                ctx.oblige(f"loop.reduction-implements-fold[{kind}]", False, "loop", {"candidates": unbound})
                if unbound:
                    match = unbound[0]
                else:
                    continue
            else:
                ctx.oblige(f"loop.reduction-implements-fold[{kind}]", True, "loop")
            unbound.remove(match)
            finals[match] = final_sym
        for v in unbound:
            # a live-in scalar assigned in the body that no prescribed fold accounts for must not change
            ctx.oblige(f"loop.unaccounted-scalar[{v}]", V.eq(out_sc[v], alphas[v]), "loop")
            finals[v] = entry[v]
        # state after the loop
        for a, live_arr in live_arrays.items():
            cache = {}

            def elem(ix, a=a):
                key = tuple(i if isinstance(i, int) else z3.simplify(V.Z(i)).sexpr() for i in ix)
                if key not in cache:
                    col = ix[-1]
                    res, _ = run_at(col, pre, False)
                    cache[key] = res[a].elem(tuple(ix))
                return cache[key]
            live_arr.elem = elem
            live_arr.written = True
        for v in live:
            env.vars[v] = finals[v] if v in env.vars else finals[v]
            interp.assign(_ast.Name(id=v, ctx=_ast.Store()), finals[v], env, ctx)
        return True

    def value_getattr(self, v, name, ctx):
        if isinstance(v, NdIter):
            if name == "multi_index":
                if v.multi_index is None:
                    raise PyExc("ValueError", "iterator not started")
                return v.multi_index
            raise PyExc("AttributeError", name)
        if isinstance(v, FftFunc):
            if name in ("__name__", "__qualname__"):
                return v.name
            if name == "__doc__":
                return "<doc>"
            raise PyExc("AttributeError", name)
        return super().value_getattr(v, name, ctx)
