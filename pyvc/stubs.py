from .stubs_fft import StubsFft, FftFunc
from .interp import Interp


class Stubs(StubsFft):
    pass


def make_stubs():
    return Stubs()


# calling an FftFunc value from interpreted code
_orig_call = Interp.call


def _call(self, f, args, kwargs, ctx):
    if isinstance(f, FftFunc):
        return self.stubs.call_fft(ctx, f, *args, **kwargs)
    return _orig_call(self, f, args, kwargs, ctx)


Interp.call = _call
