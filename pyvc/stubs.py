from .stubs_lib import StubsLib


class Stubs(StubsLib):
    pass


def make_stubs():
    return Stubs()
