from .stubs_fft import StubsFft, FftFunc
from .interp import Interp


class Stubs(StubsFft):
    pass


def make_stubs():
    return Stubs()


# calling an FftFunc value from interpreted code
_orig_call = Interp.call


def _call(self, f, args, kwargs, ctx):
    if isinstance(f, FftFunc):
        return self.stubs.call_fft(ctx, f, *args, **kwargs)
    from .values import DType, SArr
    from . import arrays as A
    if isinstance(f, DType):
        # np.float32(x) / dtype.type(x): conversion of a scalar or array to that dtype (model E: the value itself)
        if len(args) != 1 or kwargs:
            from .ctx import Unsupported
            raise Unsupported("dtype constructor with other than one argument")
        ctx.note("stub:NumPy scalar type called as a constructor = astype (model E)")
        x = args[0]
        return A.astype(ctx, x, f) if isinstance(x, SArr) else x
    return _orig_call(self, f, args, kwargs, ctx)


Interp.call = _call
