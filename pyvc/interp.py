"""Symbolic interpreter for the Python subset used by pulsarbat (DESIGN.md 2.2).

It executes the *real* function bodies (ast of /repo's current files) on symbolic values.
Calls to repo functions that have a sidecar contract use the contract (modular); other repo
functions and property getters are inlined (still the real text); library calls go to stubs.
Anything outside the subset raises Unsupported -> the path is undecided, never a violation."""
from __future__ import annotations
import ast
import operator as _op
from fractions import Fraction
import z3

from . import values as V
from .values import (SArr, Qty, Unit, STime, SSlice, Obj, PyExc, Cx, DType, is_sym, conc)
from .ctx import PathCtx, Unsupported, Infeasible
from .extract import Repo, ClassInfo, ModuleInfo


# --------------------------------------------------------------------------- runtime values

class ClassRef:
    def __init__(self, ci):
        self.ci = ci

    def __eq__(self, o):
        return isinstance(o, ClassRef) and o.ci is self.ci

    def __hash__(self):
        return hash(id(self.ci))

    def __repr__(self):
        return f"ClassRef({self.ci.qualname})"


class FuncVal:
    def __init__(self, mod, node, closure=None, cls=None, qualname=None, kind="func"):
        self.mod, self.node, self.closure, self.cls = mod, node, closure, cls
        self.qualname = qualname
        self.kind = kind
        self.attrs = {}
        self.dispatch = None   # singledispatch registry: list of (type value, FuncVal)

    def __repr__(self):
        return f"FuncVal({self.qualname or self.node.name})"


class Bound:
    def __init__(self, func, self_val):
        self.func, self.self_val = func, self_val

    def __repr__(self):
        return f"Bound({self.func}, {self.self_val})"


class FStr(str):
    """opaque text; .token records that it embeds a token of the content it names (Dask task names)"""
    def __new__(cls, text, token=False):
        o = super().__new__(cls, text)
        o.token = token
        return o

    def __add__(self, other):
        return FStr(str.__add__(self, str(other)), self.token or getattr(other, "token", False))

    def __radd__(self, other):
        return FStr(str(other) + str(self), self.token or getattr(other, "token", False))


class Stub:
    """Library function: fn(ctx, *args, **kwargs)."""

    def __init__(self, fn, name=None, pure=True):
        self.fn, self.name = fn, name or getattr(fn, "__name__", "stub")

    def __repr__(self):
        return f"Stub({self.name})"


class NS:
    """Namespace (library module / class with attributes)."""

    def __init__(self, name, attrs=None, call=None, getattr_hook=None):
        self.name = name
        self.attrs = dict(attrs or {})
        self.call = call
        self.getattr_hook = getattr_hook

    def __repr__(self):
        return f"NS({self.name})"


class RepoModuleRef:
    def __init__(self, mod):
        self.mod = mod

    def __repr__(self):
        return f"RepoModuleRef({self.mod.name})"


class SuperRef:
    def __init__(self, cls, obj):
        self.cls, self.obj = cls, obj


class ExtType:
    """External (library / builtin) type usable in isinstance()."""

    def __init__(self, name, pred):
        self.name, self.pred = name, pred

    def __repr__(self):
        return f"ExtType({self.name})"


class NotImpl:
    def __repr__(self):
        return "NotImplemented"


NOTIMPL = NotImpl()


class _Return(Exception):
    def __init__(self, value):
        self.value = value


class _Break(Exception):
    pass


class _Continue(Exception):
    pass


class Env:
    def __init__(self, mod, parent=None, cls=None, func=None):
        self.vars = {}
        self.mod = mod
        self.parent = parent
        self.cls = cls
        self.func = func

    def lookup(self, name):
        e = self
        while e is not None:
            if name in e.vars:
                return e.vars[name]
            e = e.parent
        raise KeyError(name)

    def has(self, name):
        e = self
        while e is not None:
            if name in e.vars:
                return True
            e = e.parent
        return False


MAX_DEPTH = 40


class Interp:
    def __init__(self, repo: Repo, stubs, contracts=None):
        self.repo = repo
        self.stubs = stubs            # object with .external(dotted) and .builtin(name)
        self.contracts = contracts or {}
        self.no_contract = set()      # qualnames to inline even if a contract exists
        self.global_cache = {}
        self.loop_specs = {}          # (qualname, loop ordinal) -> LoopSpec
        self.current = []             # stack of qualnames being interpreted
        self.hooks = {}               # qualname -> list of (pattern, callback) intermediate hooks
        self.last_env = {}
        stubs.interp = self

    # ------------------------------------------------------------------ function values
    def funcval_for(self, qualname):
        mod, cls, node, kind = self.repo.get_function(qualname)
        return FuncVal(mod, node, None, cls, qualname, kind)

    def method_qualname(self, ci, name):
        return f"{ci.qualname}.{name}"

    # ------------------------------------------------------------------ name lookup
    def lookup_name(self, name, env, ctx):
        try:
            return env.lookup(name)
        except KeyError:
            pass
        return self.lookup_module_name(name, env.mod, ctx)

    def lookup_module_name(self, name, mod, ctx):
        r = self.repo.lookup_global(mod, name)
        if r is not None:
            return self.entity_value(r, ctx)
        b = self.stubs.builtin(name)
        if b is not None:
            return b
        raise Unsupported(f"unknown name {name!r} in {mod.name}")

    def entity_value(self, r, ctx):
        if isinstance(r, ClassInfo):
            return ClassRef(r)
        if isinstance(r, ModuleInfo):
            return RepoModuleRef(r)
        if r[0] == "func":
            _, mod, node = r
            return FuncVal(mod, node, None, None, f"{mod.name}.{node.name}")
        if r[0] == "global":
            _, mod, name = r
            key = (mod.name, name)
            if key not in self.global_cache:
                self.global_cache[key] = self.eval(mod.globals[name], Env(mod), ctx)
            return self.global_cache[key]
        if r[0] == "external":
            v = self.stubs.external(r[1])
            if v is None:
                raise Unsupported(f"no stub for external {r[1]}")
            return v
        if r[0] == "classattr":
            return self.get_attr(ClassRef(r[1]), r[2], ctx)
        raise Unsupported(f"entity {r}")

    # ------------------------------------------------------------------ calling
    def bind_args(self, fv: FuncVal, args, kwargs, env, ctx):
        a = fv.node.args
        params = a.posonlyargs + a.args
        n_pos = len(params)
        defaults = a.defaults
        first_default = n_pos - len(defaults)
        kwargs = dict(kwargs)
        pos = list(args)
        for i, p in enumerate(params):
            if i < len(pos):
                if p.arg in kwargs and p not in a.posonlyargs:
                    raise PyExc("TypeError", f"multiple values for {p.arg}")
                env.vars[p.arg] = pos[i]
            elif p.arg in kwargs and p not in a.posonlyargs:
                env.vars[p.arg] = kwargs.pop(p.arg)
            elif i >= first_default:
                env.vars[p.arg] = self.eval(defaults[i - first_default], Env(fv.mod, fv.closure), ctx)
            else:
                raise PyExc("TypeError", f"missing positional argument {p.arg}")
        extra = pos[n_pos:]
        if a.vararg:
            env.vars[a.vararg.arg] = tuple(extra)
        elif extra:
            raise PyExc("TypeError", "too many positional arguments")
        for p, d in zip(a.kwonlyargs, a.kw_defaults):
            if p.arg in kwargs:
                env.vars[p.arg] = kwargs.pop(p.arg)
            elif d is not None:
                env.vars[p.arg] = self.eval(d, Env(fv.mod, fv.closure), ctx)
            else:
                raise PyExc("TypeError", f"missing keyword-only argument {p.arg}")
        if a.kwarg:
            env.vars[a.kwarg.arg] = kwargs
        elif kwargs:
            raise PyExc("TypeError", f"unexpected keyword arguments {sorted(kwargs)}")

    def call_function(self, fv: FuncVal, args, kwargs, ctx, self_val=None):
        """Interpret a repo function body (or use its contract)."""
        if self_val is not None:
            args = (self_val,) + tuple(args)
        qn = fv.qualname
        if fv.dispatch:
            # functools.singledispatch: dispatch on the type of the first argument
            for tval, impl in fv.dispatch:
                if args and self.isinstance_(args[0], tval, ctx):
                    return self.call_function(impl, args, kwargs, ctx)
        if qn in self.contracts and qn not in self.no_contract and qn not in self.current:
            return self.contracts[qn].apply(self, ctx, args, kwargs)
        return self.inline_function(fv, args, kwargs, ctx)

    def inline_function(self, fv, args, kwargs, ctx):
        if len(self.current) > MAX_DEPTH:
            raise Unsupported("recursion depth")
        env = Env(fv.mod, fv.closure, fv.cls, fv)
        self.bind_args(fv, args, kwargs, env, ctx)
        self.current.append(fv.qualname or fv.node.name)
        self.last_env[fv.qualname or fv.node.name] = env
        try:
            self.exec_block(fv.node.body, env, ctx)
        except _Return as r:
            return self._memoized(fv, r.value, ctx)
        finally:
            self.current.pop()
        return None

    def _memoized(self, fv, value, ctx):
        """The value returned by a function decorated with functools.lru_cache / functools.cache is *shared* by every
        later call with equal arguments: an array in it is not memory allocated in the current call, and an in-place
        write to it corrupts the cache (frame rule)."""
        decos = [ast.unparse(d) for d in getattr(fv.node, "decorator_list", [])]
        if not any("lru_cache" in d or d.split(".")[-1].split("(")[0] == "cache" for d in decos):
            return value
        tag = frozenset([f"cache:{fv.qualname or fv.node.name}"])

        def mark(v):
            from .values import SArr as _SArr, Qty as _Qty
            if isinstance(v, _SArr):
                return _SArr(v.shape, v.elem, v.dtype, v.backend, owner=tag)
            if isinstance(v, _Qty) and isinstance(v.val, _SArr):
                return _Qty(mark(v.val), v.dim, v.unit, v.cls)
            if isinstance(v, tuple):
                return tuple(mark(x) for x in v)
            return v
        ctx.note("model: lru_cache'd results are shared objects (writes to them are frame violations)")
        return mark(value)

    def call(self, f, args, kwargs, ctx):
        if isinstance(f, Stub):
            try:
                return f.fn(ctx, *args, **kwargs)
            except TypeError as e:
                # a call form the stub does not model (extra keyword, other arity) is outside the subset
                if any(k in str(e) for k in ("unexpected keyword argument", "positional argument", "multiple values for argument", "required keyword-only argument")):
                    raise Unsupported(f"call form of {getattr(f, 'name', f)} not modelled: {e}")
                raise
        if isinstance(f, FuncVal):
            return self.call_function(f, args, kwargs, ctx)
        if isinstance(f, Bound):
            if isinstance(f.func, FuncVal):
                return self.call_function(f.func, args, kwargs, ctx, self_val=f.self_val)
            if isinstance(f.func, Stub):
                return f.func.fn(ctx, f.self_val, *args, **kwargs)
            return self.call(f.func, (f.self_val,) + tuple(args), kwargs, ctx)
        if isinstance(f, ClassRef):
            return self.instantiate(f.ci, args, kwargs, ctx)
        if isinstance(f, NS) and f.call is not None:
            return f.call(ctx, *args, **kwargs)
        if isinstance(f, ExtType) and getattr(f, "ctor", None):
            return f.ctor(ctx, *args, **kwargs)
        if callable(f) and getattr(f, "_native_ok", False):
            return f(*args, **kwargs)
        raise Unsupported(f"call of {f!r}")

    def instantiate(self, ci: ClassInfo, args, kwargs, ctx):
        ext = ci.external_bases()
        hook = self.stubs.instantiate_hook(ci, ext)
        if hook is not None:
            return hook(ctx, ci, args, kwargs)
        obj = Obj(ci)
        cls, init = ci.find_method("__init__")
        if init is not None:
            fv = FuncVal(cls.module, init, None, cls, self.method_qualname(cls, "__init__"), "method")
            self.call_function(fv, args, kwargs, ctx, self_val=obj)
        elif args or kwargs:
            raise PyExc("TypeError", "object() takes no arguments")
        return obj

    # ------------------------------------------------------------------ isinstance
    def isinstance_(self, v, t, ctx):
        if isinstance(t, tuple):
            return any(self.isinstance_(v, x, ctx) for x in t)
        if isinstance(t, ClassRef):
            if isinstance(v, Obj):
                return v.cls.is_subclass(t.ci)
            return self.stubs.isinstance_repo(v, t.ci)
        if isinstance(t, ExtType):
            return bool(t.pred(v))
        raise Unsupported(f"isinstance with {t!r}")

    def issubclass_(self, c, t, ctx):
        if isinstance(t, tuple):
            return any(self.issubclass_(c, x, ctx) for x in t)
        if isinstance(c, ClassRef) and isinstance(t, ClassRef):
            return c.ci.is_subclass(t.ci)
        if isinstance(c, ClassRef) and isinstance(t, ExtType):
            return False
        raise PyExc("TypeError", "issubclass() arg 1 must be a class")

    # ------------------------------------------------------------------ attributes
    def get_attr(self, v, name, ctx):
        if isinstance(v, Obj):
            return self.obj_getattr(v, name, ctx)
        if isinstance(v, ClassRef):
            ci = v.ci
            if name == "__name__":
                return ci.name
            if name == "__module__":
                return ci.module.name
            cls, m = ci.find_method(name)
            if m is not None:
                fv = FuncVal(cls.module, m, None, cls, self.method_qualname(cls, name), "method")
                if name in cls.classmethods:
                    return Bound(fv, v)
                return fv
            cls, a = ci.find_attr(name)
            if a is not None:
                return self.eval(a, Env(cls.module, None, cls), ctx)
            hv = self.stubs.class_getattr(ci, name, ctx)
            if hv is not None:
                return hv
            raise PyExc("AttributeError", name)
        if isinstance(v, RepoModuleRef):
            r = self.repo.resolve_dotted(f"{v.mod.name}.{name}")
            if r is None and f"{v.mod.name}.{name}" in self.repo.modules:
                r = self.repo.modules[f"{v.mod.name}.{name}"]
            if r is not None:
                return self.entity_value(r, ctx)
            if "__getattr__" in v.mod.functions:
                fv = FuncVal(v.mod, v.mod.functions["__getattr__"], None, None, f"{v.mod.name}.__getattr__")
                return self.call_function(fv, (name,), {}, ctx)
            raise PyExc("AttributeError", name)
        if isinstance(v, NS):
            if name in v.attrs:
                return v.attrs[name]
            if v.getattr_hook is not None:
                r = v.getattr_hook(ctx, name)
                if r is not None:
                    return r
            raise Unsupported(f"no stub for {v.name}.{name}")
        if isinstance(v, FuncVal):
            if name in v.attrs:
                return v.attrs[name]
            if name == "register":
                return Stub(lambda ctx, t: Stub(lambda ctx2, impl: self._register(v, t, impl)), "singledispatch.register")
            if name in ("__name__", "__qualname__"):
                return v.node.name
            if name == "__doc__":
                return ast.get_docstring(v.node)
            raise PyExc("AttributeError", name)
        if isinstance(v, SuperRef):
            cls, m = v.obj.cls.find_method(name, after=v.cls) if isinstance(v.obj, Obj) else (None, None)
            if m is None:
                hv = self.stubs.super_getattr(v, name, ctx)
                if hv is not None:
                    return hv
                raise Unsupported(f"super().{name} reaches an external base")
            fv = FuncVal(cls.module, m, None, cls, self.method_qualname(cls, name), "method")
            return Bound(fv, v.obj)
        r = self.stubs.value_getattr(v, name, ctx)
        if r is not NotImplemented:
            return r
        raise Unsupported(f"attribute {name!r} of {type(v).__name__}")

    def _register(self, fv, tval, impl):
        fv.dispatch = (fv.dispatch or []) + [(tval, impl)]
        return impl

    def obj_getattr(self, obj, name, ctx):
        ci = obj.cls
        pc, prop = ci.find_property(name)
        if prop is not None and prop["get"] is not None:
            qn = f"{pc.qualname}.{name}"
            fv = FuncVal(pc.module, prop["get"], None, pc, qn, "getter")
            return self.call_function(fv, (), {}, ctx, self_val=obj)
        if name in obj.fields:
            return obj.fields[name]
        cls, m = ci.find_method(name)
        if m is not None:
            fv = FuncVal(cls.module, m, None, cls, self.method_qualname(cls, name), "method")
            if name in cls.classmethods:
                return Bound(fv, ClassRef(ci))
            if name in cls.staticmethods:
                return fv
            return Bound(fv, obj)
        cls, a = ci.find_attr(name)
        if a is not None:
            return self.eval(a, Env(cls.module, None, cls), ctx)
        if name == "__class__":
            return ClassRef(ci)
        hv = self.stubs.obj_getattr(obj, name, ctx)
        if hv is not NotImplemented:
            return hv
        raise PyExc("AttributeError", f"{ci.name} has no attribute {name}")

    def has_attr(self, v, name, ctx):
        try:
            self.get_attr(v, name, ctx)
            return True
        except PyExc as e:
            if e.kind == "AttributeError":
                return False
            raise

    def set_attr(self, v, name, val, ctx):
        if isinstance(v, Obj):
            pc, prop = v.cls.find_property(name)
            if prop is not None:
                if prop["set"] is None:
                    raise PyExc("AttributeError", f"can't set attribute {name}")
                self.frame_write_obj(v, name, ctx)
                fv = FuncVal(pc.module, prop["set"], None, pc, f"{pc.qualname}.{name}.fset", "setter")
                self.call_function(fv, (val,), {}, ctx, self_val=v)
                return
            self.frame_write_obj(v, name, ctx)
            v.fields[name] = val
            return
        if isinstance(v, FuncVal):
            v.attrs[name] = val
            return
        if self.stubs.value_setattr(v, name, val, ctx):
            return
        raise Unsupported(f"attribute store on {type(v).__name__}")

    def frame_write_obj(self, obj, name, ctx):
        ctx.oblige(f"frame.attr-store[{obj.cls.name}.{name}]", bool(obj.born_in_call), "frame",
                   {"what": f"attribute store {name} on " + ("an object constructed in this call" if obj.born_in_call else "an input object")})

    # ------------------------------------------------------------------ statements
    def exec_block(self, stmts, env, ctx):
        for st in stmts:
            self.exec_stmt(st, env, ctx)

    def exec_stmt(self, st, env, ctx):
        m = getattr(self, "st_" + type(st).__name__, None)
        if m is None:
            raise Unsupported(f"statement {type(st).__name__}")
        self.run_hooks("before", st, env, ctx)
        m(st, env, ctx)
        self.run_hooks("after", st, env, ctx)

    def run_hooks(self, when, st, env, ctx):
        if not self.hooks or not self.current:
            return
        hs = self.hooks.get(self.current[-1])
        if not hs:
            return
        txt = None
        for (w, pattern, cb) in hs:
            if w != when:
                continue
            if txt is None:
                txt = ast.unparse(st)
            if pattern in txt.split("\n")[0]:
                cb(self, ctx, env, st)

    def st_Expr(self, st, env, ctx):
        if isinstance(st.value, ast.Constant) and isinstance(st.value.value, str):
            return
        self.eval(st.value, env, ctx)

    def st_Pass(self, st, env, ctx):
        pass

    def st_Return(self, st, env, ctx):
        raise _Return(None if st.value is None else self.eval(st.value, env, ctx))

    def st_Break(self, st, env, ctx):
        raise _Break()

    def st_Continue(self, st, env, ctx):
        raise _Continue()

    def st_Assign(self, st, env, ctx):
        v = self.eval(st.value, env, ctx)
        for t in st.targets:
            self.assign(t, v, env, ctx)

    def st_AnnAssign(self, st, env, ctx):
        if st.value is not None:
            self.assign(st.target, self.eval(st.value, env, ctx), env, ctx)

    def assign(self, t, v, env, ctx):
        if isinstance(t, ast.Name):
            env.vars[t.id] = v
        elif isinstance(t, (ast.Tuple, ast.List)):
            items = self.iterate(v, ctx)
            star = [i for i, e in enumerate(t.elts) if isinstance(e, ast.Starred)]
            if star:
                k = star[0]
                after = len(t.elts) - k - 1
                if len(items) < len(t.elts) - 1:
                    raise PyExc("ValueError", "not enough values to unpack")
                for e, x in zip(t.elts[:k], items[:k]):
                    self.assign(e, x, env, ctx)
                self.assign(t.elts[k].value, list(items[k:len(items) - after]), env, ctx)
                for e, x in zip(t.elts[k + 1:], items[len(items) - after:]):
                    self.assign(e, x, env, ctx)
            else:
                if len(items) != len(t.elts):
                    raise PyExc("ValueError", "unpack length mismatch")
                for e, x in zip(t.elts, items):
                    self.assign(e, x, env, ctx)
        elif isinstance(t, ast.Attribute):
            self.set_attr(self.eval(t.value, env, ctx), t.attr, v, ctx)
        elif isinstance(t, ast.Subscript):
            base = self.eval(t.value, env, ctx)
            idx = self.eval_index(t.slice, env, ctx)
            self.setitem(base, idx, v, ctx)
        else:
            raise Unsupported(f"assign target {type(t).__name__}")

    def st_AugAssign(self, st, env, ctx):
        t = st.target
        cur = self.eval(t, env, ctx) if not isinstance(t, ast.Subscript) else None
        if isinstance(t, ast.Subscript):
            base = self.eval(t.value, env, ctx)
            idx = self.eval_index(t.slice, env, ctx)
            cur = self.getitem(base, idx, ctx)
            rhs = self.eval(st.value, env, ctx)
            self.setitem(base, idx, self.binop(st.op, cur, rhs, ctx), ctx)
            return
        rhs = self.eval(st.value, env, ctx)
        # in-place semantics: arrays / Quantities-of-arrays / lists mutate; scalars and Time rebind
        if self.stubs.inplace(cur, st.op, rhs, ctx):
            if isinstance(t, ast.Attribute):
                # obj.attr op= x  is  obj.attr = obj.attr.__iop__(x): the (same) object is assigned back, through a
                # property setter when there is one
                self.assign(t, cur, env, ctx)
            return
        self.assign(t, self.binop(st.op, cur, rhs, ctx), env, ctx)

    def st_If(self, st, env, ctx):
        c = self.truthy(self.eval(st.test, env, ctx), ctx, label=_lab(st.test))
        self.exec_block(st.body if c else st.orelse, env, ctx)

    def st_Assert(self, st, env, ctx):
        c = self.truthy(self.eval(st.test, env, ctx), ctx, label="assert " + _lab(st.test))
        if not c:
            raise PyExc("AssertionError", "")

    def st_Raise(self, st, env, ctx):
        if st.exc is None:
            raise Unsupported("bare raise")
        e = st.exc
        if isinstance(e, ast.Call):
            kind = self.exc_kind(self.eval(e.func, env, ctx))
            # evaluate message arguments for their side-effect-freeness only when cheap: skipped
            raise PyExc(kind, ast.unparse(e.args[0]) if e.args else "")
        kind = self.exc_kind(self.eval(e, env, ctx))
        raise PyExc(kind, "")

    def exc_kind(self, v):
        if isinstance(v, ClassRef):
            # repo-defined exception: register parent lazily
            ci = v.ci
            if ci.name not in V.EXC_PARENTS:
                b = ci.bases[0] if ci.bases else "Exception"
                V.EXC_PARENTS[ci.name] = b.name if isinstance(b, ClassInfo) else str(b).split(".")[-1]
            return ci.name
        if isinstance(v, ExtType):
            return v.name
        raise Unsupported(f"raise of {v!r}")

    def st_Try(self, st, env, ctx):
        if st.finalbody:
            raise Unsupported("try/finally")
        try:
            self.exec_block(st.body, env, ctx)
        except PyExc as e:
            for h in st.handlers:
                if h.type is None or self.exc_matches(e.kind, self.eval(h.type, env, ctx)):
                    if h.name:
                        env.vars[h.name] = e
                    self.exec_block(h.body, env, ctx)
                    return
            raise
        else:
            self.exec_block(st.orelse, env, ctx)

    def exc_matches(self, kind, t):
        if isinstance(t, tuple):
            return any(self.exc_matches(kind, x) for x in t)
        return V.exc_isinstance(kind, self.exc_kind(t))

    def st_With(self, st, env, ctx):
        mgrs = []
        for item in st.items:
            m = self.eval(item.context_expr, env, ctx)
            entered = self.stubs.with_enter(m, ctx)
            mgrs.append(m)
            if item.optional_vars is not None:
                self.assign(item.optional_vars, entered, env, ctx)
        try:
            self.exec_block(st.body, env, ctx)
        finally:
            for m in reversed(mgrs):
                self.stubs.with_exit(m, ctx)

    def st_FunctionDef(self, st, env, ctx):
        fv = FuncVal(env.mod, st, env, env.cls, f"{self.current[-1] if self.current else env.mod.name}.<locals>.{st.name}")
        val = fv
        for d in reversed(st.decorator_list):
            dv = self.eval(d, env, ctx)
            val = self.call(dv, (val,), {}, ctx)
        env.vars[st.name] = val

    def st_Import(self, st, env, ctx):
        for a in st.names:
            v = self.stubs.external(a.name)
            if v is None:
                raise Unsupported(f"import {a.name}")
            env.vars[a.asname or a.name.split(".")[0]] = v if a.asname else self.stubs.external(a.name.split(".")[0])

    def st_ImportFrom(self, st, env, ctx):
        for a in st.names:
            v = self.stubs.external(f"{st.module}.{a.name}")
            if v is None:
                raise Unsupported(f"from {st.module} import {a.name}")
            env.vars[a.asname or a.name] = v

    def st_Delete(self, st, env, ctx):
        raise Unsupported("del")

    def st_Global(self, st, env, ctx):
        raise Unsupported("global")

    def st_Nonlocal(self, st, env, ctx):
        raise Unsupported("nonlocal")

    # -- loops ------------------------------------------------------------------------
    def loop_ordinal(self, st, env):
        fn = env.func.node if env.func else None
        if fn is None:
            return None
        k = 0
        for n in ast.walk(fn):
            if isinstance(n, (ast.While, ast.For)):
                if n is st:
                    return k
                k += 1
        return None

    def find_loop_spec(self, st, env):
        if not self.current:
            return None
        return self.loop_specs.get((self.current[-1], self.loop_ordinal(st, env)))

    def st_While(self, st, env, ctx):
        spec = self.find_loop_spec(st, env)
        if spec is not None:
            return spec.run_while(self, st, env, ctx)
        # no invariant: unroll while the condition is decided concretely (bounded unrolling is
        # never used to discharge anything: a symbolic condition without invariant is Unsupported)
        n = 0
        while True:
            c = self.eval(st.test, env, ctx)
            c = conc(c) if is_sym(c) else c
            if not isinstance(c, bool):
                c2 = self.truthy(c, ctx, label="while")
                if is_sym(c) and not isinstance(conc(c), bool):
                    n += 1
                    if n > 64:
                        raise Unsupported("while loop without invariant (symbolic condition)")
                c = c2
            if not c:
                break
            try:
                self.exec_block(st.body, env, ctx)
            except _Break:
                return
            except _Continue:
                continue
        self.exec_block(st.orelse, env, ctx)

    def st_For(self, st, env, ctx):
        spec = self.find_loop_spec(st, env)
        it = self.eval(st.iter, env, ctx)
        if spec is not None:
            return spec.run_for(self, st, it, env, ctx)
        custom = self.stubs.for_loop(self, st, it, env, ctx)
        if custom:
            return
        items = self.iterate(it, ctx)
        for x in items:
            self.assign(st.target, x, env, ctx)
            try:
                self.exec_block(st.body, env, ctx)
            except _Break:
                return
            except _Continue:
                continue
        self.exec_block(st.orelse, env, ctx)

    def iterate(self, v, ctx):
        """Concrete-length iteration."""
        if isinstance(v, (list, tuple)):
            return list(v)
        if isinstance(v, dict):
            return list(v.keys())
        if isinstance(v, (set, frozenset)):
            return sorted(v, key=repr)
        if isinstance(v, str):
            return list(v)
        if isinstance(v, range):
            return list(v)
        r = self.stubs.iterate(v, ctx)
        if r is not NotImplemented:
            return r
        raise Unsupported(f"iteration over {type(v).__name__}")

    # ------------------------------------------------------------------ expressions
    def eval(self, node, env, ctx):
        m = getattr(self, "ex_" + type(node).__name__, None)
        if m is None:
            raise Unsupported(f"expression {type(node).__name__}")
        return m(node, env, ctx)

    def ex_Constant(self, n, env, ctx):
        v = n.value
        if isinstance(v, float):
            # model E: a float literal denotes its exact decimal value
            src = ast.get_source_segment(env.mod.src, n) if hasattr(n, "lineno") else None
            try:
                return Fraction(src) if src else Fraction(repr(v))
            except (ValueError, TypeError):
                return Fraction(repr(v))
        if isinstance(v, complex):
            return Cx(0, Fraction(repr(v.imag)))
        if v is Ellipsis:
            return V.Ellip()
        return v

    def ex_Name(self, n, env, ctx):
        if n.id == "NotImplemented":
            return NOTIMPL
        return self.lookup_name(n.id, env, ctx)

    def ex_NamedExpr(self, n, env, ctx):
        v = self.eval(n.value, env, ctx)
        env.vars[n.target.id] = v
        return v

    def ex_Tuple(self, n, env, ctx):
        return tuple(self.eval_elts(n.elts, env, ctx))

    def ex_List(self, n, env, ctx):
        return list(self.eval_elts(n.elts, env, ctx))

    def ex_Set(self, n, env, ctx):
        return set(self.eval_elts(n.elts, env, ctx))

    def eval_elts(self, elts, env, ctx):
        out = []
        for e in elts:
            if isinstance(e, ast.Starred):
                out.extend(self.iterate(self.eval(e.value, env, ctx), ctx))
            else:
                out.append(self.eval(e, env, ctx))
        return out

    def ex_Dict(self, n, env, ctx):
        d = {}
        for k, v in zip(n.keys, n.values):
            if k is None:
                d.update(self.eval(v, env, ctx))
            else:
                d[self.eval(k, env, ctx)] = self.eval(v, env, ctx)
        return d

    def ex_JoinedStr(self, n, env, ctx):
        # text of messages is opaque (extraction drops it); evaluate nothing.  What is kept: whether the text
        # embeds a content token (dask.base.tokenize / uuid), which the Dask task-name rule asks about
        tok = any(isinstance(c, ast.Call) and (getattr(c.func, "id", None) or getattr(c.func, "attr", "")) in ("tokenize", "uuid4", "uuid1")
                  for c in ast.walk(n))
        for c in ast.walk(n):
            if isinstance(c, ast.Name) and env.has(c.id) and isinstance(env.lookup(c.id), FStr):
                tok = tok or env.lookup(c.id).token
        return FStr("<fstring>", tok)

    def ex_Attribute(self, n, env, ctx):
        return self.get_attr(self.eval(n.value, env, ctx), n.attr, ctx)

    def ex_Subscript(self, n, env, ctx):
        base = self.eval(n.value, env, ctx)
        idx = self.eval_index(n.slice, env, ctx)
        return self.getitem(base, idx, ctx)

    def eval_index(self, s, env, ctx):
        if isinstance(s, ast.Slice):
            return SSlice(*(None if x is None else self.eval(x, env, ctx) for x in (s.lower, s.upper, s.step)))
        if isinstance(s, ast.Tuple):
            return tuple(self.eval_index(e, env, ctx) for e in s.elts)
        return self.eval(s, env, ctx)

    def ex_Slice(self, n, env, ctx):
        return self.eval_index(n, env, ctx)

    def ex_Starred(self, n, env, ctx):
        raise Unsupported("starred expression")

    def ex_IfExp(self, n, env, ctx):
        c = self.truthy(self.eval(n.test, env, ctx), ctx, label=_lab(n.test))
        return self.eval(n.body if c else n.orelse, env, ctx)

    def ex_Lambda(self, n, env, ctx):
        fn = ast.FunctionDef(name="<lambda>", args=n.args, body=[ast.Return(value=n.body)], decorator_list=[])
        return FuncVal(env.mod, fn, env, env.cls, "<lambda>")

    def ex_BoolOp(self, n, env, ctx):
        is_and = isinstance(n.op, ast.And)
        v = None
        for i, e in enumerate(n.values):
            v = self.eval(e, env, ctx)
            if i == len(n.values) - 1:
                return v
            t = self.truthy(v, ctx, label=_lab(e))
            if is_and and not t:
                return v
            if not is_and and t:
                return v
        return v

    def ex_UnaryOp(self, n, env, ctx):
        v = self.eval(n.operand, env, ctx)
        if isinstance(n.op, ast.Not):
            t = self.truthy_sym(v, ctx)
            return V.Not(t)
        return self.unop(n.op, v, ctx)

    def ex_BinOp(self, n, env, ctx):
        a = self.eval(n.left, env, ctx)
        b = self.eval(n.right, env, ctx)
        return self.binop(n.op, a, b, ctx)

    def ex_Compare(self, n, env, ctx):
        left = self.eval(n.left, env, ctx)
        res = True
        for op, rn in zip(n.ops, n.comparators):
            right = self.eval(rn, env, ctx)
            r = self.compare(op, left, right, ctx)
            if len(n.ops) == 1:
                return r
            res = self.stubs.logical_and(res, r, ctx)
            left = right
        return res

    def ex_Call(self, n, env, ctx):
        # super() special form
        if isinstance(n.func, ast.Name) and n.func.id == "super" and not n.args:
            return SuperRef(env_cls(env), env_self(env))
        f = self.eval(n.func, env, ctx)
        args = []
        for a in n.args:
            if isinstance(a, ast.Starred):
                args.extend(self.iterate(self.eval(a.value, env, ctx), ctx))
            else:
                args.append(self.eval(a, env, ctx))
        kwargs = {}
        for k in n.keywords:
            if k.arg is None:
                d = self.eval(k.value, env, ctx)
                if not isinstance(d, dict):
                    raise Unsupported("** of non-dict")
                for kk in d:
                    if kk in kwargs:
                        raise PyExc("TypeError", f"got multiple values for keyword argument {kk}")
                kwargs.update(d)
            else:
                kwargs[k.arg] = self.eval(k.value, env, ctx)
        return self.call(f, tuple(args), kwargs, ctx)

    def ex_GeneratorExp(self, n, env, ctx):
        return self.comprehension(n, env, ctx)

    def ex_ListComp(self, n, env, ctx):
        return self.comprehension(n, env, ctx)

    def ex_SetComp(self, n, env, ctx):
        return set(self.comprehension(n, env, ctx))

    def ex_DictComp(self, n, env, ctx):
        raise Unsupported("dict comprehension")

    def comprehension(self, n, env, ctx):
        if len(n.generators) == 1 and not n.generators[0].ifs and not n.generators[0].is_async:
            g = n.generators[0]
            src_v = self.eval(g.iter, env, ctx)
            sq = self.stubs.iterate_sym(src_v, ctx)
            if sq is not None:
                return self.sym_comprehension(n, g, sq, env, ctx)
        out = []

        def rec(i, e):
            if i == len(n.generators):
                out.append(self.eval(n.elt, e, ctx))
                return
            g = n.generators[i]
            for x in self.iterate(self.eval(g.iter, e, ctx), ctx):
                e2 = Env(e.mod, e, e.cls, e.func)
                self.assign(g.target, x, e2, ctx)
                if all(self.truthy(self.eval(c, e2, ctx), ctx, label="comp-if") for c in g.ifs):
                    rec(i + 1, e2)
        rec(0, env)
        return out

    def sym_comprehension(self, n, g, sq, env, ctx):
        """[elt for target in seq] over a sequence of symbolic length: the element expression is a pure map
        (checked: it must not write to anything) evaluated once at a generic index (so that exceptions raised
        for some element are raised), and again at each index at which the result is inspected."""
        from .values import SSeq
        from .ctx import Infeasible
        if not ctx.branch(V.lt(0, sq.n), "non-empty symbolic sequence"):
            return []
        cache = {}

        def item(i, first=False):
            key = i if isinstance(i, int) else z3.simplify(V.Z(i)).sexpr()
            if key in cache:
                return cache[key]
            e2 = Env(env.mod, env, env.cls, env.func)
            nw = len(ctx.writes)
            try:
                self.assign(g.target, sq.item(i), e2, ctx)
                v = self.eval(n.elt, e2, ctx)
            except PyExc:
                if first:
                    raise
                # the generic element did not raise on this path, i.e. no element raises
                raise Infeasible("comprehension element raises at an inspected index but not generically")
            if len(ctx.writes) != nw:
                raise Unsupported("comprehension over a symbolic-length sequence with side effects")
            cache[key] = v
            return v
        iota = ctx.fresh("iota", "int")
        ctx.assume(z3.And(iota >= 0, iota < V.Z(sq.n)), why="generic comprehension index")
        ctx.fold_point(iota, sq.n)
        template = item(iota, first=True)
        return SSeq(sq.n, item, template, iota)

    # ------------------------------------------------------------------ operators
    def truthy_sym(self, v, ctx):
        """Truth value as bool or z3 Bool (no forking)."""
        if isinstance(v, bool):
            return v
        if v is None or v is NOTIMPL and False:
            return False
        if is_sym(v):
            if z3.is_bool(v):
                return conc(v)
            return conc(v != 0)
        if isinstance(v, (int, Fraction)):
            return v != 0
        if isinstance(v, (str, tuple, list, dict, set, frozenset)):
            return len(v) > 0
        r = self.stubs.truthy(v, ctx)
        if r is not NotImplemented:
            return r
        return True

    def truthy(self, v, ctx, label=""):
        t = self.truthy_sym(v, ctx)
        return ctx.branch(t, label)

    def unop(self, op, v, ctx):
        r = self.stubs.unop(op, v, ctx)
        if r is not NotImplemented:
            return r
        if isinstance(op, ast.USub):
            return V.neg(v)
        if isinstance(op, ast.UAdd):
            return v
        if isinstance(op, ast.Invert):
            if isinstance(v, bool) or (is_sym(v) and z3.is_bool(v)):
                return V.Not(v)
            raise Unsupported("~ on non-bool")
        raise Unsupported(f"unary {type(op).__name__}")

    def binop(self, op, a, b, ctx):
        r = self.stubs.binop(op, a, b, ctx)
        if r is not NotImplemented:
            return r
        known = (type(None), bool, int, Fraction, str, tuple, list, dict, Qty, STime, SArr, Cx, V.Unit, z3.ExprRef)
        if isinstance(a, known) and isinstance(b, known):
            raise PyExc("TypeError", f"unsupported operand type(s) for {type(op).__name__}")
        raise Unsupported(f"binop {type(op).__name__} on {type(a).__name__},{type(b).__name__}")

    def compare(self, op, a, b, ctx):
        if isinstance(op, (ast.Is, ast.IsNot)):
            r = self.identical(a, b)
            return r if isinstance(op, ast.Is) else V.Not(r)
        if isinstance(op, (ast.In, ast.NotIn)):
            r = self.contains(b, a, ctx)
            return r if isinstance(op, ast.In) else V.Not(r)
        r = self.stubs.compare(op, a, b, ctx)
        if r is not NotImplemented:
            return r
        raise Unsupported(f"compare {type(op).__name__} on {type(a).__name__},{type(b).__name__}")

    def identical(self, a, b):
        if a is None or b is None:
            return a is None and b is None
        if isinstance(a, bool) or isinstance(b, bool):
            if isinstance(a, bool) and isinstance(b, bool):
                return a == b
            if is_sym(a) and z3.is_bool(a) and isinstance(b, bool):
                return a if b else z3.Not(a)
            if is_sym(b) and z3.is_bool(b) and isinstance(a, bool):
                return b if a else z3.Not(b)
            return False
        if isinstance(a, (ClassRef, ExtType, NS, Stub)) or isinstance(b, (ClassRef, ExtType, NS, Stub)):
            return a == b if isinstance(a, ClassRef) else a is b
        if isinstance(a, DType) and isinstance(b, DType):
            return a == b
        if isinstance(a, str) and isinstance(b, str):
            return a == b
        return a is b

    def contains(self, container, x, ctx):
        if isinstance(container, (set, frozenset, tuple, list)):
            res = False
            for e in container:
                r = self.stubs.compare(ast.Eq(), x, e, ctx) if not (isinstance(x, str) or isinstance(e, str)) else (
                    isinstance(x, str) and isinstance(e, str) and x == e)
                if r is NotImplemented:
                    r = self.identical(x, e)
                res = V.Or(res, r)
                if res is True:
                    return True
            return res
        if isinstance(container, dict):
            return x in container
        if isinstance(container, str):
            return x in container
        r = self.stubs.contains(container, x, ctx)
        if r is not NotImplemented:
            return r
        raise Unsupported(f"`in` on {type(container).__name__}")

    def getitem(self, base, idx, ctx):
        r = self.stubs.getitem(base, idx, ctx)
        if r is not NotImplemented:
            return r
        raise Unsupported(f"subscript on {type(base).__name__}")

    def setitem(self, base, idx, val, ctx):
        if self.stubs.setitem(base, idx, val, ctx):
            return
        raise Unsupported(f"subscript store on {type(base).__name__}")


def env_cls(env):
    e = env
    while e is not None:
        if e.cls is not None:
            return e.cls
        e = e.parent
    raise Unsupported("super() outside class")


def env_self(env):
    e = env
    while e is not None:
        if e.func is not None and e.cls is not None:
            a = e.func.node.args
            params = a.posonlyargs + a.args
            if params:
                return e.vars[params[0].arg]
        e = e.parent
    raise Unsupported("super() without self")


def _lab(node):
    try:
        s = ast.unparse(node)
    except Exception:
        s = "?"
    return s if len(s) < 60 else s[:57] + "..."
