"""Per-path context: path condition, decisions, obligations, fresh symbols, assumptions used."""
from __future__ import annotations
import itertools
import z3
from .values import Z, conc, CONST_FACTS, PyExc


class Unsupported(Exception):
    """Construct outside the modelled subset: the path is undecided, never a violation."""


class Infeasible(Exception):
    """Path condition became unsatisfiable."""


class Obligation:
    __slots__ = ("name", "hyps", "goal", "kind", "meta", "path")

    def __init__(self, name, hyps, goal, kind, meta=None, path=None):
        self.name, self.hyps, self.goal, self.kind = name, hyps, goal, kind
        self.meta = meta or {}
        self.path = path

    def key(self):
        return (self.name, tuple(h.get_id() for h in self.hyps), Z(self.goal).get_id())

    def smt2(self):
        s = z3.Solver()
        for h in self.hyps:
            s.add(h)
        s.add(z3.Not(Z(self.goal)))
        return s.to_smt2()


def _is_linear(e, _cache={}):
    """No product of two non-constant terms anywhere in e (cheap facts for the pruning solver)."""
    k = e.get_id()
    todo = [e]
    seen = set()
    while todo:
        t = todo.pop()
        i = t.get_id()
        if i in seen:
            continue
        seen.add(i)
        if z3.is_quantifier(t):
            return False
        if z3.is_app(t):
            if z3.is_mul(t):
                nonconst = [a for a in t.children() if not (z3.is_rational_value(a) or z3.is_int_value(a))]
                if len(nonconst) > 1:
                    return False
            todo.extend(t.children())
    return True


def _is_int_term(t):
    if isinstance(t, bool):
        return False
    if isinstance(t, int):
        return True
    return z3.is_expr(t) and t.sort() == z3.IntSort()


class PathCtx:
    BRANCH_TIMEOUT_MS = 1500

    def __init__(self, decisions=(), budget=None):
        self.pc = list(CONST_FACTS)
        self.pc_why = ["const"] * len(self.pc)
        self.decisions = list(decisions)
        self.pos = 0
        self.new_forks = []        # decision prefixes to explore later
        self.obligations = []
        self.counter = itertools.count()
        self.div_cache = {}
        self.assumptions = set()   # labels of stubs / axioms used on this path
        self.taints = []
        self.solver = z3.Solver()
        self.solver.set("timeout", self.BRANCH_TIMEOUT_MS)
        # pruning solver over the linear facts only: unsat there => unsat with everything (sound pruning);
        # it answers in milliseconds where the full path condition (nonlinear reals) takes seconds
        self.lin = z3.Solver()
        self.lin.set("timeout", 1000)
        for f in self.pc:
            self.solver.add(f)
            if _is_linear(f):
                self.lin.add(f)
        self.trace = []            # branch labels taken (for reporting)
        self.frozen = {}           # id(container) -> description (parameter-owned mutable containers)
        self.frozen_qty = {}       # id(Qty) -> description (parameter-owned Quantity objects)
        self.frozen_keep = []      # keeps those objects alive so that ids are not recycled
        self.dirty_roots = set()
        self.sanctioned = set()
        self.oblig_prefix = ""
        self.oblig_tag = ""
        self.writes = []           # (description, owner roots)
        self.inputs = {}           # name -> symbolic input description (for replay)
        self.depth = 0
        self.events = []           # forcing operations etc. (typestate)
        self.opaque_registry = []  # opaque arrays created on this path (for unification)
        self.lemma_hooks = []
        self.folds = []            # MaxOver/MinOver symbols over symbolic index ranges (see fold_extreme)
        self.fold_points = []      # (index term, length term) at which fold universals are instantiated
        self.index_hooks = []      # contract-supplied ground-lemma generators, called for every index term registered

    # -- symbols ---------------------------------------------------------------------
    def fresh(self, prefix, sort="real"):
        n = f"{prefix}!{next(self.counter)}"
        if sort == "real":
            return z3.Real(n)
        if sort == "int":
            return z3.Int(n)
        return z3.Bool(n)

    # -- extrema over symbolic index ranges --------------------------------------------------
    def fold_extreme(self, kind, n, f, tag="fold"):
        """The maximum (kind='max') / minimum ('min') of f(i) over 0 <= i < n, n >= 1 symbolic.

        Returned as a fresh integer/real symbol m with its *defining* facts, quantifier-free:
        attained at a witness w (0 <= w < n, m == f(w)) and bounding f at every registered index
        term of a range of the same length: the witnesses of all other folds, and the Skolem
        indices registered with `fold_point` (post-condition indices).  Instantiating a
        universal fact at finitely many terms only weakens what is assumed (sound); which
        points are needed for completeness is what the cross-instantiation provides: two
        extrema of pointwise-related functions are compared through each other's witnesses."""
        nk = z3.simplify(Z(n) if not isinstance(n, int) else z3.IntVal(n)).sexpr()
        w = self.fresh(f"w_{tag}", "int")
        self.assume(z3.And(w >= 0, w < Z(n)), why=f"fold-witness-range:{tag}")
        for hook in getattr(self, "index_hooks", ()):
            hook(self, w, n)
        fw = f(w)
        m = self.fresh(f"{kind}_{tag}", "int" if _is_int_term(fw) else "real")
        self.assume(z3.And(w >= 0, w < Z(n)), why=f"fold-witness-range:{tag}")
        self.assume(m == Z(fw), why=f"fold-attained:{tag}")
        rec = {"kind": kind, "n": nk, "f": f, "m": m, "w": w, "tag": tag}
        def inst(rec, i):
            fi = Z(rec["f"](i))
            self.assume((rec["m"] >= fi) if rec["kind"] == "max" else (rec["m"] <= fi), why=f"fold-bound:{rec['tag']}")
        for other in self.folds:
            if other["n"] == nk:
                inst(other, w)
                inst(rec, other["w"])
        for (i, k) in self.fold_points:
            if k == nk:
                inst(rec, i)
        self.folds.append(rec)
        self.note("math: extremum over a symbolic index range introduced by witness + ground instances of its bound")
        return m

    def fold_point(self, i, n):
        """Register an index term i (0 <= i < n) at which every extremum over a range of length n is bounded."""
        nk = z3.simplify(Z(n) if not isinstance(n, int) else z3.IntVal(n)).sexpr()
        self.fold_points.append((i, nk))
        for hook in getattr(self, "index_hooks", ()):
            hook(self, i, n)
        for rec in self.folds:
            if rec["n"] == nk:
                fi = Z(rec["f"](i))
                self.assume((rec["m"] >= fi) if rec["kind"] == "max" else (rec["m"] <= fi), why=f"fold-bound:{rec['tag']}")

    # -- assumptions ----------------------------------------------------------------
    def assume(self, f, why="assume"):
        f = conc(f) if not isinstance(f, bool) else f
        if f is True:
            return
        if f is False:
            raise Infeasible(why)
        self.pc.append(f)
        self.pc_why.append(why)
        self.solver.add(f)
        if _is_linear(f):
            self.lin.add(f)

    def note(self, label):
        self.assumptions.add(label)

    def taint(self, what):
        self.taints.append(what)

    # -- branching --------------------------------------------------------------------
    def feasible(self, cond):
        if _is_linear(cond):
            self.lin.push()
            self.lin.add(cond)
            r = self.lin.check()
            self.lin.pop()
            if r == z3.unsat:
                return False
        self.solver.push()
        self.solver.add(cond)
        r = self._fair_check()
        self.solver.pop()
        return r != z3.unsat

    def _fair_check(self):
        """solver.check() whose wall-clock budget is re-issued (scaled by wall/CPU, at most 16x, twice) when the query
        ran out of it having been starved of CPU -- so that a busy machine does not open infeasible branches or
        lose entailments that an idle one decides."""
        import time as _t
        budget = self.BRANCH_TIMEOUT_MS
        r = z3.unknown
        for _ in range(3):
            w0, c0 = _t.time(), _t.process_time()
            r = self.solver.check()
            wall, cpu = _t.time() - w0, _t.process_time() - c0
            if r != z3.unknown or not (wall >= 0.8 * budget / 1000.0 and cpu < 0.7 * wall):
                break
            budget = min(self.BRANCH_TIMEOUT_MS * 16, self.BRANCH_TIMEOUT_MS * 1.3 * wall / max(cpu, 0.02))
            self.solver.set("timeout", int(budget))
        if budget != self.BRANCH_TIMEOUT_MS:
            self.solver.set("timeout", self.BRANCH_TIMEOUT_MS)
        return r

    def branch(self, cond, label=""):
        """Decide a (possibly symbolic) condition on this path; forks are explored later."""
        if isinstance(cond, bool):
            return cond
        cond = conc(cond)
        if isinstance(cond, bool):
            return cond
        if self.pos < len(self.decisions):
            d = self.decisions[self.pos]
            self.pos += 1
        else:
            t_ok = f_ok = None
            if _is_linear(cond):
                # decided by the linear facts alone?  (pc is satisfiable on a live path, so if the
                # linear facts exclude one side the other side is the feasible one)
                self.lin.push(); self.lin.add(cond); r1 = self.lin.check(); self.lin.pop()
                self.lin.push(); self.lin.add(z3.Not(cond)); r2 = self.lin.check(); self.lin.pop()
                if r1 == z3.unsat and r2 == z3.unsat:
                    raise Infeasible("path condition unsatisfiable")
                if r1 == z3.unsat and r2 == z3.sat:
                    t_ok, f_ok = False, True
                elif r2 == z3.unsat and r1 == z3.sat:
                    t_ok, f_ok = True, False
            if t_ok is None:
                t_ok = self.feasible(cond)
                f_ok = self.feasible(z3.Not(cond))
            if t_ok and f_ok:
                self.new_forks.append(self.decisions + [False])
                d = True
            elif t_ok:
                d = True
            elif f_ok:
                d = False
            else:
                raise Infeasible("both branches infeasible")
            self.decisions.append(d)
            self.pos += 1
        self.trace.append((label, d))
        f = cond if d else z3.Not(cond)
        self.pc.append(f)
        self.pc_why.append(f"branch:{label}")
        self.solver.add(f)
        if _is_linear(f):
            self.lin.add(f)
        return d

    def is_valid(self, cond):
        """Is cond entailed by the path condition? (used for sound simplifications only)"""
        if isinstance(cond, bool):
            return cond
        cond = conc(cond)
        if isinstance(cond, bool):
            return cond
        if _is_linear(cond):
            self.lin.push()
            self.lin.add(z3.Not(cond))
            r = self.lin.check()
            self.lin.pop()
            if r == z3.unsat:
                return True
        self.solver.push()
        self.solver.add(z3.Not(cond))
        r = self._fair_check()
        if r == z3.unknown:
            # the in-path budget is wall-clock: on a busy machine a query that takes 0.3 s alone can run out of it, and
            # a lost entailment (e.g. the congruence of two FFT applications) would later look like a refutation.
            # One retry with ten times the budget before giving the entailment up.
            self.solver.set("timeout", self.BRANCH_TIMEOUT_MS * 10)
            try:
                r = self.solver.check()
            finally:
                self.solver.set("timeout", self.BRANCH_TIMEOUT_MS)
            self.retried_unknown = getattr(self, "retried_unknown", 0) + 1
        self.solver.pop()
        return r == z3.unsat

    # -- local scopes (skolem constants for one obligation must not leak) -----------
    def scope(self):
        ctx = self

        class _Scope:
            def __enter__(self_):
                self_.n = len(ctx.pc)
                self_.dc = dict(ctx.div_cache)
                self_.nf, self_.np = len(ctx.folds), len(ctx.fold_points)
                ctx.solver.push()
                ctx.lin.push()

            def __exit__(self_, *a):
                del ctx.pc[self_.n:]
                del ctx.pc_why[self_.n:]
                ctx.div_cache = self_.dc
                del ctx.folds[self_.nf:]
                del ctx.fold_points[self_.np:]
                ctx.solver.pop()
                ctx.lin.pop()
                return False
        return _Scope()

    # -- obligations ----------------------------------------------------------------
    def oblige(self, name, goal, kind="post", meta=None):
        if isinstance(goal, bool):
            goal = z3.BoolVal(goal)
        goal = Z(goal)
        if self.oblig_tag:
            name = f"{name}[{self.oblig_tag}]"
        self.obligations.append(Obligation(self.oblig_prefix + name, list(self.pc), goal, kind, meta,
                                           path=list(self.trace)))

    def check_exc(self, cond, kind, msg=""):
        """Spec helper: raise `kind` when cond holds (forks)."""
        if self.branch(cond, f"raise {kind}"):
            raise PyExc(kind, msg)
