"""Per-path context: path condition, decisions, obligations, fresh symbols, assumptions used."""
from __future__ import annotations
import itertools
import z3
from .values import Z, conc, CONST_FACTS, PyExc


class Unsupported(Exception):
    """Construct outside the modelled subset: the path is undecided, never a violation."""


class Infeasible(Exception):
    """Path condition became unsatisfiable."""


class Obligation:
    __slots__ = ("name", "hyps", "goal", "kind", "meta", "path")

    def __init__(self, name, hyps, goal, kind, meta=None, path=None):
        self.name, self.hyps, self.goal, self.kind = name, hyps, goal, kind
        self.meta = meta or {}
        self.path = path

    def key(self):
        return (self.name, tuple(h.get_id() for h in self.hyps), Z(self.goal).get_id())

    def smt2(self):
        s = z3.Solver()
        for h in self.hyps:
            s.add(h)
        s.add(z3.Not(Z(self.goal)))
        return s.to_smt2()


def _is_linear(e, _cache={}):
    """No product of two non-constant terms anywhere in e (cheap facts for the pruning solver)."""
    k = e.get_id()
    todo = [e]
    seen = set()
    while todo:
        t = todo.pop()
        i = t.get_id()
        if i in seen:
            continue
        seen.add(i)
        if z3.is_quantifier(t):
            return False
        if z3.is_app(t):
            if z3.is_mul(t):
                nonconst = [a for a in t.children() if not (z3.is_rational_value(a) or z3.is_int_value(a))]
                if len(nonconst) > 1:
                    return False
            todo.extend(t.children())
    return True


class PathCtx:
    BRANCH_TIMEOUT_MS = 1500

    def __init__(self, decisions=(), budget=None):
        self.pc = list(CONST_FACTS)
        self.pc_why = ["const"] * len(self.pc)
        self.decisions = list(decisions)
        self.pos = 0
        self.new_forks = []        # decision prefixes to explore later
        self.obligations = []
        self.counter = itertools.count()
        self.div_cache = {}
        self.assumptions = set()   # labels of stubs / axioms used on this path
        self.taints = []
        self.solver = z3.Solver()
        self.solver.set("timeout", self.BRANCH_TIMEOUT_MS)
        # pruning solver over the linear facts only: unsat there => unsat with everything (sound pruning);
        # it answers in milliseconds where the full path condition (nonlinear reals) takes seconds
        self.lin = z3.Solver()
        self.lin.set("timeout", 1000)
        for f in self.pc:
            self.solver.add(f)
            if _is_linear(f):
                self.lin.add(f)
        self.trace = []            # branch labels taken (for reporting)
        self.frozen = {}           # id(container) -> description (parameter-owned mutable containers)
        self.dirty_roots = set()
        self.sanctioned = set()
        self.oblig_prefix = ""
        self.writes = []           # (description, owner roots)
        self.inputs = {}           # name -> symbolic input description (for replay)
        self.depth = 0
        self.events = []           # forcing operations etc. (typestate)
        self.opaque_registry = []  # opaque arrays created on this path (for unification)
        self.lemma_hooks = []

    # -- symbols ---------------------------------------------------------------------
    def fresh(self, prefix, sort="real"):
        n = f"{prefix}!{next(self.counter)}"
        if sort == "real":
            return z3.Real(n)
        if sort == "int":
            return z3.Int(n)
        return z3.Bool(n)

    # -- assumptions ----------------------------------------------------------------
    def assume(self, f, why="assume"):
        f = conc(f) if not isinstance(f, bool) else f
        if f is True:
            return
        if f is False:
            raise Infeasible(why)
        self.pc.append(f)
        self.pc_why.append(why)
        self.solver.add(f)
        if _is_linear(f):
            self.lin.add(f)

    def note(self, label):
        self.assumptions.add(label)

    def taint(self, what):
        self.taints.append(what)

    # -- branching --------------------------------------------------------------------
    def feasible(self, cond):
        if _is_linear(cond):
            self.lin.push()
            self.lin.add(cond)
            r = self.lin.check()
            self.lin.pop()
            if r == z3.unsat:
                return False
        self.solver.push()
        self.solver.add(cond)
        r = self.solver.check()
        self.solver.pop()
        return r != z3.unsat

    def branch(self, cond, label=""):
        """Decide a (possibly symbolic) condition on this path; forks are explored later."""
        if isinstance(cond, bool):
            return cond
        cond = conc(cond)
        if isinstance(cond, bool):
            return cond
        if self.pos < len(self.decisions):
            d = self.decisions[self.pos]
            self.pos += 1
        else:
            t_ok = f_ok = None
            if _is_linear(cond):
                # decided by the linear facts alone?  (pc is satisfiable on a live path, so if the
                # linear facts exclude one side the other side is the feasible one)
                self.lin.push(); self.lin.add(cond); r1 = self.lin.check(); self.lin.pop()
                self.lin.push(); self.lin.add(z3.Not(cond)); r2 = self.lin.check(); self.lin.pop()
                if r1 == z3.unsat and r2 == z3.unsat:
                    raise Infeasible("path condition unsatisfiable")
                if r1 == z3.unsat and r2 == z3.sat:
                    t_ok, f_ok = False, True
                elif r2 == z3.unsat and r1 == z3.sat:
                    t_ok, f_ok = True, False
            if t_ok is None:
                t_ok = self.feasible(cond)
                f_ok = self.feasible(z3.Not(cond))
            if t_ok and f_ok:
                self.new_forks.append(self.decisions + [False])
                d = True
            elif t_ok:
                d = True
            elif f_ok:
                d = False
            else:
                raise Infeasible("both branches infeasible")
            self.decisions.append(d)
            self.pos += 1
        self.trace.append((label, d))
        f = cond if d else z3.Not(cond)
        self.pc.append(f)
        self.pc_why.append(f"branch:{label}")
        self.solver.add(f)
        if _is_linear(f):
            self.lin.add(f)
        return d

    def is_valid(self, cond):
        """Is cond entailed by the path condition? (used for sound simplifications only)"""
        if isinstance(cond, bool):
            return cond
        cond = conc(cond)
        if isinstance(cond, bool):
            return cond
        if _is_linear(cond):
            self.lin.push()
            self.lin.add(z3.Not(cond))
            r = self.lin.check()
            self.lin.pop()
            if r == z3.unsat:
                return True
        self.solver.push()
        self.solver.add(z3.Not(cond))
        r = self.solver.check()
        self.solver.pop()
        return r == z3.unsat

    # -- local scopes (skolem constants for one obligation must not leak) -----------
    def scope(self):
        ctx = self

        class _Scope:
            def __enter__(self_):
                self_.n = len(ctx.pc)
                self_.dc = dict(ctx.div_cache)
                ctx.solver.push()
                ctx.lin.push()

            def __exit__(self_, *a):
                del ctx.pc[self_.n:]
                del ctx.pc_why[self_.n:]
                ctx.div_cache = self_.dc
                ctx.solver.pop()
                ctx.lin.pop()
                return False
        return _Scope()

    # -- obligations ----------------------------------------------------------------
    def oblige(self, name, goal, kind="post", meta=None):
        if isinstance(goal, bool):
            goal = z3.BoolVal(goal)
        goal = Z(goal)
        self.obligations.append(Obligation(self.oblig_prefix + name, list(self.pc), goal, kind, meta,
                                           path=list(self.trace)))

    def check_exc(self, cond, kind, msg=""):
        """Spec helper: raise `kind` when cond holds (forks)."""
        if self.branch(cond, f"raise {kind}"):
            raise PyExc(kind, msg)
