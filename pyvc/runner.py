"""Parallel generation + discharge of obligations per (contract, instance) job."""
from __future__ import annotations
import multiprocessing as mp
import os
import time
import traceback
import z3
from .contract import verify_function
from . import solve

_STATE = {}


def _job(args):
    ci, ii, timeout_ms, prefix, ob_filter = args
    interp, contracts = _STATE["interp"], _STATE["contracts"]
    c = contracts[ci]
    inst = c.instances[ii]
    t0 = time.time()
    out = {"contract": c.qualname, "instance": inst.label, "generalisation": bool(getattr(inst, "generalisation", False)), "results": [], "unsupported": [], "errors": [],
           "paths": 0, "infeasible": 0, "assumptions": [], "gen_s": 0.0, "solve_s": 0.0}
    try:
        rep = verify_function(interp, c, inst, prop_prefix=prefix)
    except Exception:
        out["errors"].append(traceback.format_exc())
        return out
    out["paths"], out["infeasible"] = rep.paths, rep.infeasible
    out["unsupported"] = [(d, [f"{l}={int(b)}" for l, b in tr][-12:]) for d, tr in rep.unsupported]
    out["errors"] = rep.errors
    out["assumptions"] = sorted(rep.assumptions)
    out["gen_s"] = rep.gen_time
    t1 = time.time()
    import re
    out["generated_kinds"] = sorted({re.sub(r"\{.*\}$", "", o.name) for o in rep.obligations})
    if ob_filter:
        rep.obligations = [o for o in rep.obligations if re.search(ob_filter, o.name)]
    tmo = max(timeout_ms, getattr(c, "timeout_ms", 0))
    res = solve.discharge(rep.obligations, timeout_ms=tmo, procs=1, quick_ms=min(tmo, 4000))
    out["solve_s"] = time.time() - t1
    for r in res:
        d = {"name": r.name, "status": r.status, "backend": r.backend, "time_s": round(r.time_s, 4),
             "kind": r.ob.kind}
        if r.status != "discharged":
            d["model"] = {k: v for k, v in (r.model or {}).items() if "!" not in k and k not in ("PI", "SQRT2", "HSQRT2")}
            d["meta"] = {k: (v if isinstance(v, (str, int, float, bool, list)) else repr(v)) for k, v in r.ob.meta.items()}
            d["path"] = [f"{l}={int(b)}" for l, b in (r.ob.path or [])][-16:]
            d["reason"] = r.reason
            smt = r.ob.smt2()
            d["smt2_excerpt"] = smt[-1500:]
        out["results"].append(d)
    return out


def _solve_serial(obs, timeout_ms):
    return solve.discharge(obs, timeout_ms=timeout_ms, procs=1)


def run_contracts(interp, contracts, select, timeout_ms=10000, procs=None, prefix="", ob_filter=None, tier="thorough"):
    """select: predicate on Contract.  Returns list of job outputs."""
    _STATE["interp"], _STATE["contracts"] = interp, contracts
    jobs = []
    for ci, c in enumerate(contracts):
        if not select(c):
            continue
        for ii in range(len(c.instances)):
            if tier == "quick" and getattr(c.instances[ii], "tier", "quick") == "thorough":
                continue
            jobs.append((ci, ii, timeout_ms, prefix, ob_filter))
    procs = procs or min(16, os.cpu_count() or 4)
    if not jobs:
        return []
    if procs == 1 or len(jobs) == 1:
        return [_job(j) for j in jobs]
    with mp.get_context("fork").Pool(min(procs, len(jobs))) as pool:
        return pool.map(_job, jobs, chunksize=1)
