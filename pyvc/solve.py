"""Discharge obligations: z3 (Python API, in a process pool) with cvc5 as second opinion for
`unknown`.  unsat = discharged, sat = refuted (model kept), unknown/timeout = undecided."""
from __future__ import annotations
import os
import subprocess
import tempfile
import time
import multiprocessing as mp
import z3


def _starved(wall, cpu, budget_s):
    """The solver budgets are wall-clock.  On an oversubscribed machine a query gets a fraction of a core, so a
    timeout is not the budget it was meant to be: if the solver ran out of wall time having received clearly less
    CPU time than that, the budget is re-issued scaled by wall/cpu (at most 16x, at most three times)."""
    return wall >= 0.8 * budget_s and cpu < 0.7 * wall


def _solve_one(job):
    name, smt2, timeout_ms, want_model = job
    t0 = time.time()
    budget = timeout_ms
    for attempt in range(3):
        ctx = z3.Context()
        s = z3.Solver(ctx=ctx)
        s.set("timeout", int(budget))
        w0, c0 = time.time(), time.process_time()
        try:
            s.from_string(smt2)
            r = s.check()
        except z3.Z3Exception as e:
            return name, "error", None, time.time() - t0, f"z3: {e}"
        wall, cpu = time.time() - w0, time.process_time() - c0
        if r != z3.unknown or not _starved(wall, cpu, budget / 1000.0):
            break
        budget = min(timeout_ms * 16, timeout_ms * 1.3 * wall / max(cpu, 0.05))
    res = str(r)
    model = None
    if r == z3.sat and want_model:
        m = s.model()
        model = {d.name(): str(m[d]) for d in m.decls() if d.arity() == 0}
    reason = s.reason_unknown() if r == z3.unknown else ""
    return name, res, model, time.time() - t0, reason


def _cvc5_one(job):
    name, smt2, timeout_ms = job
    t0 = time.time()
    with tempfile.NamedTemporaryFile("w", suffix=".smt2", delete=False, dir="/dev/shm" if os.path.isdir("/dev/shm") else None) as f:
        f.write("(set-logic ALL)\n" + smt2 + "\n")
        path = f.name
    import resource
    budget = timeout_ms
    try:
        for attempt in range(3):
            w0 = time.time()
            ru0 = resource.getrusage(resource.RUSAGE_CHILDREN)
            try:
                p = subprocess.run(["/usr/bin/cvc5", f"--tlimit={int(budget)}", "--nl-ext-tplanes", path],
                                   capture_output=True, text=True, timeout=budget / 1000 + 5)
                out = p.stdout.strip().split("\n")[0] if p.stdout.strip() else "unknown"
            except Exception as e:
                out = "unknown"
            ru1 = resource.getrusage(resource.RUSAGE_CHILDREN)
            wall = time.time() - w0
            cpu = (ru1.ru_utime + ru1.ru_stime) - (ru0.ru_utime + ru0.ru_stime)
            if out in ("sat", "unsat") or not _starved(wall, cpu, budget / 1000.0):
                break
            budget = min(timeout_ms * 16, timeout_ms * 1.3 * wall / max(cpu, 0.05))
    finally:
        os.unlink(path)
    if out not in ("sat", "unsat"):
        out = "unknown"
    return name, out, time.time() - t0


class Result:
    __slots__ = ("name", "status", "backend", "time_s", "model", "reason", "ob")

    def __init__(self, name, status, backend, time_s, model=None, reason="", ob=None):
        self.name, self.status, self.backend, self.time_s = name, status, backend, time_s
        self.model, self.reason, self.ob = model, reason, ob


def discharge(obligations, timeout_ms=10000, procs=None, use_cvc5=True, quick_ms=1500):
    """obligations: list of ctx.Obligation.  Returns list[Result] in order."""
    procs = procs or min(14, os.cpu_count() or 4)
    results = [None] * len(obligations)
    # pass 1: in-process, short timeout (most obligations take milliseconds)
    hard = []
    for i, ob in enumerate(obligations):
        t0 = time.time()
        s = z3.Solver()
        s.set("timeout", quick_ms)
        for h in ob.hyps:
            s.add(h)
        s.add(z3.Not(ob.goal))
        r = s.check()
        dt = time.time() - t0
        if r == z3.unsat:
            results[i] = Result(ob.name, "discharged", "z3", dt, ob=ob)
        elif r == z3.sat:
            m = s.model()
            model = {d.name(): str(m[d]) for d in m.decls() if d.arity() == 0}
            results[i] = Result(ob.name, "refuted", "z3", dt, model, ob=ob)
        else:
            hard.append(i)
    if hard:
        jobs = [(str(i), obligations[i].smt2(), timeout_ms, True) for i in hard]
        if procs == 1:
            outs = [_solve_one(j) for j in jobs]
        else:
            with mp.get_context("fork").Pool(min(procs, len(jobs))) as pool:
                outs = pool.map(_solve_one, jobs, chunksize=1)
        still = []
        for (idx, res, model, dt, reason) in outs:
            i = int(idx)
            ob = obligations[i]
            if res == "unsat":
                results[i] = Result(ob.name, "discharged", "z3", dt, ob=ob)
            elif res == "sat":
                results[i] = Result(ob.name, "refuted", "z3", dt, model, ob=ob)
            else:
                results[i] = Result(ob.name, "undecided", "z3", dt, reason=reason or res, ob=ob)
                still.append(i)
        if still and use_cvc5 and os.path.exists("/usr/bin/cvc5"):
            jobs = [(str(i), obligations[i].smt2(), timeout_ms) for i in still]
            if procs == 1:
                outs = [_cvc5_one(j) for j in jobs]
            else:
                with mp.get_context("fork").Pool(min(procs, len(jobs))) as pool:
                    outs = pool.map(_cvc5_one, jobs, chunksize=1)
            for idx, res, dt in outs:
                i = int(idx)
                ob = obligations[i]
                if res == "unsat":
                    results[i] = Result(ob.name, "discharged", "cvc5", dt, ob=ob)
                elif res == "sat":
                    # cvc5 found a model but z3 did not: keep as refuted without a parsed model
                    results[i] = Result(ob.name, "refuted", "cvc5", dt, {}, ob=ob)
    return results
