"""./check <property> [--tier quick|thorough]   |   ./check --replay <file>

exit 0: every obligation discharged and the bounded layer found nothing (KNOWN-FINDING lines allowed)
exit 1: VIOLATION property=<id> replay=<path>   (refuted obligation or bounded-layer failing input)
exit 2: UNDECIDED (solver unknown / construct outside the modelled subset), nothing refuted
exit 3: checker failure (zero obligations, traceback, surviving canary)"""
from __future__ import annotations
import argparse
import hashlib
import json
import os
import random
import re
import subprocess
import sys
import time
import traceback
import warnings

warnings.filterwarnings("ignore")
HERE = os.path.dirname(os.path.dirname(os.path.abspath(__file__)))
sys.path.insert(0, HERE)

from pyvc import driver, runner                      # noqa: E402
from pyvc.concrete import (differential, ConcNamer, import_repo, parse_model)   # noqa: E402
from pyvc.ctx import Unsupported                     # noqa: E402


def tree_id(root):
    try:
        head = subprocess.run(["git", "-C", root, "rev-parse", "--short", "HEAD"], capture_output=True, text=True).stdout.strip()
        diff = subprocess.run(["git", "-C", root, "diff", "HEAD", "--", "pulsarbat"], capture_output=True, text=True).stdout
        return f"{head}+{hashlib.sha256(diff.encode()).hexdigest()[:10]}" if diff else head
    except Exception:
        return "unknown"


def load_json(path, default):
    try:
        with open(path) as f:
            return json.load(f)
    except FileNotFoundError:
        return default


class Finding:
    def __init__(self, prop, kind, contract, instance, what, detail):
        self.prop, self.kind, self.contract, self.instance, self.what, self.detail = prop, kind, contract, instance, what, detail
        self.reproduced = detail.get("reproduced", False)

    def key(self):
        return f"{self.contract}|{self.what}"


def known_match(entry, f: Finding):
    m = entry.get("match", {})
    if f.prop not in ([entry.get("property")] + list(entry.get("also_under", []))):
        return False
    for field, val in (("contract", f.contract), ("what", f.what), ("instance", f.instance)):
        pat = m.get(field)
        if pat and not re.search(pat, val or ""):
            return False
    return True


SITE_DRIVEN = re.compile(r"/(frame\.|callee-pre\[|dask\.from_delayed\.|np\.searchsorted\.|ghost\.|loop\.(column-local|data-oblivious)\[)")


def replay_refuted(interp, contract, inst, model, pb, rng, tries):
    """Replay a solver model on the real code; search nearby concrete inputs when the model
    itself does not reproduce (it may live in the abstraction)."""
    base = parse_model(model)
    attempts = [ConcNamer(base)]
    for _ in range(tries):
        attempts.append(ConcNamer(base, rng=rng))
    for _ in range(tries):
        # keep structural values of the model, re-draw the rest
        sub = {k: v for k, v in base.items() if rng.random() < 0.6}
        attempts.append(ConcNamer(sub, rng=rng))
    last = None
    for nm in attempts:
        try:
            r = differential(interp, contract, inst, nm, pb)
        except Exception as e:      # replay must never crash the check
            last = {"status": "skip", "why": f"replay error: {type(e).__name__}: {e}"}
            continue
        last = r
        if r["status"] == "mismatch":
            return r
    return last


def replay_task_name(interp, contract, inst, pb, rng, tries=40):
    """Replay for the Dask task-name rule: the real function on two different concrete inputs; the two lazy
    results computed in ONE graph must equal each computed on its own (a name that does not determine its
    content makes Dask treat them as one task)."""
    import numpy as np
    import dask
    from .concrete import real_result
    last = {"status": "skip", "why": "no pair of differing results drawn"}
    for _ in range(tries):
        try:
            nm1, nm2 = ConcNamer(rng=rng), ConcNamer(rng=rng)
            r1, r2 = real_result(interp, contract, inst, nm1, pb), real_result(interp, contract, inst, nm2, pb)
            a1, a2 = getattr(r1, "data", r1), getattr(r2, "data", r2)
            if not (hasattr(a1, "dask") and hasattr(a2, "dask")):
                return {"status": "skip", "why": "result is not Dask-backed on this instance"}
            w1, w2 = a1.compute(scheduler="synchronous"), a2.compute(scheduler="synchronous")
            g1, g2 = dask.compute(a1, a2, scheduler="synchronous")
            if w1.shape == w2.shape and np.array_equal(w1, w2, equal_nan=True):
                continue
            if not (np.array_equal(g1, w1, equal_nan=True) and np.array_equal(g2, w2, equal_nan=True)):
                return {"status": "mismatch", "inputs": {"first": {k: str(v) for k, v in nm1.used.items()}, "second": {k: str(v) for k, v in nm2.used.items()}},
                        "expected": "each of two lazily built results, computed together in one graph, equals that result computed alone",
                        "observed": "computed together, one result is delivered for the other (same Dask key for different content)",
                        "mismatches": ["dask.compute(r1, r2) != (r1.compute(), r2.compute())"]}
            last = {"status": "ok"}
        except Exception as e:
            last = {"status": "skip", "why": f"replay error: {type(e).__name__}: {e}"}
    return last


def run_property(prop, tier, seed, root):
    from props import PROPS
    cfg = PROPS[prop]
    t_start = time.time()
    # import the tree under test first (before solvers, pools and contract modules): later imports of
    # baseband/astropy inside the run were observed to turn their own deprecation warnings into errors
    try:
        import_repo(root)
    except Exception:
        traceback.print_exc()
    repo, interp, contracts = driver.load(root, cfg.get("modules"))
    by_name = {c.qualname: c for c in contracts}
    timeout_ms = 10000 if tier == "quick" else 60000
    select = (lambda c: not getattr(c, "c14_exempt", False)) if cfg.get("select_all") else (lambda c: prop in c.props)
    selected = [c for c in contracts if select(c)]

    def relevant(cname, oname):
        """A contract shared by several properties may scope which of its obligations belong to each."""
        if cfg.get("obligation_filter"):
            return re.search(cfg["obligation_filter"], oname) is not None
        if cname in callee_names:
            # a callee used through its contract: what callers rely on is its result, errors and frame
            return re.search(r"/(thm|lemma)\.", oname) is None
        pr = by_name[cname].props
        if isinstance(pr, dict) and pr.get(prop):
            return re.search(pr[prop], oname) is not None
        return True
    callee_names = set()
    jobs = runner.run_contracts(interp, contracts, select, timeout_ms=timeout_ms, prefix=f"{prop}/", ob_filter=cfg.get("obligation_filter"), tier=tier)
    # modular closure: a function of this property that calls another repo function through that
    # function's contract relies on it; the callee's contract is verified in this same check (result,
    # errors, frame), transitively, so that no contract is used here without being discharged here
    done = {c.qualname for c in selected}
    frontier = jobs
    while not cfg.get("select_all"):
        used = {a[len("contract:"):] for j in frontier for a in j["assumptions"] if a.startswith("contract:")}
        used = {u for u in used if u in by_name and u not in done and by_name[u].instances}
        if not used:
            break
        callee_names |= used
        done |= used
        frontier = runner.run_contracts(interp, contracts, lambda c: c.qualname in used, timeout_ms=timeout_ms, prefix=f"{prop}/", tier=tier)
        jobs = jobs + frontier
    selected = selected + [by_name[u] for u in sorted(callee_names)]
    pb = None
    findings, undecided, errors = [], [], []
    counts = {"obligations": 0, "discharged": 0, "refuted": 0, "undecided": 0}
    backends, solver_time, gen_time = {}, 0.0, 0.0
    assumptions = set()
    functions = sorted({j["contract"] for j in jobs})
    samples = []
    names_now = set()
    proof_lost = {}
    not_generalised = []
    generated_kinds = set()
    rng = random.Random(seed)
    for j in jobs:
        generated_kinds |= set(j.get("generated_kinds", ()))
        gen_time += j["gen_s"]
        solver_time += j["solve_s"]
        assumptions |= set(j["assumptions"])
        for e in j["errors"]:
            errors.append(f"{j['contract']} {j['instance']}: {e}")
        for d, tr in j["unsupported"]:
            if "does not fit this code" in str(d):
                # a loop contract written against the variables of the original loop cannot be stated for a rewritten
                # loop: the deductive proof of this function is not re-established on this tree (the bounded
                # stand-in still runs); that is a statement about the proof, not about the code
                proof_lost.setdefault(j["contract"], str(d)[:200])
                continue
            if j.get("generalisation"):
                # an instance that only widens the quantifier range (symbolic channel count, ...): when the code is
                # written in a way the symbolic route cannot follow, the generalisation is simply not established
                # on this tree -- the enumerated instances still decide the property
                not_generalised.append({"contract": j["contract"], "instance": j["instance"], "why": d})
                continue
            undecided.append({"contract": j["contract"], "instance": j["instance"], "why": f"unmodelled construct: {d}", "path": tr})
        for r in j["results"]:
            if not relevant(j["contract"], r["name"]):
                continue
            counts["obligations"] += 1
            counts[r["status"]] += 1
            names_now.add(r["name"])
            backends[r["backend"]] = backends.get(r["backend"], 0) + 1
            if r["status"] == "undecided" and j.get("generalisation"):
                not_generalised.append({"contract": j["contract"], "instance": j["instance"], "why": f"solver left {r['name']} open"})
            elif r["status"] == "undecided":
                undecided.append({"contract": j["contract"], "instance": j["instance"], "obligation": r["name"], "why": r.get("reason", "unknown")})
            elif r["status"] == "refuted":
                findings.append(("refuted", j, r))
            elif len(samples) < 3 and r["kind"] == "post":
                samples.append({"obligation": r["name"], "status": r["status"], "backend": r["backend"], "time_s": r["time_s"]})
    # ---- group refutations per (contract, obligation-without-instance) and replay on the real code
    out_findings = []
    grouped = {}
    for _, j, r in findings:
        base = re.sub(r"\{.*\}$", "", r["name"])
        grouped.setdefault((j["contract"], base), []).append((j, r))
    if grouped:
        pb = import_repo(root)
    for (cname, base), items in grouped.items():
        c = by_name[cname]
        rep = None
        chosen = items[0]
        for j, r in items[:6]:
            inst = next(i for i in c.instances if i.label == j["instance"])
            if "task-name-determined-by-content" in r["name"]:
                rr = replay_task_name(interp, c, inst, pb, rng)
            else:
                rr = replay_refuted(interp, c, inst, r.get("model"), pb, rng, 25 if tier == "quick" else 200)
            if rr and rr.get("status") == "mismatch":
                rep, chosen = rr, (j, r)
                break
            rep = rep or rr
        j, r = chosen
        detail = {"obligation": r["name"], "function": cname, "instance": j["instance"], "verdict": "refuted",
                  "model": r.get("model"), "path": r.get("path"), "meta": r.get("meta"),
                  "solver": {"backend": r["backend"], "time_s": r["time_s"], "smt2_excerpt": r.get("smt2_excerpt")},
                  "reproduced": bool(rep and rep.get("status") == "mismatch"), "replay": rep,
                  "other_instances": [x[0]["instance"] for x in items[:20]]}
        out_findings.append(Finding(prop, "refuted", cname, j["instance"], base.split("/", 2)[-1] if "/" in base else base, detail))
    # ---- bounded layer (stand-in; never counted as proved)
    bounded = {"evaluations": 0, "mismatches": 0, "skipped": 0, "distinct_nontrivial": 0, "samples": [], "bounds": cfg.get("bounded_bounds", "")}
    n_per = cfg.get("bounded_per_instance", {"quick": 4, "thorough": 40})[tier]
    if not errors:
        pb = pb or import_repo(root)
        warnings.resetwarnings()
        warnings.simplefilter("ignore")      # libraries re-arm deprecation warnings as errors in places
        seen_inputs = set()
        for c in selected:
            if getattr(c, "no_bounded", False):
                continue
            bad_here = 0
            bad_where = {}
            for inst in (c.instances if n_per else []):
                for t in range(n_per):
                    nm = ConcNamer(rng=rng)
                    try:
                        r = differential(interp, c, inst, nm, pb)
                    except Exception as e:
                        errors.append(f"bounded {c.qualname} {inst.label}: {type(e).__name__}: {e}\n{traceback.format_exc()[-800:]}")
                        break
                    if r["status"] == "skip":
                        bounded["skipped"] += 1
                        continue
                    bounded["evaluations"] += 1
                    key = (c.qualname, inst.label, tuple(sorted(r["inputs"].items())))
                    if key not in seen_inputs:
                        seen_inputs.add(key)
                        bounded["distinct_nontrivial"] += 1
                    if len(bounded["samples"]) < 3:
                        bounded["samples"].append({"function": c.qualname, "instance": inst.label, "inputs": r["inputs"], "expected": r.get("expected"), "observed": r.get("observed")})
                    if r["status"] == "mismatch":
                        r["mismatches"] = [m for m in r["mismatches"] if relevant(c.qualname, "/" + m.split(":")[0])]
                        if not r["mismatches"]:
                            r["status"] = "ok"
                    if r["status"] == "mismatch":
                        bounded["mismatches"] += 1
                        bad_here += 1
                        # one finding per distinct clause that failed (not only the first one listed, and not only the
                        # first evaluations: failures of a known finding must not crowd out a different failure)
                        wheres = []
                        for m_ in r["mismatches"]:
                            w_ = re.sub(r"\[\d+(, \d+)*\]", "[]", m_.split(":")[0])
                            if w_ not in wheres:
                                wheres.append(w_)
                        for where in wheres[:6]:
                            bad_where[where] = bad_where.get(where, 0) + 1
                            if bad_where[where] <= 3:
                                detail = {"obligation": f"{prop}/{c.qualname.replace('pulsarbat.', '')}/bounded.{where}", "function": c.qualname,
                                          "instance": inst.label, "verdict": "bounded-failure", "reproduced": True, "replay": r}
                                out_findings.append(Finding(prop, "bounded", c.qualname, inst.label, f"bounded.{where}", detail))
        for fn in cfg.get("bounded_extra", []):
            try:
                with warnings.catch_warnings():
                    warnings.simplefilter("ignore")
                    res = fn(pb, interp, rng, tier)
            except Exception as e:
                errors.append(f"bounded_extra {fn.__name__}: {type(e).__name__}: {e}\n{traceback.format_exc()[-1500:]}")
                continue
            bounded["evaluations"] += res["evaluations"]
            bounded["distinct_nontrivial"] += res.get("distinct_nontrivial", res["evaluations"])
            bounded["samples"].extend(res.get("samples", [])[:2])
            for fail in res.get("failures", []):
                bounded["mismatches"] += 1
                detail = {"obligation": f"{prop}/{fail['function']}/bounded.{fail['what']}", "function": fail["function"], "instance": fail.get("instance", ""),
                          "verdict": "bounded-failure", "reproduced": True, "replay": fail}
                out_findings.append(Finding(prop, "bounded", fail["function"], fail.get("instance", ""), f"bounded.{fail['what']}", detail))
    # ---- canaries: in-memory mutations of the extracted AST that must be refuted (vacuity guard)
    canary_report = []
    if os.path.realpath(root) == "/repo" or os.environ.get("VERIF_CANARIES") == "1":
        from props.canaries import CANARIES
        from pyvc import canary as _canary
        for sp in CANARIES.get(prop, []):
            try:
                killed, detail = _canary.run_canary(interp, contracts, sp, timeout_ms=timeout_ms)
            except Exception as e:
                killed, detail = None, f"{type(e).__name__}: {e}"
            canary_report.append({"function": sp[0], "mutation": f"{sp[1]}#{sp[2]}", "instance": sp[4], "killed": killed, "detail": str(detail)[:160]})
            if killed is False:
                errors.append(f"surviving canary: {sp[1]}#{sp[2]} in {sp[0]} ({detail}) -- contract too weak or encoding unsound")
    # ---- vacuity / baseline guards
    baseline = load_json(os.path.join(HERE, "baseline_obligations.json"), {}).get(prop)
    vanished = []
    kinds_now = {re.sub(r"\{.*\}$", "", n) for n in names_now}
    if baseline is not None and tier in baseline.get("tiers", ["quick", "thorough"]):
        # vacuity guard: every *contract-driven* kind of obligation discharged on the unchanged tree must still
        # be generated (result components, prescribed errors, theorems, lemmas, loop cuts, laziness).  Kinds
        # that exist only because the code contains a particular statement (a frame obligation per in-place
        # write / attribute store, a callee precondition per call site, ...) come and go with harmless
        # refactors and are not part of the guard; for a property that keeps only frame obligations (C14) the
        # guard looks at the contract-driven kinds generated before that filter, i.e. it demands that every
        # function was still executed to its end against its spec.
        have = kinds_now | (generated_kinds if cfg.get("obligation_filter") else set())
        lost = tuple("/" + q.replace("pulsarbat.", "") + "/" for q in proof_lost)
        vanished = sorted(n for n in set(baseline.get("guard", baseline["names"])) - have
                          if not SITE_DRIVEN.search(n) and not any(l in n for l in lost))
    # ---- known findings
    known = load_json(os.path.join(HERE, "known_findings.json"), {"findings": []})["findings"]
    violations, known_hits = [], []
    seen = set()
    for f in out_findings:
        if f.key() in seen:
            continue
        seen.add(f.key())
        hit = next((k for k in known if known_match(k, f)), None)
        if hit is not None:
            known_hits.append((hit, f))
        elif f.kind == "refuted" and not f.reproduced and baseline is not None and not any(
                n == re.sub(r"\{.*\}$", "", f.detail["obligation"]) for n in baseline["names"]):
            undecided.append({"contract": f.contract, "instance": f.instance, "obligation": f.detail["obligation"],
                              "why": "refuted in the abstraction, not reproduced on the real code, and not a baseline obligation"})
        else:
            violations.append(f)
    # an obligation the solvers leave open *inside the case of a known finding* (same contract, name matching the
    # finding's pattern) belongs to that finding: the case is already reported as violated
    kept = []
    in_known_case = 0
    for ud in undecided:
        ob = ud.get("obligation", "")
        if ob and any((prop in ([k.get("property")] + list(k.get("also_under", [])))) and re.search(k["match"].get("contract", ""), ud.get("contract", ""))
                      and k["match"].get("what") and re.search(k["match"]["what"], ob) for k in known) and any(h for h in known_hits):
            in_known_case += 1
        else:
            kept.append(ud)
    undecided = kept
    # ---- report
    os.makedirs(os.path.join(HERE, "replays"), exist_ok=True)
    tid = tree_id(root)
    lines = []
    for hid in sorted({h["id"] for h, _ in known_hits}):
        hit = next(h for h, _ in known_hits if h["id"] == hid)
        lines.append(f"KNOWN-FINDING: property={prop} {hit['id']} {hit['what']}")
    for f in violations:
        h = hashlib.sha256((f.key() + tid).encode()).hexdigest()[:10]
        path = os.path.join(HERE, "replays", f"{prop}-{re.sub(r'[^A-Za-z0-9_.-]+', '_', f.key())[:80]}-{h}.json")
        with open(path, "w") as fh:
            json.dump({"property": prop, "tree": tid, **f.detail}, fh, indent=1, default=str)
        tail = "" if f.reproduced else " no-failing-input-found"
        lines.append(f"VIOLATION property={prop} replay={path} obligation={f.detail['obligation']}{tail}")
    status = 0
    if any(f.reproduced for f in violations):
        status = 1      # a failing input replayed on the real code stands, whatever else went wrong in the run
    elif errors or counts["obligations"] == 0 and selected:
        status = 3
    elif violations:
        status = 1
    elif undecided or vanished:
        status = 2
    wall = time.time() - t_start
    level = cfg["level"]
    trusted = sorted(assumptions | set(cfg.get("trusted_base", [])))
    # refuted obligations that belong to a listed known finding are reported apart
    kf_hit = [k for k in known if prop in ([k.get("property")] + list(k.get("also_under", []))) and any(k is h for h, _ in known_hits)]
    n_known = sum(1 for _, j, r in findings if any(k["match"].get("what") and re.search(k["match"]["what"], r["name"])
                                                  and re.search(k["match"].get("contract", ""), j["contract"]) for k in kf_hit))
    cov = {
        # obligations of the cases that are listed known findings (refuted there, or left open there) are reported apart
        "obligations": counts["obligations"] - n_known - in_known_case, "discharged": counts["discharged"],
        "refuted": counts["refuted"] - n_known, "undecided": counts["undecided"] - in_known_case,
        "known_finding_obligations": n_known + in_known_case,
        "checker_cmd": f"./check {prop} --tier {tier}",
        "trusted_base": trusted,
        "functions_under_contract": functions,
        "instances": sum(len(c.instances) for c in selected),
        "paths_explored": sum(j["paths"] for j in jobs),
        "backends": backends, "solver_time_s": round(solver_time, 2), "generation_time_s": round(gen_time, 2),
        "samples": samples + bounded["samples"],
        "bounded": {k: bounded[k] for k in ("evaluations", "mismatches", "skipped", "distinct_nontrivial", "bounds")},
        "evaluations": max(1, bounded["evaluations"]), "distinct_nontrivial": max(2, bounded["distinct_nontrivial"]),
        "rule": "bounded stand-in: spec function evaluated concretely vs the real function on seeded inputs; distinct = distinct (function, instance, input) triples",
        "explanation": cfg.get("explanation", ""),
        "known_findings_hit": [h["id"] for h, _ in known_hits],
        "proof_not_reestablished": [{"function": q, "why": w, "decided_by": "bounded stand-in only on this tree"} for q, w in sorted(proof_lost.items())],
        "generalisation_instances": sorted({f"{j['contract']} {j['instance']}" for j in jobs if j.get("generalisation")}),
        "generalisations_not_established": not_generalised[:20],
        "canaries": canary_report, "canaries_killed": sum(1 for c_ in canary_report if c_["killed"]),
        "undecided_detail": undecided[:20], "vanished_obligations": vanished[:20],
        "source_hash": repo.source_hash, "tree": tid,
        "extraction_drops": "comments, docstrings, text of exception messages/f-strings, decorators other than property/setter/classmethod/staticmethod/lru_cache/wraps/singledispatch (handled structurally)",
    }
    ev = {"property_id": prop, "tier": tier, "seed": seed, "level": level, "coverage": cov,
          "assumptions": trusted + cfg.get("assumptions", []), "wall_s": round(wall, 2), "violations": len(violations)}
    # evidence of runs against another tree (VERIF_REPO=<scratch copy>, mutation testing) must not
    # overwrite the evidence of the registered check on /repo
    evdir = os.path.join(HERE, "evidence") if os.path.realpath(root) == "/repo" and not os.environ.get("VERIF_SCRATCH_EVIDENCE") \
        else os.path.join(HERE, "evidence", ".scratch")      # exploratory runs (scratch trees, seed sweeps) do not touch the committed evidence
    os.makedirs(evdir, exist_ok=True)
    with open(os.path.join(evdir, f"{prop}.json"), "w") as fh:
        json.dump(ev, fh, indent=1, default=str)
    for l in lines:
        print(l)
    for u in undecided[:10]:
        print("UNDECIDED", json.dumps(u, default=str)[:400])
    for q, w in sorted(proof_lost.items()):
        print(f"NOTE proof not re-established for {q}: {w}; decided by the bounded stand-in only on this tree")
    for v in vanished[:10]:
        print("UNDECIDED obligation no longer generated:", v)
    for e in errors[:5]:
        print("CHECKER-ERROR", e[:3000])
    print(f"{prop} [{tier}] functions={len(functions)} obligations={counts['obligations']} discharged={counts['discharged']} "
          f"refuted={counts['refuted']} undecided={counts['undecided']} bounded={bounded['evaluations']}/{bounded['mismatches']} bad "
          f"known={len(known_hits)} violations={len(violations)} wall={wall:.1f}s exit={status}")
    counts["_guard"] = {n for n in (kinds_now | (generated_kinds if cfg.get("obligation_filter") else set())) if not SITE_DRIVEN.search(n)}
    return status, kinds_now, counts


def main():
    ap = argparse.ArgumentParser()
    ap.add_argument("prop", nargs="?")
    ap.add_argument("--tier", default=os.environ.get("VERIF_TIER", "quick"), choices=["quick", "thorough"])
    ap.add_argument("--replay")
    ap.add_argument("--rebaseline", action="store_true")
    a = ap.parse_args()
    root = os.environ.get("VERIF_REPO", "/repo")
    seed = int(os.environ.get("VERIF_SEED", "0") or 0)
    if a.replay:
        return replay_file(a.replay, root)
    try:
        status, names, counts = run_property(a.prop, a.tier, seed, root)
        guard = counts.pop("_guard", None) if isinstance(counts, dict) else None
    except Exception:
        traceback.print_exc()
        print("CHECKER-ERROR: traceback above")
        return 3
    if a.rebaseline:
        path = os.path.join(HERE, "baseline_obligations.json")
        b = load_json(path, {})
        prev = set(b.get(a.prop, {}).get("names", [])) if a.tier == "thorough" else set()
        b[a.prop] = {"names": sorted(set(names) | prev) if a.tier == "quick" else sorted(names), "count": len(names), "tiers": ["quick"] if a.tier == "quick" else ["quick", "thorough"]}
        b[a.prop]["names"] = sorted(names)
        b[a.prop]["tiers"] = [a.tier]
        if guard:
            b[a.prop]["guard"] = sorted(guard)
        with open(path, "w") as fh:
            json.dump(b, fh, indent=0, sort_keys=True)
        print(f"baseline for {a.prop}: {len(names)} obligations")
    return status


def replay_file(path, root):
    d = json.load(open(path))
    rep = d.get("replay") or {}
    repo, interp, contracts = driver.load(root)
    by_name = {c.qualname: c for c in contracts}
    c = by_name.get(d["function"])
    if c is None or "inputs" not in rep:
        print(f"replay: obligation {d['obligation']} has no concrete input (verdict {d['verdict']}); solver output kept in the file")
        return 1
    inst = next(i for i in c.instances if i.label == d["instance"])
    pb = import_repo(root)
    if isinstance(rep["inputs"], dict) and set(rep["inputs"]) == {"first", "second"}:
        # Dask task-name rule: the same two concrete inputs, computed together and apart
        import numpy as np
        import dask
        from .concrete import real_result
        r1 = real_result(interp, c, inst, ConcNamer(parse_model(rep["inputs"]["first"])), pb)
        r2 = real_result(interp, c, inst, ConcNamer(parse_model(rep["inputs"]["second"])), pb)
        a1, a2 = getattr(r1, "data", r1), getattr(r2, "data", r2)
        g1, g2 = dask.compute(a1, a2, scheduler="synchronous")
        same = np.array_equal(g1, a1.compute(scheduler="synchronous"), equal_nan=True) and np.array_equal(g2, a2.compute(scheduler="synchronous"), equal_nan=True)
        print(json.dumps({"status": "ok" if same else "mismatch", "checked": "dask.compute(r1, r2) == (r1.compute(), r2.compute())"}, indent=1))
        return 0 if same else 1
    nm = ConcNamer(parse_model(rep["inputs"]))
    r = differential(interp, c, inst, nm, pb)
    print(json.dumps(r, indent=1, default=str))
    return 1 if r["status"] == "mismatch" else 0


if __name__ == "__main__":
    sys.exit(main())
