"""Stubs, part 2: NumPy structural ops, astropy units/Quantity/Time (model E), Dask container ops.
All are *assumed* contracts on dependencies; the executable counterparts are compared with the
real libraries by conformance.py."""
from __future__ import annotations
import ast
from fractions import Fraction
import z3
from . import values as V
from . import arrays as A
from .values import SArr, Qty, Unit, STime, SSlice, Obj, PyExc, Cx, DType, is_sym, conc
from .ctx import Unsupported
from .interp import Stub, NS, ExtType, ClassRef, FuncVal, Bound, NOTIMPL
from .stubs_base import StubsBase

TIME_DIM = (("s", 1),)
FREQ_DIM = (("s", -1),)
ANGLE_DIM = (("cyc", 1),)
# Time.isclose default tolerance: 2 * eps * 1 day, in seconds
TAU_T = Fraction(2 * 86400, 2 ** 52)
PC_IN_M = Fraction("3.0856775814913673e16")


def qmag(v):
    return v.val if isinstance(v, Qty) else v


def _ite_chain(j, items):
    out = items[-1]
    for k in range(len(items) - 2, -1, -1):
        out = V.Ite(V.eq(j, k), items[k], out)
    return out


def _free_vars(t):
    out, todo, seen = set(), [t], set()
    while todo:
        x = todo.pop()
        if x.get_id() in seen:
            continue
        seen.add(x.get_id())
        if z3.is_const(x) and x.decl().kind() == z3.Z3_OP_UNINTERPRETED:
            out.add(x)
        todo.extend(x.children())
    return out


class OpaqueBlocks:
    """block sizes of one axis of a Dask array: not modelled, may only be handed back to Dask"""
    def __init__(self, axis):
        self.axis = axis

    def __repr__(self):
        return f"<blocks of axis {self.axis}>"


class StubsLib(StubsBase):
    def __init__(self):
        super().__init__()
        self._init_units()
        self._init_numpy()
        self._init_time()
        self._init_dask()

    # ================================================================== astropy.units
    def _init_units(self):
        U = {}

        def mk(name, scale, dim, pik=0):
            U[name] = Unit(scale, dim, pik, name)
        mk("Hz", 1, {"s": -1}); mk("kHz", 10 ** 3, {"s": -1}); mk("MHz", 10 ** 6, {"s": -1}); mk("GHz", 10 ** 9, {"s": -1})
        mk("mHz", Fraction(1, 1000), {"s": -1})
        mk("s", 1, {"s": 1}); mk("ms", Fraction(1, 10 ** 3), {"s": 1}); mk("us", Fraction(1, 10 ** 6), {"s": 1})
        mk("ns", Fraction(1, 10 ** 9), {"s": 1}); mk("min", 60, {"s": 1}); mk("minute", 60, {"s": 1})
        mk("hour", 3600, {"s": 1}); mk("day", 86400, {"s": 1}); mk("second", 1, {"s": 1})
        mk("one", 1, {}); mk("dimensionless_unscaled", 1, {})
        mk("cycle", 1, {"cyc": 1}); mk("rad", 1, {"cyc": 1}, pik=-1); mk("radian", 1, {"cyc": 1}, pik=-1)
        mk("deg", Fraction(1, 360), {"cyc": 1}); mk("degree", Fraction(1, 360), {"cyc": 1})
        mk("m", 1, {"L": 1}); mk("cm", Fraction(1, 100), {"L": 1}); mk("pc", PC_IN_M, {"L": 1})
        self.units = U
        qt = ExtType("Quantity", lambda v: isinstance(v, Qty))
        qt.ctor = self.quantity_ctor
        self.types["Quantity"] = qt
        stq = ExtType("SpecificTypeQuantity", lambda v: isinstance(v, Qty))
        attrs = dict(U)
        attrs.update({
            "Quantity": qt, "SpecificTypeQuantity": stq,
            "isclose": Stub(self.u_isclose, "u.isclose"),
            "allclose": Stub(self.u_allclose, "u.allclose"),
            "UnitsError": self._exc("UnitsError"), "UnitConversionError": self._exc("UnitConversionError"),
            "UnitTypeError": self._exc("UnitTypeError"),
        })
        ns = NS("astropy.units", attrs)
        self.ext["astropy.units"] = ns
        self.ext["astropy"] = NS("astropy", {"units": ns})

    def _exc(self, name):
        return ExtType(name, lambda v, name=name: isinstance(v, PyExc) and V.exc_isinstance(v.kind, name))

    def quantity_ctor(self, ctx, value, unit=None, copy=True, **kw):
        ctx.note("stub:astropy.Quantity")
        if isinstance(value, Qty):
            if unit is None:
                return value
            return self.q_to(ctx, value, unit)
        if unit is None:
            unit = self.units["one"]
        if isinstance(unit, str):
            unit = self.units[unit]
        if V.is_num(value) or isinstance(value, SArr) or isinstance(value, Cx):
            return self.q_from_value(ctx, value, unit)
        if isinstance(value, (list, tuple)) and all(V.is_num(x) for x in value):
            return self.q_from_value(ctx, self.np_array(ctx, value), unit)
        raise PyExc("TypeError", "The value must be a valid Python or Numpy numeric type.")

    def unit_factor(self, ctx, unit: Unit):
        """Symbolic factor scale * (2 pi)^pik."""
        f = unit.scale
        if unit.pik:
            tp = V.mul(2, V.PI)
            p = 1
            for _ in range(abs(unit.pik)):
                p = V.mul(p, tp)
            f = V.mul(f, p) if unit.pik > 0 else V.div(ctx, f, p)
        return f

    def apply_unit(self, ctx, value, unit: Unit, divide=False):
        """value * scale*(2pi)^pik (or the inverse) without nested inverse symbols."""
        sc, pik = unit.scale, unit.pik
        if divide:
            sc, pik = 1 / sc, -pik
        v = self.scale_val(ctx, value, sc)
        if pik:
            tp = V.mul(2, V.PI)
            p = 1
            for _ in range(abs(pik)):
                p = V.mul(p, tp)
            v = self.scale_val(ctx, v, p, divide=(pik < 0))
        return v

    def q_from_value(self, ctx, value, unit: Unit):
        return Qty(self.apply_unit(ctx, value, unit), unit.dim, unit)

    def scale_val(self, ctx, value, f, divide=False):
        if not is_sym(f) and f == 1:
            return value
        if isinstance(value, SArr):
            dt = value.dtype if value.dtype.kind in "fc" else DType("float64")
            if divide:
                return A.elementwise(ctx, lambda x: self._sdiv(ctx, x, f), [value], dt)
            return A.elementwise(ctx, lambda x: self._smul(x, f), [value], dt)
        return self._sdiv(ctx, value, f) if divide else self._smul(value, f)

    def _smul(self, x, f):
        if isinstance(x, Cx):
            return Cx(V.mul(x.re, f), V.mul(x.im, f))
        return V.mul(x, f)

    def _sdiv(self, ctx, x, f):
        if isinstance(x, Cx):
            return Cx(V.div(ctx, x.re, f), V.div(ctx, x.im, f))
        return V.div(ctx, x, f)

    def q_to(self, ctx, q: Qty, unit):
        if isinstance(unit, str):
            unit = self.units.get(unit) or _raise("ValueError", "unknown unit")
        if not isinstance(unit, Unit):
            raise PyExc("TypeError", "not a unit")
        if q.dim != unit.dim:
            raise PyExc("UnitConversionError", f"{q.dim} and {unit.dim} are not convertible")
        return Qty(q.val, q.dim, unit, q.cls)

    def q_to_value(self, ctx, q: Qty, unit=None):
        if unit is None:
            unit = q.unit or Unit(1, q.dim)
        if isinstance(unit, str):
            unit = self.units[unit]
        if q.dim != unit.dim:
            raise PyExc("UnitConversionError", f"{q.dim} and {unit.dim} are not convertible")
        return self.apply_unit(ctx, q.val, unit, divide=True)

    def u_isclose(self, ctx, a, b, rtol=Fraction(1, 10 ** 5), atol=None):
        """astropy.units.isclose: |a - b| <= atol + rtol*|b| (atol defaults to 0)."""
        ctx.note("stub:u.isclose=|a-b|<=rtol*|b|")
        a, b = self.as_qty(a), self.as_qty(b)
        if a.dim != b.dim:
            raise PyExc("UnitConversionError", "incompatible units in isclose")
        at = 0
        if atol is not None:
            at = self.as_qty(atol)
            if at.dim != b.dim:
                raise PyExc("UnitConversionError", "incompatible units of atol in isclose")
            if isinstance(at.val, SArr):
                raise Unsupported("u.isclose with an array atol")
            at = at.val

        def f(x, y):
            d = V.sub(x, y)
            ad = V.Ite(V.le(0, d), d, V.neg(d))
            ay = V.Ite(V.le(0, y), y, V.neg(y))
            return V.le(ad, V.add(at, V.mul(rtol, ay)))
        if isinstance(a.val, SArr) or isinstance(b.val, SArr):
            return A.elementwise(ctx, f, [a.val, b.val], DType("bool"))
        return V.simp(f(a.val, b.val))

    def u_allclose(self, ctx, a, b, rtol=Fraction(1, 10 ** 5), atol=None):
        r = self.u_isclose(ctx, a, b, rtol, atol)
        if isinstance(r, SArr):
            return self.forall_elems(ctx, r, lambda e: e, "allclose")
        return r

    def as_qty(self, v):
        if isinstance(v, Qty):
            return v
        if V.is_num(v) or isinstance(v, SArr):
            return Qty(v, ())
        raise PyExc("TypeError", "not a Quantity")

    def forall_elems(self, ctx, arr: SArr, pred, tag):
        """Bool b with b <=> for all in-bounds ix: pred(arr[ix]) (definitional facts)."""
        if arr.ndim == 0:
            return V.simp(pred(arr.elem(())))
        b = ctx.fresh(f"all_{tag}", "bool")
        ixs = [z3.Int(f"q_{tag}{k}!{next(ctx.counter)}") for k in range(arr.ndim)]
        inb = z3.And(*[z3.And(i >= 0, i < V.Z(d)) for i, d in zip(ixs, arr.shape)])
        body = V.Z(pred(arr.elem(tuple(ixs))))
        ctx.assume(z3.Implies(b, z3.ForAll(ixs, z3.Implies(inb, body))), why=f"forall-def:{tag}")
        wit = [ctx.fresh(f"w_{tag}{k}", "int") for k in range(arr.ndim)]
        inw = z3.And(*[z3.And(i >= 0, i < V.Z(d)) for i, d in zip(wit, arr.shape)])
        ctx.assume(z3.Implies(z3.Not(b), z3.And(inw, z3.Not(V.Z(pred(arr.elem(tuple(wit))))))), why=f"forall-wit:{tag}")
        return b

    # -- Quantity attribute access ----------------------------------------------------
    def qty_getattr(self, q: Qty, name, ctx):
        if name == "to":
            return Stub(lambda c, unit, equivalencies=None: self.q_to(c, q, unit), "Quantity.to")
        if name == "to_value":
            return Stub(lambda c, unit=None, equivalencies=None: self.q_to_value(c, q, unit), "Quantity.to_value")
        if name == "value":
            return self.q_to_value(ctx, q, None)
        if name == "unit":
            return q.unit or Unit(1, q.dim)
        if name == "isscalar":
            return q.is_scalar or q.val.ndim == 0
        if name == "shape":
            return q.val.shape if isinstance(q.val, SArr) else ()
        if name == "ndim":
            return q.val.ndim if isinstance(q.val, SArr) else 0
        if name == "size":
            return A.shape_prod(q.val.shape) if isinstance(q.val, SArr) else 1
        if name == "dtype":
            return q.val.dtype if isinstance(q.val, SArr) else DType("float64")
        if name == "round":
            def rnd(c, decimals=0):
                if decimals != 0:
                    raise Unsupported("round(decimals)")
                if q.dim != ():
                    # astropy rounds the value in the display unit
                    val = self.q_to_value(c, q, None)
                    r = self.np_round(c, val)
                    return self.q_from_value(c, r, q.unit or Unit(1, q.dim))
                return Qty(self.np_round(c, q.val), q.dim, q.unit)
            return Stub(rnd, "Quantity.round")
        if name == "astype":
            return Stub(lambda c, dt, **k: Qty(self.arr_method(q.val, "astype", c).fn(c, dt, **k), q.dim, q.unit), "Quantity.astype")
        if name in ("real", "imag"):
            if isinstance(q.val, SArr):
                return Qty(A.real_part(ctx, q.val) if name == "real" else A.imag_part(ctx, q.val), q.dim, q.unit)
            c = Cx.of(q.val)
            return Qty(c.re if name == "real" else c.im, q.dim, q.unit)
        if name == "copy":
            return Stub(lambda c: Qty(A.copy(c, q.val) if isinstance(q.val, SArr) else q.val, q.dim, q.unit, q.cls), "Quantity.copy")
        if q.cls is not None:
            # methods/attrs of a repo subclass of Quantity (DispersionMeasure)
            cls, m = q.cls.find_method(name)
            if m is not None:
                fv = FuncVal(cls.module, m, None, cls, f"{cls.qualname}.{name}", "method")
                return Bound(fv, q)
            cls, a = q.cls.find_attr(name)
            if a is not None:
                from .interp import Env
                return self.interp.eval(a, Env(cls.module, None, cls), ctx)
        raise PyExc("AttributeError", f"Quantity has no attribute {name}")

    # ================================================================== Time
    def _init_twofloat(self):
        """astropy.time.utils.two_sum / two_product: error-free transformations (Shewchuk), assumed:
        s = RN(a+b), s + e = a + b exactly;  p = RN(a*b), p + e = a*b exactly."""
        def two_sum(c, a, b):
            c.note("assumed:two_sum(a,b)=(RN(a+b), exact error)")
            ex = V.add(a, b)
            s_ = self.mu_round(c, V.R(V.Z(ex)) if is_sym(ex) else ex) if getattr(c, "mu", False) else ex
            if not getattr(c, "mu", False):
                return (s_, 0)
            e = c.fresh("ts_err")
            c.assume(V.Z(s_) + e == V.R(V.Z(ex)), why="two_sum exactness (assumed contract)")
            return (s_, e)

        def two_product(c, a, b):
            c.note("assumed:two_product(a,b)=(RN(a*b), exact error)")
            ex = V.mul(a, b)
            if not getattr(c, "mu", False):
                return (ex, 0)
            p_ = self.mu_round(c, V.R(V.Z(ex)) if is_sym(ex) else ex)
            e = c.fresh("tp_err")
            c.assume(V.Z(p_) + e == V.R(V.Z(ex)), why="two_product exactness (assumed contract)")
            return (p_, e)
        ns = NS("astropy.time.utils", {"two_sum": Stub(two_sum, "two_sum"), "two_product": Stub(two_product, "two_product")})
        self.ext["astropy.time.utils"] = ns
        self.ext["astropy.time.utils.two_sum"] = ns.attrs["two_sum"]
        self.ext["astropy.time.utils.two_product"] = ns.attrs["two_product"]

    def _init_time(self):
        self._init_twofloat()
        tt = ExtType("Time", lambda v: isinstance(v, STime))
        tt.ctor = self.time_ctor
        tt.attrs = {"isclose": Stub(self.time_isclose, "Time.isclose")}
        self.types["Time"] = tt
        self.ext["astropy.time.Time"] = tt
        self.ext["astropy.time"] = NS("astropy.time", {"Time": tt})
        self.ext["astropy"].attrs["time"] = self.ext["astropy.time"]

    def time_ctor(self, ctx, val, val2=None, format=None, scale=None, precision=None, **kw):
        """Time(x, format=, precision=): accepts Time instances (returns a *new* object, the
        argument is untouched); anything else modelled here (numbers, None, Quantities) raises,
        as astropy does for non-time-like input without a numeric format."""
        ctx.note("stub:astropy.Time(ctor accepts Time-like only)")
        if isinstance(val, STime):
            return STime(val.sec, format or val.fmt, precision if precision is not None else val.precision)
        if isinstance(val, str) and getattr(val, "_is_time_string", False):
            raise Unsupported("Time from string")
        if V.is_num(val) and format in ("mjd", "jd", "unix"):
            raise Unsupported("Time from number with numeric format")
        raise PyExc("ValueError", "Input values did not match the format class")

    def time_isclose(self, ctx, t, other, atol=None):
        ctx.note("stub:Time.isclose=|dt|<=2*eps*day")
        if not isinstance(t, STime) or not isinstance(other, STime):
            raise PyExc("TypeError", "'other' argument must support subtraction with Time")
        tol = TAU_T
        if atol is not None:
            if not isinstance(atol, Qty) or atol.dim != TIME_DIM:
                raise PyExc("TypeError", "'atol' argument must be a Quantity or TimeDelta instance")
            tol = atol.val

        def f(x, y):
            d = V.sub(x, y)
            return V.And(V.le(d, tol), V.le(V.neg(tol), d))
        if isinstance(t.sec, SArr) or isinstance(other.sec, SArr):
            return A.elementwise(ctx, f, [t.sec, other.sec], DType("bool"))
        return V.simp(f(t.sec, other.sec))

    def time_getattr(self, t: STime, name, ctx):
        if name == "isscalar":
            return t.is_scalar
        if name == "shape":
            return () if t.is_scalar else t.sec.shape
        if name == "ndim":
            return 0 if t.is_scalar else t.sec.ndim
        if name == "size":
            return 1 if t.is_scalar else A.shape_prod(t.sec.shape)
        if name == "isclose":
            return Stub(lambda c, other, atol=None: self.time_isclose(c, t, other, atol), "Time.isclose")
        if name in ("isot", "iso"):
            return "<isot>"
        if name == "mjd":
            ctx.note("stub:Time.mjd order-exact (A-mjd)")
            return self.scale_val(ctx, t.sec, Fraction(1, 86400))
        if name == "copy":
            return Stub(lambda c, *a, **k: STime(t.sec, t.fmt, t.precision), "Time.copy")
        if name in ("format", "precision"):
            return t.fmt if name == "format" else t.precision
        if name == "scale":
            return "utc"
        if name in ("utc", "tai", "tt", "tdb", "tcb", "tcg", "ut1"):
            # an STime denotes an instant; re-expressing it in another time scale does not change the instant
            ctx.note("model: Time scales not modelled (an STime is an instant; .mjd is that of one common scale)")
            return t
        raise PyExc("AttributeError", f"Time has no attribute {name}")

    # ================================================================== numpy
    def _init_numpy(self):
        dts = {n: DType(n) for n in ["float64", "float32", "complex64", "complex128", "int64", "int32", "int8",
                                     "int16", "uint8", "float16"]}
        dts["bool_"] = DType("bool")
        nd = ExtType("ndarray", lambda v: isinstance(v, SArr) and v.backend == "numpy")
        self.types["ndarray"] = nd
        fft = NS("numpy.fft", {})
        mixin = ExtType("NDArrayOperatorsMixin", lambda v: False)
        attrs = dict(dts)
        attrs.update({
            "ndarray": nd, "newaxis": None, "pi": V.PI, "fft": fft,
            # NumPy scalars are modelled as Python numbers (or as 0-d arrays, which answer to np.ndarray)
            "generic": ExtType("generic", lambda v: False),
            "lib": NS("numpy.lib", {"mixins": NS("numpy.lib.mixins", {"NDArrayOperatorsMixin": mixin})}),
            "prod": Stub(self.np_prod, "np.prod"),
            "asarray": Stub(self.np_asarray, "np.asarray"),
            "asanyarray": Stub(self.np_asarray, "np.asanyarray"),
            "array": Stub(self.np_array, "np.array"),
            "zeros": Stub(lambda c, shape, dtype=DType("float64"): A.zeros(c, shape, self.to_dtype(dtype)), "np.zeros"),
            "arange": Stub(lambda c, *a, dtype=None: self.np_arange(c, a, dtype, "numpy"), "np.arange"),
            "take": Stub(lambda c, a, index, axis=None: self.np_take(c, a, index, axis), "np.take"),
            "stack": Stub(lambda c, arrs, axis=0: self.np_stack(c, arrs, axis), "np.stack"),
            "concatenate": Stub(lambda c, arrs, axis=0: self.np_concatenate(c, arrs, axis), "np.concatenate"),
            "broadcast_to": Stub(lambda c, a, shape, **k: A.broadcast_to(c, a if isinstance(a, SArr) else self.np_array(c, a), shape), "np.broadcast_to"),
            "flip": Stub(lambda c, a, axis=None: A.flip(c, a, axis), "np.flip"),
            "sqrt": Stub(self.np_sqrt, "np.sqrt"),
            "exp": Stub(self.np_exp, "np.exp"),
            "floor": Stub(lambda c, x: self.np_floorceil(c, x, False), "np.floor"),
            "trunc": Stub(self.np_trunc, "np.trunc"),
            "ceil": Stub(lambda c, x: self.np_floorceil(c, x, True), "np.ceil"),
            "round": Stub(lambda c, x, decimals=0: self.np_round(c, x), "np.round"),
            "iscomplexobj": Stub(self.np_iscomplexobj, "np.iscomplexobj"),
            "result_type": Stub(self.np_result_type, "np.result_type"),
            # ufuncs spelled as functions: the same operation as the operator (out= is a write to that array)
            "multiply": Stub(lambda c, a, b, out=None, **k: self._np_binary(c, ast.Mult(), a, b, out, k), "np.multiply"),
            "add": Stub(lambda c, a, b, out=None, **k: self._np_binary(c, ast.Add(), a, b, out, k), "np.add"),
            "subtract": Stub(lambda c, a, b, out=None, **k: self._np_binary(c, ast.Sub(), a, b, out, k), "np.subtract"),
            "divide": Stub(lambda c, a, b, out=None, **k: self._np_binary(c, ast.Div(), a, b, out, k), "np.divide"),
            "true_divide": Stub(lambda c, a, b, out=None, **k: self._np_binary(c, ast.Div(), a, b, out, k), "np.true_divide"),
            "negative": Stub(lambda c, a, out=None, **k: self._np_unary(c, ast.USub(), a, out, k), "np.negative"),
            "positive": Stub(lambda c, a, out=None, **k: self._np_unary(c, ast.UAdd(), a, out, k), "np.positive"),
            "square": Stub(lambda c, a, out=None, **k: self._np_binary(c, ast.Mult(), a, a, out, k), "np.square"),
            "allclose": Stub(self.np_allclose, "np.allclose"),
            "all": Stub(self.np_all, "np.all"),
            "any": Stub(self.np_any, "np.any"),
            "bool_": Stub(lambda c, x: x, "np.bool_"),
            "dtype": Stub(lambda c, x: self.to_dtype(x), "np.dtype"),
            "s_": NS("np.s_", {}),
            "matmul": NS("ufunc:matmul", {"nin": 2, "nout": 1}),
            "searchsorted": Stub(self.np_searchsorted, "np.searchsorted"),
            "argsort": Stub(self.np_argsort, "np.argsort"),
            "isclose": Stub(self.np_isclose, "np.isclose"),
            "abs": Stub(lambda c, x: self.b_abs(c, x), "np.abs"),
            "absolute": Stub(lambda c, x: self.b_abs(c, x), "np.absolute"),
            "rint": Stub(lambda c, x: self.np_round(c, x), "np.rint"),
            "real": Stub(lambda c, x: self.value_getattr(x, "real", c), "np.real"),
            "imag": Stub(lambda c, x: self.value_getattr(x, "imag", c), "np.imag"),
            "conj": Stub(lambda c, x: A.conj(c, x) if isinstance(x, SArr) else V.cconj(x), "np.conj"),
            "conjugate": Stub(lambda c, x: A.conj(c, x) if isinstance(x, SArr) else V.cconj(x), "np.conjugate"),
            "transpose": Stub(lambda c, x, axes=None: A.transpose(c, x, axes), "np.transpose"),
            "swapaxes": Stub(lambda c, x, a, b: A.swapaxes(c, x, a, b), "np.swapaxes"),
            "ones": Stub(lambda c, shape, dtype=DType("float64"): self._np_full(c, shape, 1, dtype), "np.ones"),
            "full": Stub(lambda c, shape, val, dtype=None: self._np_full(c, shape, val, dtype), "np.full"),
            "empty": Stub(lambda c, shape, dtype=DType("float64"): A.zeros(c, shape, self.to_dtype(dtype)), "np.empty"),
            "zeros_like": Stub(lambda c, x, dtype=None: A.zeros(c, x.shape, self.to_dtype(dtype) if dtype is not None else x.dtype), "np.zeros_like"),
            "ndim": Stub(lambda c, x: x.ndim if isinstance(x, SArr) else (x.val.ndim if isinstance(x, Qty) and isinstance(x.val, SArr) else 0), "np.ndim"),
            "shape": Stub(lambda c, x: x.shape if isinstance(x, SArr) else (), "np.shape"),
            "maximum": Stub(lambda c, a, b: self._np_minmax(c, a, b, True), "np.maximum"),
            "minimum": Stub(lambda c, a, b: self._np_minmax(c, a, b, False), "np.minimum"),
            "where": Stub(self._np_where, "np.where"),
            "sign": Stub(lambda c, x: self._np_sign(c, x), "np.sign"),
            "copy": Stub(lambda c, x: A.copy(c, x), "np.copy"),
            "ascontiguousarray": Stub(lambda c, x, dtype=None: self.np_asarray(c, x, dtype), "np.ascontiguousarray"),
            "moveaxis": Stub(lambda c, x, a, b: self._np_moveaxis(c, x, a, b), "np.moveaxis"),
            "expand_dims": Stub(lambda c, x, axis: self.getitem(x, tuple([SSlice()] * (axis % (x.ndim + 1)) + [None]), c), "np.expand_dims"),
            "shares_memory": Stub(lambda c, a, b: bool(a.owner & b.owner), "np.shares_memory"),
            "nan_to_num": Stub(self.np_nan_to_num, "np.nan_to_num"),
            "roll": Stub(self.np_roll, "np.roll"),
        })
        attrs["s_"].is_index_exp = True
        self.ext["numpy"] = NS("numpy", attrs)
        self.ext["numpy.polynomial.Polynomial"] = None

    def np_arange(self, ctx, a, dtype, backend):
        if len(a) == 1:
            r = A.arange(ctx, a[0], backend)
        elif len(a) in (2, 3):
            r = A.arange_range(ctx, a[0], a[1], a[2] if len(a) == 3 else 1, backend)
        else:
            raise Unsupported("np.arange call form")
        return r if dtype is None else A.astype(ctx, r, self.to_dtype(dtype))

    def np_nan_to_num(self, ctx, x, copy=True, nan=0.0, posinf=None, neginf=None):
        """Model E has no nan/inf: the values are unchanged; with copy=False the argument itself is written."""
        ctx.note("stub:np.nan_to_num is the identity on finite values (model E has no nan/inf); copy=False writes into its argument")
        q = x if not isinstance(x, Qty) else x.val
        if not isinstance(q, SArr):
            return x
        if self.interp.truthy_sym(copy, ctx) is not True:
            self.frame_write_arr(q, "np.nan_to_num copy=False", ctx)
            return x
        r = SArr(q.shape, q.elem, q.dtype, q.backend)
        return r if not isinstance(x, Qty) else Qty(r, x.dim, x.unit)

    def np_roll(self, ctx, x, shift, axis=None):
        """np.roll along one axis (a fresh array): out[..., i, ...] = x[..., (i - shift) mod n, ...]."""
        if not isinstance(x, SArr):
            raise Unsupported("np.roll operand")
        if axis is None:
            if x.ndim != 1:
                raise Unsupported("np.roll without axis on a multi-dimensional array (rolls the flattened array)")
            axis = 0
        ax = A.norm_axis(x, axis)
        n = x.shape[ax]
        if isinstance(shift, (float, Fraction)) or (is_sym(shift) and not z3.is_int(shift)):
            raise Unsupported("np.roll by a non-integer")
        ctx.note("stub:np.roll(x, k, axis): out[i] = x[(i - k) mod n]")
        if ctx.branch(V.le(n, 0), "roll of an empty axis"):
            return SArr(x.shape, x.elem, x.dtype, x.backend)

        def elem(ix):
            ix = list(ix)
            ix[ax] = V.mod_int(ctx, V.sub(ix[ax], shift), n)
            return x.elem(tuple(ix))
        return SArr(x.shape, elem, x.dtype, x.backend)

    def to_dtype(self, d):
        if isinstance(d, DType):
            return d
        if isinstance(d, str):
            return DType({"f8": "float64", "f4": "float32", "c8": "complex64", "c16": "complex128",
                          "bool": "bool", "float": "float64", "complex": "complex128", "int": "int64"}.get(d, d))
        if isinstance(d, ExtType):
            return DType({"bool": "bool", "int": "int64", "float": "float64", "complex": "complex128"}[d.name])
        raise Unsupported(f"dtype {d!r}")

    def np_prod(self, ctx, x, **kw):
        if isinstance(x, (tuple, list)):
            return A.shape_prod(x)
        raise Unsupported("np.prod of array")

    def np_asarray(self, ctx, x, dtype=None):
        ctx.note("stub:np.asarray(view of ndarray; computes dask)")
        if isinstance(x, SArr):
            if x.backend == "dask":
                ctx.events.append(("force", "np.asarray(dask)"))
                x = SArr(x.shape, x.elem, x.dtype, "numpy")
            if dtype is not None and self.to_dtype(dtype) != x.dtype:
                return A.astype(ctx, x, self.to_dtype(dtype))
            return x
        if isinstance(x, Obj):
            cls, m = x.cls.find_method("__array__")
            if m is None:
                raise Unsupported("np.asarray of object without __array__")
            return self.interp.call(self.interp.get_attr(x, "__array__", ctx), (), {}, ctx)
        return self.np_array(ctx, x)

    def np_array(self, ctx, x, dtype=None, copy=True, **kw):
        """np.array(x): always a new array (copy) for ndarray input."""
        if isinstance(x, SArr):
            if x.backend == "dask":
                ctx.events.append(("force", "np.array(dask)"))
            return SArr(x.shape, x.elem, x.dtype if dtype is None else self.to_dtype(dtype), "numpy")
        if isinstance(x, Qty):
            # np.array(Quantity) -> plain ndarray of the value in the display unit
            v = self.q_to_value(ctx, x, None)
            return self.np_array(ctx, v)
        if V.is_num(x) or isinstance(x, Cx) or isinstance(x, bool):
            dt = A.scalar_dtype(x)
            return SArr((), lambda ix: x, dt if dtype is None else self.to_dtype(dtype))
        if isinstance(x, (list, tuple)):
            items = list(x)
            if all(V.is_num(i) or isinstance(i, Cx) for i in items):
                dt = V.result_dtype(*[A.scalar_dtype(i) for i in items]) if items else DType("float64")

                def elem(ix):
                    j = ix[0]
                    if not is_sym(j):
                        return items[j]
                    out = items[-1]
                    for k in range(len(items) - 2, -1, -1):
                        out = V.Ite(V.eq(j, k), items[k], out)
                    return out
                return SArr((len(items),), elem, dt if dtype is None else self.to_dtype(dtype))
            if all(isinstance(i, SArr) for i in items):
                return A.stack(ctx, items, 0)
        raise Unsupported(f"np.array of {type(x).__name__}")

    def np_take(self, ctx, a, index, axis):
        if isinstance(a, Qty):
            return Qty(self.np_take(ctx, a.val, index, axis), a.dim, a.unit)
        if axis is None:
            raise Unsupported("np.take without axis")
        return A.take(ctx, a, index, axis)

    def np_stack(self, ctx, arrs, axis=0):
        from .values import SSeq
        if isinstance(arrs, SSeq):
            return self.stack_sym(ctx, arrs, axis)
        arrs = self.interp.iterate(arrs, ctx)
        if arrs and all(isinstance(a, Qty) for a in arrs):
            return Qty(A.stack(ctx, [a.val for a in arrs], axis), arrs[0].dim, arrs[0].unit)
        return A.stack(ctx, arrs, axis)

    def stack_sym(self, ctx, sq, axis):
        """np.stack of a symbolic-length sequence of equally shaped arrays (shape must not depend on the index)."""
        t = sq.template if sq.template is not None else sq.item(ctx.fresh("probe", "int"))
        unit = None
        if isinstance(t, Qty):
            unit, t = (t.dim, t.unit), t.val
        if V.is_num(t) or isinstance(t, Cx):
            t = SArr((), lambda ix: t, A.scalar_dtype(t))
        if not isinstance(t, SArr):
            raise Unsupported(f"np.stack of a symbolic-length sequence of {type(t).__name__}")
        if sq.iota is not None:
            names = {str(sq.iota)}
            dims = []
            for k_, d in enumerate(t.shape):
                if is_sym(d) and names & {str(v) for v in _free_vars(V.Z(d))}:
                    # the extent is written in terms of the generic index: it must be the same for every index
                    other = ctx.fresh("iota2", "int")
                    with ctx.scope():
                        ctx.assume(z3.And(other >= 0, other < V.Z(sq.n)), why="second generic index")
                        ctx.fold_point(other, sq.n)
                        it2 = sq.item(other)
                        it2 = it2.val if isinstance(it2, Qty) else it2
                        same = isinstance(it2, SArr) and it2.ndim == t.ndim and ctx.is_valid(V.eq(it2.shape[k_], d))
                    if not same:
                        raise Unsupported("np.stack over a symbolic-length sequence: cannot show that every element has the same shape")
                dims.append(d)
            t = SArr(tuple(dims), t.elem, t.dtype, t.backend)
        ax = axis if axis >= 0 else axis + t.ndim + 1
        if not 0 <= ax <= t.ndim:
            raise PyExc("AxisError", "axis out of bounds")
        shape = t.shape[:ax] + (sq.n,) + t.shape[ax:]

        def elem(ix):
            it = sq.item(ix[ax])
            if isinstance(it, Qty):
                it = it.val
            rest = ix[:ax] + ix[ax + 1:]
            return it.elem(rest) if isinstance(it, SArr) else it
        out = SArr(shape, elem, t.dtype, t.backend)
        return Qty(out, unit[0], unit[1]) if unit else out

    def np_concatenate(self, ctx, arrs, axis=0):
        arrs = self.interp.iterate(arrs, ctx)
        return A.concatenate(ctx, arrs, axis)

    def np_sqrt(self, ctx, x):
        if not is_sym(x) and x == 2:
            # np.sqrt(2) is a NumPy float64 *scalar*: not "weak" in NEP-50 promotion -> 0-d float64
            return SArr((), lambda ix: V.SQRT2, DType("float64"))
        if V.is_num(x):
            r = ctx.fresh("sqrt")
            ctx.assume(z3.And(r >= 0, r * r == V.R(V.Z(x))), why="sqrt-def")
            return r
        raise Unsupported("np.sqrt of array")

    def np_exp(self, ctx, x):
        """exp of a purely imaginary argument i*theta -> unit-modulus cis(theta) (uninterpreted)."""
        ctx.note("stub:np.exp(i*theta)=cis(theta) uninterpreted unit phasor")
        if isinstance(x, Qty):
            if x.dim != ():
                raise PyExc("UnitTypeError", "Can only apply 'exp' function to dimensionless quantities")
            x = x.val

        def f(v):
            c = Cx.of(v)
            if not (not is_sym(c.re) and c.re == 0):
                raise Unsupported("exp with a non-zero real part")
            return V.cis(c.im)
        if isinstance(x, SArr):
            dt = DType("complex64") if x.dtype.name == "complex64" else DType("complex128")
            return A.elementwise(ctx, f, [x], dt)
        return f(x)

    def np_floorceil(self, ctx, x, ceil):
        fn = (lambda v: V.ceil_real(ctx, v)) if ceil else (lambda v: V.floor_real(ctx, v))
        if isinstance(x, SArr):
            return A.elementwise(ctx, fn, [x], x.dtype if x.dtype.kind == "f" else DType("float64"))
        if V.is_num(x):
            return fn(x)
        raise Unsupported("np.floor/ceil operand")

    def np_trunc(self, ctx, x):
        fn = lambda v: V.trunc_real(ctx, v)
        if isinstance(x, SArr):
            return A.elementwise(ctx, fn, [x], x.dtype if x.dtype.kind == "f" else DType("float64"))
        if V.is_num(x):
            return fn(x)
        raise Unsupported("np.trunc operand")

    def np_round(self, ctx, x):
        if isinstance(x, SArr):
            return A.elementwise(ctx, lambda v: V.rint_real(ctx, v), [x], x.dtype)
        if isinstance(x, Qty):
            return self.qty_getattr(x, "round", ctx).fn(ctx)
        return V.rint_real(ctx, x)

    def _np_binary(self, ctx, op, a, b, out, kw):
        if kw:
            raise Unsupported(f"ufunc keyword(s) {sorted(kw)}")
        a, b = self._snap_if_target(a, out), self._snap_if_target(b, out)
        r = self.interp.binop(op, a, b, ctx)
        return self._np_store_out(ctx, r, out)

    def _np_unary(self, ctx, op, a, out, kw):
        if kw:
            raise Unsupported(f"ufunc keyword(s) {sorted(kw)}")
        a = self._snap_if_target(a, out)
        r = self.interp.unop(op, a, ctx)
        return self._np_store_out(ctx, r, out)

    @staticmethod
    def _snap_if_target(x, out):
        """np.op(x, y, out=x): the result is computed from the values x holds BEFORE the store (the element function
        of the operand is captured now; the store replaces the target's element function afterwards)."""
        if out is None:
            return x
        tx = x.val if isinstance(x, Qty) else x
        to = out.val if isinstance(out, Qty) else out
        if isinstance(tx, SArr) and tx is to:
            snap = SArr(tx.shape, tx.elem, tx.dtype, tx.backend, owner=tx.owner)
            return Qty(snap, x.dim, x.unit) if isinstance(x, Qty) else snap
        return x

    def _np_store_out(self, ctx, r, out):
        if out is None:
            return r
        target = out.val if isinstance(out, Qty) else out
        rv = r.val if isinstance(r, Qty) else r
        if not isinstance(target, SArr) or not isinstance(rv, SArr):
            raise Unsupported("ufunc out= with a non-array")
        self.frame_write_arr(target, "ufunc out=", ctx)
        target.elem = rv.elem
        target.written = True
        return out

    def np_result_type(self, ctx, *args):
        """np.result_type of dtypes / arrays: answered by the installed NumPy on the dtype names."""
        import numpy as _np
        ds = []
        for a in args:
            if isinstance(a, SArr):
                ds.append(_np.dtype(a.dtype.name))
            elif isinstance(a, Qty) and isinstance(a.val, SArr):
                ds.append(_np.dtype(a.val.dtype.name))
            else:
                try:
                    ds.append(_np.dtype(self.to_dtype(a).name))
                except Unsupported:
                    raise Unsupported("np.result_type of a Python scalar / unknown operand")
        ctx.note("stub:np.result_type answered by the installed NumPy")
        return DType(_np.result_type(*ds).name)

    def np_iscomplexobj(self, ctx, x):
        if isinstance(x, SArr):
            return x.is_complex
        if isinstance(x, Qty):
            return self.np_iscomplexobj(ctx, x.val)
        return isinstance(x, Cx)

    def np_allclose(self, ctx, a, b, rtol=Fraction(1, 10 ** 5), atol=Fraction(1, 10 ** 8)):
        ctx.note("stub:np.allclose=|a-b|<=atol+rtol*|b|")

        def f(x, y):
            d = V.sub(x, y)
            ad = V.Ite(V.le(0, d), d, V.neg(d))
            ay = V.Ite(V.le(0, y), y, V.neg(y))
            return V.le(ad, V.add(atol, V.mul(rtol, ay)))
        if isinstance(a, SArr) or isinstance(b, SArr):
            r = A.elementwise(ctx, f, [a, b], DType("bool"))
            return self.forall_elems(ctx, r, lambda e: e, "allclose")
        return V.simp(f(a, b))

    def np_argsort(self, ctx, a, axis=-1, kind=None):
        """np.argsort of a 1-d array of concrete length: the permutation is found by forking on comparisons
        (stable insertion sort), so it is concrete on each path and the ordering facts are on the path."""
        if isinstance(a, Qty):
            a = a.val
        if not isinstance(a, SArr) or a.ndim != 1 or is_sym(a.shape[0]):
            raise Unsupported("np.argsort operand")
        ctx.note("stub:np.argsort (1-d, concrete length) by forking on comparisons")
        order = []
        for i in range(a.shape[0]):
            pos = len(order)
            for j, o in enumerate(order):
                if ctx.branch(V.lt(a.elem((i,)), a.elem((o,))), "argsort"):
                    pos = j
                    break
            order.insert(pos, i)
        items = list(order)
        return SArr((len(items),), lambda ix: items[ix[0]] if not is_sym(ix[0]) else _ite_chain(ix[0], items), DType("int64"))

    def np_searchsorted(self, ctx, a, v, side="left", sorter=None):
        """np.searchsorted(a, v) for a *sorted* 1-d array of concrete length: number of elements < v."""
        ctx.note("stub:np.searchsorted(sorted a, v, 'left') = #{i: a[i] < v}")
        if not isinstance(a, SArr) or a.ndim != 1 or is_sym(a.shape[0]):
            raise Unsupported("searchsorted operand")
        n = a.shape[0]
        if sorter is not None:
            if not isinstance(sorter, SArr) or sorter.ndim != 1 or is_sym(sorter.shape[0]):
                raise Unsupported("searchsorted sorter")
            perm = [sorter.elem((i,)) for i in range(n)]
            if any(is_sym(p_) for p_ in perm):
                raise Unsupported("searchsorted with a symbolic sorter")
            src = a
            a = SArr((n,), lambda ix: src.elem((perm[ix[0]],)) if not is_sym(ix[0]) else _ite_chain(ix[0], [src.elem((p_,)) for p_ in perm]), src.dtype)
        for i in range(n - 1):
            ctx.oblige("np.searchsorted.argument-sorted", V.le(a.elem((i,)), a.elem((i + 1,))), "safety")

        def count(x):
            tot = 0
            for i in range(n):
                tot = V.add(tot, V.Ite(V.lt(a.elem((i,)), x) if side == "left" else V.le(a.elem((i,)), x), 1, 0))
            return V.simp(tot)
        if isinstance(v, SArr):
            return A.elementwise(ctx, count, [v], DType("int64"))
        return count(v)

    def np_isclose(self, ctx, a, b, rtol=Fraction(1, 10 ** 5), atol=Fraction(1, 10 ** 8)):
        ctx.note("stub:np.isclose=|a-b|<=atol+rtol*|b|")

        def f(x, y):
            d = V.sub(x, y)
            ad = V.Ite(V.le(0, d), d, V.neg(d))
            ay = V.Ite(V.le(0, y), y, V.neg(y))
            return V.le(ad, V.add(atol, V.mul(rtol, ay)))
        if isinstance(a, SArr) or isinstance(b, SArr):
            return A.elementwise(ctx, f, [a, b], DType("bool"))
        return V.simp(f(a, b))

    def _np_full(self, ctx, shape, val, dtype):
        if not isinstance(shape, tuple):
            shape = (shape,)
        dt = self.to_dtype(dtype) if dtype is not None else A.scalar_dtype(val)
        cv = A.cast_scalar(val, dt)
        return SArr(shape, lambda ix: cv, dt)

    def _np_minmax(self, ctx, a, b, is_max):
        f = (lambda x, y: V.vmax(x, y)) if is_max else (lambda x, y: V.vmin(x, y))
        if isinstance(a, SArr) or isinstance(b, SArr):
            return A.elementwise(ctx, f, [a, b], A.promote([a, b]))
        return V.simp(f(a, b))

    def _np_where(self, ctx, cond, a, b):
        ops = [cond, a, b]
        if not any(isinstance(o, SArr) for o in ops):
            return V.Ite(cond, a, b)
        return A.elementwise(ctx, lambda c_, x, y: V.Ite(c_, x, y), ops, A.promote([a, b]))

    def _np_sign(self, ctx, x):
        f = lambda v: V.Ite(V.lt(0, v), 1, V.Ite(V.lt(v, 0), -1, 0))
        if isinstance(x, SArr):
            return A.elementwise(ctx, f, [x], x.dtype)
        return V.simp(f(x))

    def _np_moveaxis(self, ctx, x, src, dst):
        nd = x.ndim
        src, dst = src % nd, dst % nd
        order = [k for k in range(nd) if k != src]
        order.insert(dst, src)
        return A.transpose(ctx, x, order)

    def np_all(self, ctx, x):
        if isinstance(x, SArr):
            return self.forall_elems(ctx, x, lambda e: e, "all")
        return self.interp.truthy_sym(x, ctx)

    def np_any(self, ctx, x):
        """np.any(x) = not np.all(not x)."""
        if isinstance(x, SArr):
            return V.Not(self.forall_elems(ctx, x, lambda e: V.Not(e), "any"))
        return self.interp.truthy_sym(x, ctx)

    # -- ndarray attribute access --------------------------------------------------------
    def arr_method(self, a: SArr, name, ctx):
        A_ = A
        if name == "astype":
            def f(c, dt, casting="unsafe", copy=True, **k):
                return A_.astype(c, a, self.to_dtype(dt), casting, copy)
            return Stub(f, "ndarray.astype")
        if name == "item":
            def item(c):
                if a.ndim != 0 and not all((not is_sym(d)) and d == 1 for d in a.shape):
                    raise PyExc("ValueError", "can only convert an array of size 1 to a Python scalar")
                if a.backend == "dask":
                    c.events.append(("force", "ndarray.item(dask)"))
                return a.elem(tuple(0 for _ in a.shape))
            return Stub(item, "ndarray.item")
        if name == "conj" or name == "conjugate":
            return Stub(lambda c: A_.conj(c, a), "ndarray.conj")
        if name == "copy":
            return Stub(lambda c: A_.copy(c, a), "ndarray.copy")
        if name == "round":
            return Stub(lambda c, decimals=0: self.np_round(c, a), "ndarray.round")
        if name == "swapaxes":
            return Stub(lambda c, x, y: A_.swapaxes(c, a, x, y), "ndarray.swapaxes")
        if name == "transpose":
            return Stub(lambda c, *axes: A_.transpose(c, a, axes[0] if len(axes) == 1 and isinstance(axes[0], (tuple, list)) else (axes or None)), "ndarray.transpose")
        if name == "reshape":
            return Stub(lambda c, *shape, **k: self.np_reshape(c, a, shape[0] if len(shape) == 1 and isinstance(shape[0], (tuple, list)) else shape), "ndarray.reshape")
        if name == "compute":
            def comp(c, **k):
                c.events.append(("force", "compute"))
                return SArr(a.shape, a.elem, a.dtype, "numpy")
            return Stub(comp, "da.Array.compute")
        if name == "persist":
            def pers(c, **k):
                c.events.append(("force", "persist"))
                return SArr(a.shape, a.elem, a.dtype, "dask")
            return Stub(pers, "da.Array.persist")
        if name == "rechunk":
            return Stub(lambda c, *x, **k: SArr(a.shape, a.elem, a.dtype, "dask"), "da.Array.rechunk")
        if name == "map_blocks" and a.backend == "dask":
            mb = self.ext["dask.array"].attrs["map_blocks"] if hasattr(self.ext["dask.array"], "attrs") else None
            if mb is not None:
                return Stub(lambda c, func, *x, **k: mb.fn(c, func, a, *x, **k), "da.Array.map_blocks")
        if a.backend == "dask" and name == "chunks":
            # the chunk structure itself is opaque: one token per axis, usable only to be passed on (chunks=...)
            return tuple(OpaqueBlocks(i) for i in range(a.ndim))
        if a.backend == "dask" and name in ("numblocks", "chunksize", "blocks", "dask", "name", "npartitions", "map_overlap", "partitions"):
            raise Unsupported(f"dask.array.Array.{name}: the chunk structure is not part of the model")
        return None

    def np_reshape(self, ctx, a, shape):
        """reshape restricted to: identity, splitting one axis into two, merging two adjacent axes
        (C order); at most one -1.  Result shares memory with the argument (a view) -- conservative
        for the frame analysis (NumPy copies only when the input is not contiguous)."""
        ctx.note("stub:ndarray.reshape (split/merge of one axis, C order, view)")
        shape = tuple(shape)
        old = a.shape

        def same(x, y):
            if not is_sym(x) and not is_sym(y):
                return x == y
            return ctx.is_valid(V.eq(x, y))
        wild = [i for i, d in enumerate(shape) if not is_sym(d) and d == -1]
        if len(wild) > 1:
            raise PyExc("ValueError", "can only specify one unknown dimension")

        def matches(xs, ys, wildcard=False):
            return len(xs) == len(ys) and all((wildcard and not is_sym(y) and y == -1) or
                                              (not (not is_sym(y) and y == -1) and same(x, y)) for x, y in zip(xs, ys))
        if len(shape) == len(old) and matches(old, shape, wildcard=True):
            return SArr(old, a.elem, a.dtype, a.backend, owner=a.owner)
        if len(shape) == len(old) + 1:
            for j in range(len(old)):
                if matches(old[:j], shape[:j]) and matches(old[j + 1:], shape[j + 2:]):
                    A_, B_ = shape[j], shape[j + 1]
                    L = old[j]
                    if not is_sym(A_) and A_ == -1:
                        if ctx.branch(V.Or(V.le(B_, 0), V.ne(V.mod_int(ctx, L, B_) if not (not is_sym(B_) and B_ <= 0) else 1, 0)), "reshape size mismatch"):
                            raise PyExc("ValueError", "cannot reshape array")
                        A_ = V.simp(V.floordiv_int(ctx, L, B_))
                    elif not is_sym(B_) and B_ == -1:
                        if ctx.branch(V.Or(V.le(A_, 0), V.ne(V.mod_int(ctx, L, A_) if not (not is_sym(A_) and A_ <= 0) else 1, 0)), "reshape size mismatch"):
                            raise PyExc("ValueError", "cannot reshape array")
                        B_ = V.simp(V.floordiv_int(ctx, L, A_))
                    else:
                        if ctx.branch(V.ne(V.mul(A_, B_), L), "reshape size mismatch"):
                            raise PyExc("ValueError", "cannot reshape array")
                    new_shape = old[:j] + (A_, B_) + old[j + 1:]
                    return SArr(new_shape, lambda ix, j=j, B_=B_: a.elem(ix[:j] + (V.add(V.mul(ix[j], B_), ix[j + 1]),) + ix[j + 2:]),
                                a.dtype, a.backend, owner=a.owner)
        if len(shape) == len(old) - 1:
            for j in range(len(shape)):
                if matches(old[:j], shape[:j]) and matches(old[j + 2:], shape[j + 1:]):
                    P_ = V.simp(V.mul(old[j], old[j + 1]))
                    tgt = shape[j]
                    if not is_sym(tgt) and tgt == -1:
                        rest = A.shape_prod(old[:j] + old[j + 2:])
                        if ctx.branch(V.eq(rest, 0), "reshape -1 with an empty remainder"):
                            raise PyExc("ValueError", "cannot reshape array of size 0 into an ambiguous shape")
                    if not (not is_sym(tgt) and tgt == -1):
                        if ctx.branch(V.ne(tgt, P_), "reshape size mismatch"):
                            raise PyExc("ValueError", "cannot reshape array")
                    B_ = old[j + 1]
                    new_shape = old[:j] + (P_,) + old[j + 2:]

                    def elem(ix, j=j, B_=B_):
                        m = ix[j]
                        return a.elem(ix[:j] + (V.floordiv_int(ctx, m, B_), V.mod_int(ctx, m, B_)) + ix[j + 1:])
                    return SArr(new_shape, elem, a.dtype, a.backend, owner=a.owner)
        raise Unsupported(f"reshape {old} -> {shape}")

    def arr_getattr(self, a: SArr, name, ctx):
        if name == "shape":
            return a.shape
        if name == "ndim":
            return a.ndim
        if name == "dtype":
            return a.dtype
        if name == "size":
            return A.shape_prod(a.shape)
        if name == "real":
            return A.real_part(ctx, a)
        if name == "imag":
            return A.imag_part(ctx, a)
        if name == "T":
            return A.transpose(ctx, a)
        m = self.arr_method(a, name, ctx)
        if m is not None:
            return m
        raise PyExc("AttributeError", f"ndarray has no attribute {name}")

    # ================================================================== dask
    def _init_dask(self):
        da_arr = ExtType("dask.array.Array", lambda v: isinstance(v, SArr) and v.backend == "dask")
        self.types["da.Array"] = da_arr

        def asany(c, x, **k):
            c.note("stub:da.asanyarray")
            if isinstance(x, SArr):
                return x if x.backend == "dask" else SArr(x.shape, x.elem, x.dtype, "dask")
            raise Unsupported("da.asanyarray operand")
        def task_name_rule(c, op, k):
            """Dask identifies a task by its key: two collections with the same name in one graph are ONE computation.
            A name the code supplies itself must therefore be determined by the content it names (embed a
            dask.base.tokenize of it); names Dask derives (name=None, token=prefix) always are."""
            nm = k.pop("name", None)
            k.pop("token", None)
            if nm is not None:
                from .interp import FStr
                c.note("model: an explicit Dask task name must embed a token of the content (key collisions merge tasks)")
                c.oblige(f"dask.{op}.task-name-determined-by-content", bool(isinstance(nm, FStr) and nm.token), "safety",
                         {"name": str(nm), "why": "a fixed or parameter-only name collides for different data in one graph"})

        def from_delayed(c, value, shape=None, dtype=None, **k):
            task_name_rule(c, "from_delayed", k)
            c.note("stub:da.from_delayed(delayed f(*args)) denotes f(*args), evaluated lazily; declared shape/dtype are trusted by dask")
            if not isinstance(value, SArr):
                raise Unsupported("from_delayed of a non-array value")
            if shape is not None:
                ok = len(shape) == value.ndim and V.And(*[V.eq(a, b) for a, b in zip(shape, value.shape)])
                c.oblige("dask.from_delayed.declared-shape", ok if not isinstance(ok, bool) or ok else False, "safety")
            if dtype is not None:
                c.oblige("dask.from_delayed.declared-dtype", self.to_dtype(dtype) == value.dtype, "safety")
            return SArr(value.shape, value.elem, value.dtype, "dask")

        def delayed(c, f, pure=None, **k):
            task_name_rule(c, "delayed", k)
            c.note("stub:dask.delayed(f)(*args) = f(*args) (pure task)")
            return Stub(lambda c2, *a, **kw: self.interp.call(f, a, kw, c2), "delayed-call")
        def map_blocks(c, func, x, *a, **kw):
            c.note("stub:da.map_blocks(f, x) = f applied block-wise, equal to f(x) for element-wise / un-chunked-axis f; lazy")
            if not isinstance(x, SArr) or x.backend != "dask":
                raise Unsupported("map_blocks operand")
            task_name_rule(c, "map_blocks", kw)
            for k in ("dtype", "chunks", "drop_axis", "new_axis", "meta"):
                kw.pop(k, None)
            r = self.interp.call(func, (SArr(x.shape, x.elem, x.dtype, "numpy"),) + tuple(a), kw, c)
            if not isinstance(r, SArr):
                raise Unsupported("map_blocks result")
            return SArr(r.shape, r.elem, r.dtype, "dask")
        da = NS("dask.array", {
            "Array": da_arr,
            "map_blocks": Stub(map_blocks, "da.map_blocks"),
            "from_delayed": Stub(from_delayed, "da.from_delayed"),
            "asanyarray": Stub(asany, "da.asanyarray"),
            "asarray": Stub(asany, "da.asarray"),
            "arange": Stub(lambda c, *a, chunks=None, dtype=None: self.np_arange(c, a, dtype, "dask"), "da.arange"),
            "fft": NS("dask.array.fft", {}),
        })
        self.ext["dask.array"] = da
        from .interp import FStr
        base = NS("dask.base", {"tokenize": Stub(lambda c, *a, **k: FStr("<token>", True), "dask.base.tokenize")})
        self.ext["dask.base"] = base
        self.ext["dask"] = NS("dask", {"array": da, "delayed": Stub(delayed, "dask.delayed"), "base": base})

    def instantiate_hook(self, ci, ext_bases):
        if any("SpecificTypeQuantity" in str(b) or str(b).endswith("Quantity") for b in ext_bases):
            def make(ctx, ci, args, kwargs):
                from .interp import Env
                cls, a = ci.find_attr("_default_unit")
                unit = self.interp.eval(a, Env(cls.module, None, cls), ctx) if a is not None else Unit(1, {})
                if len(args) >= 2:
                    unit = args[1]
                elif "unit" in kwargs:
                    unit = kwargs["unit"]
                val = args[0]
                if isinstance(val, Qty):
                    q = self.q_to(ctx, val, unit)
                    return Qty(q.val, q.dim, unit, ci)
                q = self.q_from_value(ctx, val, unit)
                q.cls = ci
                return q
            return make
        return None

    def isinstance_repo(self, v, ci):
        return isinstance(v, Qty) and v.cls is not None and v.cls.is_subclass(ci)

    # ================================================================== dispatch overrides
    def value_getattr(self, v, name, ctx):
        if isinstance(v, SArr):
            return self.arr_getattr(v, name, ctx)
        if isinstance(v, Qty):
            return self.qty_getattr(v, name, ctx)
        if isinstance(v, STime):
            return self.time_getattr(v, name, ctx)
        if isinstance(v, DType):
            if name == "kind":
                return v.kind
            if name == "name":
                return v.name
            if name == "itemsize":
                return v.itemsize
            if name == "fields":
                return None
            if name == "newbyteorder":
                ctx.note("model: dtype tags carry no byte order (non-native byte order is covered by the bounded layer only)")
                return Stub(lambda c, order="S": v, "dtype.newbyteorder")
            raise PyExc("AttributeError", name)
        if isinstance(v, ExtType):
            at = getattr(v, "attrs", None)
            if at and name in at:
                return at[name]
            if name == "__name__":
                return v.name
            raise PyExc("AttributeError", name)
        if isinstance(v, Unit):
            if name == "to":
                raise Unsupported("Unit.to")
            raise PyExc("AttributeError", name)
        return super().value_getattr(v, name, ctx)

    def len_hook(self, v, ctx):
        if isinstance(v, STime):
            if v.is_scalar:
                raise PyExc("TypeError", "Scalar Time has no len()")
            return v.sec.shape[0]
        return NotImplemented

    def type_hook(self, v, ctx):
        if isinstance(v, SArr):
            return self.types["ndarray"] if v.backend == "numpy" else self.types["da.Array"]
        if isinstance(v, Qty):
            return ClassRef(v.cls) if v.cls is not None else self.types["Quantity"]
        if isinstance(v, STime):
            return self.types["Time"]
        return None

    def truthy(self, v, ctx):
        if isinstance(v, SArr):
            if v.ndim == 0:
                if v.backend == "dask":
                    ctx.events.append(("force", "bool(dask)"))
                return self.interp.truthy_sym(v.elem(()), ctx)
            raise PyExc("ValueError", "The truth value of an array with more than one element is ambiguous")
        if isinstance(v, Qty):
            if isinstance(v.val, SArr):
                return self.truthy(v.val, ctx)
            return self.interp.truthy_sym(v.val, ctx)
        return NotImplemented

    def int_hook(self, v, ctx):
        if isinstance(v, SArr) and v.ndim == 0:
            if v.backend == "dask":
                ctx.events.append(("force", "int(dask)"))
            return self.b_int(ctx, v.elem(()))
        if isinstance(v, Qty) and v.dim == () and (not isinstance(v.val, SArr) or v.val.ndim == 0):
            return self.b_int(ctx, v.val if not isinstance(v.val, SArr) else v.val.elem(()))
        if isinstance(v, Qty):
            raise PyExc("TypeError", "only dimensionless scalar quantities can be converted to Python scalars")
        return NotImplemented

    def float_hook(self, v, ctx):
        if isinstance(v, SArr) and v.ndim == 0:
            if v.backend == "dask":
                ctx.events.append(("force", "float(dask)"))
            return v.elem(())
        if isinstance(v, Qty) and v.dim == () and not isinstance(v.val, SArr):
            return v.val
        if isinstance(v, Qty):
            raise PyExc("TypeError", "only dimensionless scalar quantities can be converted to Python scalars")
        return NotImplemented

    def index_hook(self, v, ctx):
        if isinstance(v, SArr) and v.ndim == 0 and v.dtype.kind in "iu":
            return v.elem(())
        return NotImplemented

    def abs_hook(self, v, ctx):
        if isinstance(v, Qty):
            return Qty(self.b_abs(ctx, v.val), v.dim, v.unit)
        if isinstance(v, SArr):
            return A.elementwise(ctx, lambda x: V.Ite(V.le(0, x), x, V.neg(x)), [v], v.dtype)
        return super().abs_hook(v, ctx)

    def iterate_sym(self, v, ctx):
        from .values import SSeq
        if isinstance(v, SSeq):
            return v
        if isinstance(v, SArr) and v.ndim >= 1 and is_sym(v.shape[0]):
            if v.backend == "dask":
                ctx.events.append(("force", "iteration over a dask array"))
            return SSeq(v.shape[0], (lambda i: A.getitem(ctx, v, i)) if v.ndim > 1 else (lambda i: v.elem((i,))))
        if isinstance(v, Qty) and isinstance(v.val, SArr) and v.val.ndim >= 1 and is_sym(v.val.shape[0]):
            inner = self.iterate_sym(v.val, ctx)
            return SSeq(inner.n, lambda i: Qty(inner.item(i), v.dim, v.unit))
        return None

    def iterate(self, v, ctx):
        from .values import SSeq
        if isinstance(v, SSeq):
            raise Unsupported("sequential iteration over a sequence of symbolic length (needs a loop contract)")
        if isinstance(v, STime) and not v.is_scalar:
            n = v.sec.shape[0]
            if is_sym(n) or v.sec.ndim != 1:
                raise Unsupported("iteration over a Time array of symbolic length")
            return [STime(v.sec.elem((k,)), v.fmt, v.precision) for k in range(n)]
        if isinstance(v, SArr):
            if v.ndim == 0:
                raise PyExc("TypeError", "iteration over a 0-d array")
            n = v.shape[0]
            if is_sym(n):
                raise Unsupported("iteration over an array of symbolic length")
            return [A.getitem(ctx, v, k) if v.ndim > 1 else v.elem((k,)) for k in range(n)]
        if isinstance(v, Qty) and isinstance(v.val, SArr):
            return [Qty(x, v.dim, v.unit) for x in self.iterate(v.val, ctx)]
        return NotImplemented

    def getitem(self, base, idx, ctx):
        if isinstance(base, SArr):
            ctx.note("stub:ndarray basic indexing (views)")
            r = A.getitem(ctx, base, idx)
            if r.ndim == 0 and not self._has_slice(idx):
                return r.elem(())
            return r
        if isinstance(base, Qty):
            if not isinstance(base.val, SArr):
                if idx is None or (isinstance(idx, tuple) and all(i is None for i in idx)):
                    n = 1 if idx is None else len(idx)
                    return Qty(SArr((1,) * n, lambda ix: base.val, DType("float64")), base.dim, base.unit)
                raise PyExc("TypeError", "scalar Quantity is not subscriptable")
            r = self.getitem(base.val, idx, ctx)
            return Qty(r, base.dim, base.unit)
        if isinstance(base, STime) and not base.is_scalar:
            r = self.getitem(base.sec, idx, ctx)
            return STime(r, base.fmt, base.precision)
        if isinstance(base, NS) and getattr(base, "is_index_exp", False):
            return idx
        if isinstance(base, Obj):
            cls, m = base.cls.find_method("__getitem__")
            if m is not None:
                return self.interp.call(self.interp.get_attr(base, "__getitem__", ctx), (idx,), {}, ctx)
        return super().getitem(base, idx, ctx)

    def _has_slice(self, idx):
        items = idx if isinstance(idx, tuple) else (idx,)
        return any(isinstance(i, SSlice) or i is None for i in items)

    def frame_write_arr(self, arr: SArr, what, ctx):
        roots = [r for r in arr.owner if not r.startswith("fresh:") and r not in ctx.sanctioned]
        ctx.writes.append((what, sorted(arr.owner)))
        # every in-place array write is an obligation: its target must be memory allocated in this call
        # (or the explicitly sanctioned out= target)
        ctx.oblige(f"frame.array-write[{what}]", not roots, "frame",
                   {"what": f"in-place write to memory owned by {roots}" if roots else "target allocated in this call"})
        others = arr.owner - {f"fresh:{arr.id}"}
        ctx.dirty_roots |= set(others)

    def setitem(self, base, idx, val, ctx):
        if isinstance(base, SArr):
            self.frame_write_arr(base, "setitem", ctx)
            if isinstance(val, Qty):
                raise PyExc("TypeError", "cannot assign a Quantity to an ndarray element")
            A.setitem(ctx, base, idx, val)
            return True
        return super().setitem(base, idx, val, ctx)

    def inplace(self, cur, op, rhs, ctx):
        target = cur.val if isinstance(cur, Qty) else cur
        if isinstance(target, SArr):
            ctx.note("stub:ndarray/Quantity augmented assignment mutates in place")
            self.frame_write_arr(target, f"augassign {type(op).__name__}", ctx)
            # operate on a snapshot of the current contents (the element function is replaced below)
            frozen = SArr(target.shape, target.elem, target.dtype, target.backend)
            if rhs is target or (isinstance(rhs, Qty) and rhs.val is target):
                rhs = frozen if rhs is target else Qty(frozen, rhs.dim, rhs.unit, rhs.cls)      # x op= x reads the old contents
            new = self.binop(op, Qty(frozen, cur.dim, cur.unit, cur.cls) if isinstance(cur, Qty) else frozen, rhs, ctx)
            newv = new.val if isinstance(new, Qty) else new
            if not isinstance(newv, SArr):
                raise Unsupported("in-place op result")
            # numpy refuses in-place ops whose result cannot be cast back with same_kind
            order = {"b": 0, "u": 1, "i": 1, "f": 2, "c": 3}
            if order[newv.dtype.kind] > order[target.dtype.kind]:
                raise PyExc("TypeError", "Cannot cast ufunc output with casting rule 'same_kind'")
            if tuple(map(str, newv.shape)) != tuple(map(str, target.shape)) and newv.ndim != target.ndim:
                raise PyExc("ValueError", "non-broadcastable output operand")
            target.elem = newv.elem
            target.written = True
            return True
        if isinstance(cur, Qty):
            # a scalar Quantity is an ndarray subclass too: q *= 2, q <<= unit change the *object* q, which every
            # holder of that object sees (the caller's argument, a signal that stored it, signals made from it)
            ctx.note("stub:scalar Quantity augmented assignment mutates the Quantity object in place")
            if id(cur) in getattr(ctx, "frozen_qty", {}) and f"qty:{id(cur)}" not in ctx.sanctioned:
                ctx.oblige(f"frame.quantity-write[augassign {type(op).__name__}]", False, "frame", {"target": ctx.frozen_qty[id(cur)]})
            if isinstance(op, ast.LShift):
                if not isinstance(rhs, Unit):
                    raise Unsupported("<<= on a Quantity with a non-unit operand")
                new = self.q_to(ctx, cur, rhs)
            else:
                new = self.binop(op, Qty(cur.val, cur.dim, cur.unit, cur.cls), rhs, ctx)
            if not isinstance(new, Qty):
                new = Qty(new, ())
            if new.dim != cur.dim and not isinstance(op, ast.LShift):
                raise PyExc("UnitTypeError", "in-place operation would change the unit's dimension")
            cur.val, cur.dim, cur.unit = new.val, new.dim, new.unit if isinstance(op, ast.LShift) else cur.unit
            return True
        return super().inplace(cur, op, rhs, ctx)

    # -- arithmetic ------------------------------------------------------------------
    def unop(self, op, v, ctx):
        if isinstance(v, SArr):
            if isinstance(op, ast.USub):
                return A.elementwise(ctx, lambda x: self._neg(x), [v], v.dtype)
            if isinstance(op, ast.Invert) and v.dtype.kind == "b":
                return A.elementwise(ctx, V.Not, [v], v.dtype)
            if isinstance(op, ast.UAdd):
                return A.copy(ctx, v)
        if isinstance(v, Qty):
            r = self.unop(op, v.val, ctx)
            if r is NotImplemented:
                r = self.interp.unop(op, v.val, ctx) if not isinstance(v.val, SArr) else NotImplemented
            return Qty(r, v.dim, v.unit)
        return super().unop(op, v, ctx)

    def _neg(self, x):
        if isinstance(x, Cx):
            return Cx(V.neg(x.re), V.neg(x.im))
        return V.neg(x)

    def scalar_binop(self, op, ctx, np_semantics=False):
        def f(x, y):
            if isinstance(x, Cx) or isinstance(y, Cx):
                r = StubsBase.cx_binop(self, op, x, y, ctx)
            elif np_semantics and isinstance(op, ast.Div):
                return V.div(ctx, x, y)          # numpy: no ZeroDivisionError (inf/nan), guarded definition
            elif np_semantics and isinstance(op, ast.Pow) and isinstance(y, int) and not isinstance(y, bool) and y < 0:
                p_ = 1
                for _ in range(-y):
                    p_ = V.mul(p_, x)
                return V.div(ctx, 1, p_)         # x ** -n = 1 / x**n with numpy semantics (no exception)
            else:
                bx = isinstance(x, bool) or (is_sym(x) and z3.is_bool(x))
                by = isinstance(y, bool) or (is_sym(y) and z3.is_bool(y))
                if bx or by:
                    r = StubsBase.binop(self, op, x, y, ctx)
                else:
                    r = StubsBase.num_binop(self, op, x, y, ctx)
            if r is NotImplemented:
                raise Unsupported(f"elementwise {type(op).__name__}")
            return r
        return f

    def binop(self, op, a, b, ctx):
        # ---- units
        if isinstance(a, Unit) or isinstance(b, Unit):
            return self.unit_binop(op, a, b, ctx)
        # ---- Time
        if isinstance(a, STime) or isinstance(b, STime):
            return self.time_binop(op, a, b, ctx)
        # ---- Quantity
        if isinstance(a, Qty) or isinstance(b, Qty):
            return self.qty_binop(op, a, b, ctx)
        # ---- arrays
        if isinstance(a, SArr) or isinstance(b, SArr):
            if isinstance(a, Obj) or isinstance(b, Obj):
                return self.obj_binop(op, a, b, ctx)
            okA = isinstance(a, SArr) or V.is_num(a) or isinstance(a, (Cx, bool)) or (is_sym(a) and z3.is_bool(a))
            okB = isinstance(b, SArr) or V.is_num(b) or isinstance(b, (Cx, bool)) or (is_sym(b) and z3.is_bool(b))
            if not (okA and okB):
                return NotImplemented
            return self.arr_binop(op, a, b, ctx)
        if isinstance(a, Obj) or isinstance(b, Obj):
            return self.obj_binop(op, a, b, ctx)
        return super().binop(op, a, b, ctx)

    def obj_binop(self, op, a, b, ctx):
        return NotImplemented

    def arr_binop(self, op, a, b, ctx):
        force_float = isinstance(op, ast.Div)
        if isinstance(op, (ast.BitAnd, ast.BitOr, ast.BitXor)):
            dt = DType("bool")
        else:
            dt = A.promote([a, b], force_float)
        if isinstance(op, ast.Pow) and not isinstance(b, int):
            raise Unsupported("array ** non-constant")
        return A.elementwise(ctx, self.scalar_binop(op, ctx, np_semantics=True), [a, b], dt)

    def unit_binop(self, op, a, b, ctx):
        one = Unit(1, {})
        if isinstance(a, Unit) and isinstance(b, Unit):
            if isinstance(op, ast.Mult):
                return Unit(a.scale * b.scale, V.dim_mul(a.dim, b.dim), a.pik + b.pik)
            if isinstance(op, ast.Div):
                return Unit(a.scale / b.scale, V.dim_mul(a.dim, b.dim, -1), a.pik - b.pik)
        if isinstance(a, Unit) and isinstance(op, ast.Pow):
            if isinstance(b, int):
                return Unit(a.scale ** b, V.dim_pow(a.dim, b), a.pik * b)
            raise Unsupported("unit ** symbolic")
        if isinstance(a, Unit) and isinstance(b, (int, Fraction)) and not isinstance(b, bool):
            # astropy: unit / number and unit * number give a scaled *unit* when the unit is on the left of '/'
            if isinstance(op, ast.Div):
                return Unit(a.scale / Fraction(b), a.dim, a.pik)
            if isinstance(op, ast.Mult):
                return self.q_from_value(ctx, b, a)
        if isinstance(b, Unit) and (V.is_num(a) or isinstance(a, (SArr, Cx))):
            if isinstance(op, ast.Mult):
                return self.q_from_value(ctx, a, b)
            if isinstance(op, ast.Div):
                return self.q_from_value(ctx, a, Unit(1 / b.scale, V.dim_pow(b.dim, -1), -b.pik))
        if isinstance(a, Unit) and (is_sym(a) is False) and (V.is_num(b) or isinstance(b, SArr)) and isinstance(op, ast.Mult):
            return self.q_from_value(ctx, b, a)
        if isinstance(a, Qty) and isinstance(b, Unit):
            if isinstance(op, ast.Mult):
                return Qty(self.apply_unit(ctx, a.val, b), V.dim_mul(a.dim, b.dim),
                           self._unit_mul(a.unit or Unit(1, a.dim), b))
            if isinstance(op, ast.Div):
                return Qty(self.apply_unit(ctx, a.val, b, divide=True), V.dim_mul(a.dim, b.dim, -1),
                           self._unit_mul(a.unit or Unit(1, a.dim), b, -1))
        if isinstance(a, Unit) and isinstance(b, Qty):
            if isinstance(op, ast.Mult):
                return self.unit_binop(op, b, a, ctx)
        if isinstance(b, Unit) and isinstance(a, (list, tuple)) and isinstance(op, (ast.Mult, ast.Div)):
            # a sequence of numbers times a unit is the Quantity of the array of those numbers
            return self.unit_binop(op, self.np_array(ctx, list(a)), b, ctx)
        raise Unsupported(f"unit arithmetic {type(op).__name__} {type(a).__name__} {type(b).__name__}")

    def _unit_mul(self, u1, u2, sign=1):
        if sign == 1:
            return Unit(u1.scale * u2.scale, V.dim_mul(u1.dim, u2.dim), u1.pik + u2.pik)
        return Unit(u1.scale / u2.scale, V.dim_mul(u1.dim, u2.dim, -1), u1.pik - u2.pik)

    def time_binop(self, op, a, b, ctx):
        ctx.note("model-E:Time arithmetic exact")
        if isinstance(a, STime) and isinstance(b, STime):
            if isinstance(op, ast.Sub):
                return Qty(self._vsub(ctx, a.sec, b.sec), TIME_DIM, self.units["s"])
            raise PyExc("TypeError", "unsupported operand for Time and Time")
        if isinstance(a, STime):
            if isinstance(b, Qty):
                if b.dim != TIME_DIM:
                    raise PyExc("UnitConversionError", "Time +/- Quantity needs time units")
                if isinstance(op, ast.Add):
                    return STime(self._vadd(ctx, a.sec, b.val), a.fmt, a.precision)
                if isinstance(op, ast.Sub):
                    return STime(self._vsub(ctx, a.sec, b.val), a.fmt, a.precision)
            raise PyExc("TypeError", "unsupported operand for Time")
        if isinstance(b, STime) and isinstance(a, Qty) and isinstance(op, ast.Add):
            return self.time_binop(op, b, a, ctx)
        raise PyExc("TypeError", "unsupported operand for Time")

    def _vadd(self, ctx, x, y):
        if isinstance(x, SArr) or isinstance(y, SArr):
            return A.elementwise(ctx, V.add, [x, y], DType("float64"))
        return V.simp(V.add(x, y))

    def _vsub(self, ctx, x, y):
        if isinstance(x, SArr) or isinstance(y, SArr):
            return A.elementwise(ctx, V.sub, [x, y], DType("float64"))
        return V.simp(V.sub(x, y))

    def qty_binop(self, op, a, b, ctx):
        ctx.note("model-E:Quantity unit algebra exact")
        if isinstance(a, Obj) or isinstance(b, Obj):
            return self.obj_binop(op, a, b, ctx)
        okA = isinstance(a, (Qty, SArr, Cx)) or V.is_num(a)
        okB = isinstance(b, (Qty, SArr, Cx)) or V.is_num(b)
        if not (okA and okB):
            return NotImplemented
        qa, qb = self.as_qty(a), self.as_qty(b)

        def vop(x, y, o=op):
            if isinstance(x, SArr) or isinstance(y, SArr):
                return self.arr_binop(o, x, y, ctx)
            f = self.scalar_binop(o, ctx, np_semantics=True)
            return V.simp(f(x, y)) if not isinstance(f(x, y), Cx) else f(x, y)
        if isinstance(op, (ast.Add, ast.Sub)):
            if qa.dim != qb.dim:
                # astropy allows adding a plain zero? no: only comparisons special-case 0
                raise PyExc("UnitConversionError", "Can only apply 'add' function to quantities with compatible dimensions")
            cls = qa.cls if isinstance(a, Qty) else None
            return Qty(vop(qa.val, qb.val), qa.dim, (qa.unit if isinstance(a, Qty) else qb.unit), None)
        if isinstance(op, ast.Mult):
            return Qty(vop(qa.val, qb.val), V.dim_mul(qa.dim, qb.dim), self._res_unit(qa, qb, 1))
        if isinstance(op, ast.Div):
            return Qty(vop(qa.val, qb.val), V.dim_mul(qa.dim, qb.dim, -1), self._res_unit(qa, qb, -1))
        if isinstance(op, ast.Pow):
            if isinstance(b, int):
                r = vop(qa.val, b)
                u0 = qa.unit or Unit(1, qa.dim)
                return Qty(r, V.dim_pow(qa.dim, b), Unit(u0.scale ** b, V.dim_pow(u0.dim, b), u0.pik * b))
            raise Unsupported("Quantity ** non-int")
        raise Unsupported(f"Quantity op {type(op).__name__}")

    def _res_unit(self, qa, qb, sign):
        ua = qa.unit or Unit(1, qa.dim)
        ub = qb.unit or Unit(1, qb.dim)
        return self._unit_mul(ua, ub, sign)

    # -- comparisons -----------------------------------------------------------------
    def compare(self, op, a, b, ctx):
        if isinstance(a, STime) or isinstance(b, STime):
            if isinstance(a, STime) and isinstance(b, STime):
                return self._cmp_vals(op, a.sec, b.sec, ctx)
            if isinstance(op, ast.Eq):
                return False
            if isinstance(op, ast.NotEq):
                return True
            raise PyExc("TypeError", "cannot compare Time with a non-Time")
        if isinstance(a, Qty) or isinstance(b, Qty):
            if isinstance(a, Obj) or isinstance(b, Obj):
                return NotImplemented
            okA = isinstance(a, (Qty, SArr)) or V.is_num(a)
            okB = isinstance(b, (Qty, SArr)) or V.is_num(b)
            if not (okA and okB):
                if isinstance(op, ast.Eq):
                    return False
                if isinstance(op, ast.NotEq):
                    return True
                raise PyExc("TypeError", "unsupported comparison with Quantity")
            qa, qb = self.as_qty(a), self.as_qty(b)
            if qa.dim != qb.dim:
                # astropy special-cases comparison with a bare 0 (any unit), inf and nan
                zero_a = not isinstance(a, Qty) and not is_sym(a) and V.is_num(a) and a == 0
                zero_b = not isinstance(b, Qty) and not is_sym(b) and V.is_num(b) and b == 0
                if not (zero_a or zero_b):
                    if isinstance(op, ast.Eq):
                        return False
                    if isinstance(op, ast.NotEq):
                        return True
                    raise PyExc("UnitConversionError", "Can only compare quantities with compatible dimensions")
            return self._cmp_vals(op, qa.val, qb.val, ctx)
        if isinstance(a, SArr) or isinstance(b, SArr):
            if isinstance(a, Obj) or isinstance(b, Obj):
                return NotImplemented
            return self._cmp_vals(op, a, b, ctx)
        return super().compare(op, a, b, ctx)

    def _cmp_vals(self, op, x, y, ctx):
        if isinstance(x, SArr) or isinstance(y, SArr):
            if not all(isinstance(v, SArr) or V.is_num(v) or isinstance(v, (Cx, bool)) for v in (x, y)):
                raise Unsupported("array comparison operand")
            return A.elementwise(ctx, lambda p, q: self._scalar_cmp(op, p, q), [x, y], DType("bool"))
        return V.simp(self._scalar_cmp(op, x, y))

    def _scalar_cmp(self, op, p, q):
        if isinstance(p, Cx) or isinstance(q, Cx):
            if isinstance(op, ast.Eq):
                return V.ceq(p, q)
            if isinstance(op, ast.NotEq):
                return V.Not(V.ceq(p, q))
            raise Unsupported("ordering of complex values")
        bp = isinstance(p, bool) or (is_sym(p) and z3.is_bool(p))
        bq = isinstance(q, bool) or (is_sym(q) and z3.is_bool(q))
        if bp and bq and isinstance(op, (ast.Eq, ast.NotEq)):
            r = V.Z(p) == V.Z(q)
            return r if isinstance(op, ast.Eq) else z3.Not(r)
        if bp:
            p = V.Ite(p, 1, 0)
        if bq:
            q = V.Ite(q, 1, 0)
        return self.num_compare(op, p, q)

    def contains(self, container, x, ctx):
        if isinstance(container, Obj):
            cls, m = container.cls.find_method("__contains__")
            if m is not None:
                r = self.interp.call(self.interp.get_attr(container, "__contains__", ctx), (x,), {}, ctx)
                return self.interp.truthy_sym(r, ctx)
        return NotImplemented


def _raise(kind, msg=""):
    raise PyExc(kind, msg)
