"""Contracts as spec functions over the value model, path exploration, and the comparison of
what the real body does with what the contract prescribes (DESIGN 2.4).

A contract for function f is a Python function `spec(c, *args, **kwargs)` that either returns
the value the property prescribes (built with the array algebra / abstract signals) or raises
PyExc(kind) for the prescribed error, forking with c.branch() on symbolic conditions.
Verifying f: for each instance, run the real body and then the spec on identical symbolic
inputs; each joint path yields obligations `post.*` (results equal component-wise),
`raises.*` (same exception kind), `frame.*`.  At call sites of f elsewhere only the spec is
used (modular)."""
from __future__ import annotations
import time
import traceback
import z3
from . import values as V
from . import arrays as A
from .values import SArr, Qty, STime, Obj, PyExc, Cx, DType, SSlice, is_sym
from .ctx import PathCtx, Unsupported, Infeasible
from .interp import ClassRef, NOTIMPL, FuncVal


class ASig:
    """Abstract signal prescribed by a spec: class + constructor-level attributes."""
    FIELDS = ("sample_rate", "start_time", "center_freq", "chan_bw", "freq_align", "pol_type", "meta")

    def __init__(self, cls, data, **attrs):
        self.cls = cls          # ClassInfo
        self.data = data
        self.attrs = attrs

    def __repr__(self):
        return f"ASig({self.cls.name}, {self.data}, {list(self.attrs)})"


class PathResult:
    def __init__(self, status, ctx, detail=None):
        self.status, self.ctx, self.detail = status, ctx, detail


def explore(run, max_paths=3000, time_budget_s=600):
    """Enumerate paths of run(ctx) by re-execution with decision prefixes."""
    work = [[]]
    results = []
    t0 = time.time()
    while work:
        if len(results) >= max_paths or time.time() - t0 > time_budget_s:
            results.append(PathResult("unsupported", PathCtx(), "path budget exhausted"))
            break
        dec = work.pop()
        ctx = PathCtx(dec)
        try:
            run(ctx)
            status, detail = "ok", None
        except Infeasible as e:
            status, detail = "infeasible", str(e)
        except Unsupported as e:
            status, detail = "unsupported", str(e)
        work.extend(ctx.new_forks)
        results.append(PathResult(status, ctx, detail))
    return results


class Outcome:
    def __init__(self, kind, value=None, exc=None):
        self.kind, self.value, self.exc = kind, value, exc    # kind: 'return' | 'raise'

    def __repr__(self):
        return f"Outcome({self.kind}, {self.exc.kind if self.exc else self.value})"


def run_outcome(fn):
    try:
        return Outcome("return", fn())
    except PyExc as e:
        return Outcome("raise", exc=e)


class Contract:
    def __init__(self, qualname, spec, instances=None, props=(), allow_exc_subclass=True, doc="", body=None):
        self.qualname = qualname
        self.body = body                     # optional custom body runner (constructors)
        self.spec = spec
        self.instances = instances or []     # list of Instance
        self.props = props if isinstance(props, dict) else tuple(props)
        self.doc = doc
        self.compare = None                  # optional custom comparison
        self.theorems = None                 # optional property-level theorems stated on the real result
        self.pre = None                      # optional precondition: pre(c, *args, **kwargs) calling c.requires(...)

    def apply(self, interp, ctx, args, kwargs):
        """Modular use at a call site: the callee is represented by its spec only."""
        ctx.note(f"contract:{self.qualname}")
        c = SpecCtx(interp, ctx, self)
        if self.pre is not None:
            self.pre(c, *args, **kwargs)
        try:
            r = self.spec(c, *args, **kwargs)
        except PyExc as e:
            if isinstance(e.kind, tuple):
                raise PyExc(e.kind[0], e.msg)
            raise
        return realize(interp, ctx, r)


class Instance:
    """One structural configuration (class, ranks, dtype tags, which optionals are present)
    of the symbolic inputs of a function; all numeric content stays symbolic."""

    def __init__(self, label, build):
        self.label = label
        self.build = build      # build(interp, ctx) -> (args, kwargs)


class SpecCtx:
    """What a spec function sees: branching, raising, access to the interpreter for calling
    other contracts / reading public attributes of real objects."""

    def __init__(self, interp, ctx, contract=None, mode="call"):
        self.interp, self.ctx, self.contract, self.mode = interp, ctx, contract, mode

    def branch(self, cond, label="spec"):
        return self.ctx.branch(cond, "spec:" + label)

    def raise_if(self, cond, kind, label=None):
        if self.ctx.branch(cond, f"spec:raise {kind} {label or ''}"):
            raise PyExc(kind, label or "")

    def attr(self, obj, name):
        return self.interp.get_attr(obj, name, self.ctx)

    def tag(self, label):
        """Name the case of the statement this path is in: obligations emitted from here on carry
        `[label]`, so that a known finding can be pinned to exactly that case and nothing else."""
        if self.mode == "verify":
            self.ctx.oblig_tag = label

    def requires(self, cond, what="precondition"):
        """Precondition: assumed while verifying the function itself, an obligation at call sites."""
        if self.mode == "verify":
            self.ctx.assume(cond, why=f"requires:{what}")
        else:
            self.ctx.oblige(f"callee-pre[{self.contract.qualname if self.contract else ''}].{what}", cond, "pre")

    def forall_int(self, tag, lo, hi, fn, cap=48):
        """Universally quantified integer lo <= k < hi: a scoped skolem constant in symbolic mode,
        enumeration (capped, ends always included) in concrete mode."""
        ctx = self.ctx
        if not is_sym(lo) and not is_sym(hi) and getattr(ctx, "enumerate_quantifiers", False):
            ks = list(range(int(lo), int(hi)))
            if len(ks) > cap:
                ks = ks[:cap // 2] + ks[-cap // 2:]
            for k in ks:
                fn(k)
            return
        with ctx.scope():
            k = ctx.fresh(tag, "int")
            ctx.assume(z3.And(V.Z(lo) <= k, k < V.Z(hi)), why=f"skolem-{tag}")
            fn(k)

    def fresh(self, prefix, sort="real"):
        return self.ctx.fresh(prefix, sort)

    def assume(self, f, why="spec-assume"):
        self.ctx.assume(f, why)

    def call(self, qualname, *args, **kwargs):
        """Call another function through its contract (or inline when it has none)."""
        fv = self.interp.funcval_for(qualname)
        return self.interp.call_function(fv, args, kwargs, self.ctx)

    def view(self, obj):
        return sig_view(self.interp, self.ctx, obj)


# --------------------------------------------------------------------------- abstract view of signals

class SigView:
    """Public attributes of a signal object, read lazily through the real getters (or from the
    ghost record for inputs built by the harness)."""
    _PUB = {"data": "data", "sr": "sample_rate", "t0": "start_time", "meta": "meta", "cf": "center_freq",
            "bw": "chan_bw", "align": "freq_align", "pol": "pol_type"}

    def __init__(self, interp, ctx, obj):
        self.obj = obj
        self.cls = obj.cls
        self._interp, self._ctx = interp, ctx
        g = getattr(obj, "ghost", None)
        if g is not None:
            self.__dict__.update(g)

    def __getattr__(self, name):
        if name.startswith("_"):
            raise AttributeError(name)
        d = self.__dict__
        if name == "align" and "align_arg" in d:
            # effective alignment per the property statement: forced to 'center' for odd nchan
            n = self.data.shape[1]
            odd = self._ctx.branch(V.eq(V.mod_int(self._ctx, n, 2), 1), "spec:nchan odd")
            v = "center" if odd else d["align_arg"]
        elif name in self._PUB:
            v = self._interp.get_attr(self.obj, self._PUB[name], self._ctx)
        elif name == "N":
            v = self.data.shape[0]
        elif name == "shape":
            v = self.data.shape
        else:
            raise AttributeError(name)
        d[name] = v
        return v

    def is_a(self, name):
        return any(c.name == name for c in self.cls.mro())

    @property
    def nchan(self):
        return self.data.shape[1]

    def attrs(self):
        d = {"sample_rate": self.sr, "start_time": self.t0, "meta": self.meta}
        if self.is_a("RadioSignal"):
            d.update(center_freq=self.cf, chan_bw=self.bw, freq_align=self.align)
        if self.is_a("DualPolarizationSignal"):
            d["pol_type"] = self.pol
        return d


def sig_view(interp, ctx, obj):
    return SigView(interp, ctx, obj)


def realize(interp, ctx, v):
    """Turn an abstract spec value into interpreter values (ASig -> object built by the real
    constructor of its class, so that callers see real fields)."""
    if isinstance(v, ASig):
        kw = dict(v.attrs)
        cls = v.cls
        # constructor parameters from the AST
        c, init = cls.find_method("__init__")
        names = [a.arg for a in init.args.kwonlyargs]
        kw = {k: x for k, x in kw.items() if k in names}
        obj = interp.instantiate(cls, (v.data,), kw, ctx)
        return obj
    if hasattr(v, "realize"):
        return v.realize(interp, ctx)
    if isinstance(v, tuple):
        return tuple(realize(interp, ctx, x) for x in v)
    if isinstance(v, list):
        return [realize(interp, ctx, x) for x in v]
    return v


# --------------------------------------------------------------------------- comparison -> obligations

def compare_values(interp, ctx, name, got, want, depth=0):
    """Emit obligations stating that `got` (from the real body) equals `want` (from the spec)."""
    if isinstance(want, ASig):
        if not isinstance(got, Obj):
            ctx.oblige(f"{name}.is-signal", False, "post", {"got": repr(got)})
            return
        ctx.oblige(f"{name}.type", got.cls is want.cls, "post", {"got": got.cls.name, "want": want.cls.name})
        if got.cls is not want.cls:
            return
        gv = SigView(interp, ctx, got)
        compare_values(interp, ctx, f"{name}.data", gv.data, want.data, depth + 1)
        ga = gv.attrs()
        wa = dict(want.attrs)
        if "center_freq" in wa and "freq_align" in wa and "chan_bw" in wa and all(k in ga for k in ("center_freq", "freq_align", "chan_bw")) \
                and isinstance(ga["freq_align"], str) and isinstance(wa["freq_align"], str) \
                and isinstance(ga["center_freq"], Qty) and isinstance(wa["center_freq"], Qty) \
                and ga["center_freq"].dim == wa["center_freq"].dim and isinstance(gv.data, SArr) and gv.data.ndim >= 2:
            # C02: compare the observable channel labels, not the (center, alignment) representation
            from .speclib import ALIGN_A
            if ga["freq_align"] in ALIGN_A and wa["freq_align"] in ALIGN_A:
                with ctx.scope():
                    n = gv.data.shape[1]
                    i = ctx.fresh("chan", "int")
                    ctx.assume(z3.And(i >= 0, V.Z(i) < V.Z(n)), why="skolem-channel")
                    half_n = V.div(ctx, n, 2)

                    def lab(cf, bw, al):
                        return V.add(cf.val, V.mul(bw.val, V.sub(V.add(V.R(i), ALIGN_A[al]), half_n)))
                    if isinstance(ga["chan_bw"], Qty) and isinstance(wa["chan_bw"], Qty):
                        ctx.oblige(f"{name}.channel-labels",
                                   V.eq(lab(ga["center_freq"], ga["chan_bw"], ga["freq_align"]),
                                        lab(wa["center_freq"], wa["chan_bw"], wa["freq_align"])), "post")
                        # odd channel counts must be stored as 'center' (C16/C02)
                        del wa["center_freq"], wa["freq_align"]
        for k, w in wa.items():
            if k not in ga:
                ctx.oblige(f"{name}.{k}.present", False, "post")
                continue
            compare_values(interp, ctx, f"{name}.{k}", ga[k], w, depth + 1)
        return
    if isinstance(want, SArr):
        if not isinstance(got, SArr):
            ctx.oblige(f"{name}.is-array", False, "post", {"got": repr(got)})
            return
        if got.ndim != want.ndim:
            ctx.oblige(f"{name}.ndim", False, "post", {"got": got.ndim, "want": want.ndim})
            return
        ctx.oblige(f"{name}.shape", V.And(*[V.eq(g, w) for g, w in zip(got.shape, want.shape)]), "post")
        ctx.oblige(f"{name}.dtype", got.dtype == want.dtype, "post", {"got": got.dtype.name, "want": want.dtype.name})
        ctx.oblige(f"{name}.backend", got.backend == want.backend, "post", {"got": got.backend, "want": want.backend})
        with ctx.scope():
            ix = A.fresh_index(ctx, want.shape, "e")
            # the skolem index is within the *prescribed* shape; shapes are proved equal separately
            ge, we = got.elem(ix), want.elem(ix)
            if isinstance(ge, Cx) or isinstance(we, Cx):
                ctx.oblige(f"{name}.elem", V.ceq(ge, we), "post")
            else:
                ctx.oblige(f"{name}.elem", _eq_any(ge, we), "post")
        return
    if isinstance(want, Qty):
        if not isinstance(got, Qty):
            ctx.oblige(f"{name}.is-quantity", False, "post", {"got": repr(got)})
            return
        ctx.oblige(f"{name}.unit-dim", got.dim == want.dim, "post", {"got": got.dim, "want": want.dim})
        if got.dim == want.dim:
            compare_values(interp, ctx, f"{name}.val", got.val, want.val, depth + 1)
        return
    if isinstance(want, STime):
        if not isinstance(got, STime):
            ctx.oblige(f"{name}.is-time", False, "post", {"got": repr(got)})
            return
        compare_values(interp, ctx, f"{name}.sec", got.sec, want.sec, depth + 1)
        return
    if isinstance(want, dict):
        if not isinstance(got, dict):
            ctx.oblige(f"{name}.is-dict", False, "post", {"got": repr(got)})
            return
        ctx.oblige(f"{name}.keys", set(got) == set(want), "post", {"got": sorted(map(str, got)), "want": sorted(map(str, want))})
        for k in want:
            if k in got:
                compare_values(interp, ctx, f"{name}[{k}]", got[k], want[k], depth + 1)
        return
    if isinstance(want, (tuple, list)):
        if not isinstance(got, (tuple, list)) or len(got) != len(want):
            ctx.oblige(f"{name}.len", False, "post", {"got": repr(got)})
            return
        for i, (g, w) in enumerate(zip(got, want)):
            compare_values(interp, ctx, f"{name}[{i}]", g, w, depth + 1)
        return
    if isinstance(want, Cx):
        if isinstance(got, Cx) or V.is_num(got):
            ctx.oblige(name, V.ceq(got, want), "post")
        else:
            ctx.oblige(name, False, "post", {"got": repr(got)})
        return
    if want is None or isinstance(want, (str, DType)) or want is NOTIMPL:
        ok = (got is None) if want is None else (got is want if want is NOTIMPL else (type(got) is type(want) and got == want))
        ctx.oblige(name, bool(ok), "post", {"got": repr(got), "want": repr(want)})
        return
    if isinstance(want, bool) or (is_sym(want) and z3.is_bool(want)):
        if isinstance(got, bool) or (is_sym(got) and z3.is_bool(got)):
            ctx.oblige(name, V.Z(got) == V.Z(want), "post")
        else:
            ctx.oblige(name, False, "post", {"got": repr(got)})
        return
    if V.is_num(want):
        if V.is_num(got) and not isinstance(got, bool):
            ctx.oblige(name, V.eq(got, want), "post")
            if V.is_intlike(want) != V.is_intlike(got):
                ctx.oblige(name + ".int-ness", False, "post", {"got": repr(got), "want": repr(want)})
        else:
            ctx.oblige(name, False, "post", {"got": repr(got)})
        return
    if isinstance(want, Obj):
        same = got is want or (isinstance(got, Obj) and getattr(got, "ghost", None) is not None and getattr(want, "ghost", None) is not None
                               and got.ghost["data"].name == want.ghost["data"].name and got.cls is want.cls)
        ctx.oblige(f"{name}.same-object", bool(same), "post")
        return
    if isinstance(want, ClassRef):
        ctx.oblige(name, isinstance(got, ClassRef) and got.ci is want.ci, "post")
        return
    if isinstance(want, SSlice):
        if not isinstance(got, SSlice):
            ctx.oblige(name, False, "post")
            return
        compare_values(interp, ctx, name + ".slice", (got.start, got.stop, got.step), (want.start, want.stop, want.step))
        return
    custom = getattr(want, "compare_to", None)
    if custom is not None:
        custom(interp, ctx, name, got)
        return
    raise Unsupported(f"compare_values: no rule for {type(want).__name__}")


def _eq_any(a, b):
    ba = isinstance(a, bool) or (is_sym(a) and z3.is_bool(a))
    bb = isinstance(b, bool) or (is_sym(b) and z3.is_bool(b))
    if ba and bb:
        return V.Z(a) == V.Z(b)
    if ba:
        a = V.Ite(a, 1, 0)
    if bb:
        b = V.Ite(b, 1, 0)
    return V.eq(a, b)


def compare_outcomes(interp, ctx, got: Outcome, want: Outcome):
    if want.kind == "raise":
        if got.kind == "raise":
            if want.exc.kind == "ANY":
                return          # the statement leaves this input unconstrained
            wk = want.exc.kind if isinstance(want.exc.kind, tuple) else (want.exc.kind,)
            ok = any(V.exc_isinstance(got.exc.kind, k) for k in wk)
            ctx.oblige(f"raises.{'|'.join(wk)}", ok, "raises",
                       {"got": got.exc.kind, "want": want.exc.kind, "msg": got.exc.msg})
        else:
            if want.exc.kind == "ANY":
                return
            wk = want.exc.kind if isinstance(want.exc.kind, tuple) else (want.exc.kind,)
            ctx.oblige(f"raises.{'|'.join(wk)}", False, "raises",
                       {"got": "normal return", "want": wk, "why": want.exc.msg})
        return
    if got.kind == "raise":
        ctx.oblige("returns-normally", False, "raises", {"got": got.exc.kind, "msg": got.exc.msg})
        return
    compare_values(interp, ctx, "post.result", got.value, want.value)


# --------------------------------------------------------------------------- verification of one function

class VerifyReport:
    def __init__(self, qualname, instance):
        self.qualname, self.instance = qualname, instance
        self.obligations = []
        self.unsupported = []     # (detail, trace)
        self.paths = 0
        self.infeasible = 0
        self.assumptions = set()
        self.errors = []
        self.gen_time = 0.0


def verify_function(interp, contract: Contract, inst: Instance, prop_prefix=""):
    """Generate the obligations of `contract` on `inst` by joint execution of the real body
    and the spec."""
    rep = VerifyReport(contract.qualname, inst.label)
    fv = interp.funcval_for(contract.qualname) if contract.body is None else None
    t0 = time.time()

    def run(ctx):
        ctx.oblig_prefix = f"{prop_prefix}{contract.qualname.replace('pulsarbat.', '')}/"
        from .concrete import SymNamer
        args, kwargs = inst.build(interp, ctx, SymNamer())
        pristine_args, pristine_kwargs = inst.build(interp, ctx, SymNamer())   # identical symbols, separate objects
        mark_inputs(ctx, args, kwargs)
        if getattr(contract, "sanctioned_out", False) and kwargs.get("out") is not None:
            # the one sanctioned mutation: an explicit out= naming a signal/array as the target
            for o in kwargs["out"]:
                arr = o.ghost["data"] if isinstance(o, Obj) and getattr(o, "ghost", None) else o
                if isinstance(o, Obj):
                    for f in o.fields.values():
                        if isinstance(f, SArr):
                            ctx.sanctioned |= set(f.owner)
                if isinstance(arr, SArr):
                    ctx.sanctioned |= set(arr.owner)
        from .loops import PathEnd
        if contract.pre is not None:
            contract.pre(SpecCtx(interp, ctx, contract, mode="verify"), *pristine_args, **pristine_kwargs)
        interp.no_contract.add(contract.qualname)
        # a variant "f#case" exercises the real body of f: f's own contract must not stand in for it (circular)
        base_qn = contract.qualname.split("#")[0]
        added_base = base_qn != contract.qualname and base_qn not in interp.no_contract
        if added_base:
            interp.no_contract.add(base_qn)
        if getattr(contract, "on_path_start", None):
            contract.on_path_start(interp, ctx)
        # reductions carried by an element loop over a symbolic index space are specified by the contract
        ctx.loop_folds = (lambda: contract.loop_folds(SpecCtx(interp, ctx, contract, mode="verify"), *pristine_args, **pristine_kwargs)) \
            if getattr(contract, "loop_folds", None) else None
        try:
            if contract.body is not None:
                got = run_outcome(lambda: contract.body(interp, ctx, args, kwargs))
            else:
                got = run_outcome(lambda: interp.inline_function(fv, args, kwargs, ctx))
        except PathEnd:
            return
        finally:
            interp.no_contract.discard(contract.qualname)
            if added_base:
                interp.no_contract.discard(base_qn)
        c = SpecCtx(interp, ctx, contract, mode="verify")
        want = run_outcome(lambda: contract.spec(c, *pristine_args, **pristine_kwargs))
        compare_outcomes(interp, ctx, got, want)
        # C09 laziness typestate: with a Dask-backed input no forcing operation (compute, persist,
        # np.asarray, bool/int/float of a Dask value, np.nditer over Dask data) may have been executed
        if has_dask_input(args, kwargs) and not getattr(contract, "forcing_allowed", False):
            forces = [e[1] for e in ctx.events if e[0] == "force"]
            ctx.oblige("dask.no-forcing-operation", not forces, "typestate", {"forcing": forces[:5]})
        if getattr(contract, "fresh_result", False) and got.kind == "return":
            # statelessness (C11): what is handed to the caller is the caller's -- it must not be memory a cache
            # (functools.lru_cache / cache) keeps and hands out again
            shared = sorted({str(t) for a in arrays_of(got.value) for t in (a.owner or ()) if str(t).startswith("cache:")})
            ctx.oblige("frame.result-not-cache-memory", not shared, "frame", {"shared_with": shared[:3]})
        if contract.theorems is not None and got.kind == "return" and want.kind == "return":
            contract.theorems(c, got.value, *pristine_args, **pristine_kwargs)
        check_inputs_unchanged(interp, ctx, args, kwargs, pristine_args, pristine_kwargs)

    try:
        results = explore(run)
    except Exception:
        rep.errors.append(traceback.format_exc())
        results = []
    seen = set()
    for r in results:
        rep.paths += 1
        if r.status == "infeasible":
            rep.infeasible += 1
            continue
        if r.status == "unsupported":
            rep.unsupported.append((r.detail, list(r.ctx.trace)))
        rep.assumptions |= r.ctx.assumptions
        for ob in r.ctx.obligations:
            k = ob.key()
            if k in seen:
                continue
            seen.add(k)
            ob.name = f"{ob.name}{{{inst.label}}}"
            rep.obligations.append(ob)
    rep.gen_time = time.time() - t0
    return rep


def arrays_of(v, depth=0):
    """every symbolic array reachable from a value (signal fields, quantities, tuples)"""
    from .values import Qty
    if isinstance(v, SArr):
        yield v
    elif isinstance(v, Qty):
        yield from arrays_of(v.val, depth + 1)
    elif isinstance(v, Obj) and depth < 3:
        for x in v.fields.values():
            yield from arrays_of(x, depth + 1)
    elif isinstance(v, (tuple, list)):
        for x in v:
            yield from arrays_of(x, depth + 1)


def has_dask_input(args, kwargs):
    found = []

    def walk(v):
        if isinstance(v, SArr):
            if v.backend == "dask":
                found.append(v)
        elif isinstance(v, Obj):
            for x in v.fields.values():
                walk(x)
        elif isinstance(v, Qty):
            walk(v.val)
        elif isinstance(v, (list, tuple)):
            for x in v:
                walk(x)
        elif isinstance(v, dict):
            for x in v.values():
                walk(x)
    for a in args:
        walk(a)
    for a in kwargs.values():
        walk(a)
    return bool(found)


def mark_inputs(ctx, args, kwargs):
    """Parameter-owned mutable things: any write to them violates the frame condition."""
    def walk(v, path):
        if isinstance(v, Obj):
            v.born_in_call = False
            for k, x in v.fields.items():
                walk(x, f"{path}.{k}")
        elif isinstance(v, SArr):
            v.owner = frozenset([f"param:{path}"])
        elif isinstance(v, Qty):
            ctx.frozen_qty[id(v)] = path      # NumPy's in-place operators mutate a Quantity object itself
            ctx.frozen_keep.append(v)
            walk(v.val, path)
        elif isinstance(v, STime):
            walk(v.sec, path)
        elif isinstance(v, dict):
            ctx.frozen[id(v)] = path
            for k, x in v.items():
                walk(x, f"{path}[{k}]")
        elif isinstance(v, list):
            ctx.frozen[id(v)] = path
            for i, x in enumerate(v):
                walk(x, f"{path}[{i}]")
        elif isinstance(v, tuple):
            for i, x in enumerate(v):
                walk(x, f"{path}[{i}]")
    for i, a in enumerate(args):
        walk(a, f"arg{i}")
    for k, a in kwargs.items():
        walk(a, k)
    # `kwargs` of the call itself is a fresh dict in Python: not frozen


def check_inputs_unchanged(interp, ctx, args, kwargs, pargs, pkwargs):
    """frame.*: every input array still denotes the same element function and every input
    object the same fields (in-place writes are additionally flagged where they happen)."""
    def walk(v, p, path):
        if isinstance(v, Obj) and isinstance(p, Obj):
            if set(v.fields) != set(p.fields):
                ctx.oblige(f"frame.fields[{path}]", False, "frame")
            for k in p.fields:
                if k in v.fields:
                    walk(v.fields[k], p.fields[k], f"{path}.{k}")
        elif isinstance(v, SArr) and isinstance(p, SArr):
            if v.written:
                with ctx.scope():
                    ix = A.fresh_index(ctx, p.shape, "f")
                    ge, we = v.elem(ix), p.elem(ix)
                    ctx.oblige(f"frame.unchanged[{path}]", V.ceq(ge, we) if isinstance(ge, Cx) or isinstance(we, Cx) else _eq_any(ge, we), "frame")
        elif isinstance(v, Qty) and isinstance(p, Qty):
            walk(v.val, p.val, path)
        elif isinstance(v, STime) and isinstance(p, STime):
            walk(v.sec, p.sec, path)
        elif isinstance(v, dict) and isinstance(p, dict):
            if set(v) != set(p):
                ctx.oblige(f"frame.dict-keys[{path}]", False, "frame")
            for k in p:
                if k in v:
                    walk(v[k], p[k], f"{path}[{k}]")
        elif isinstance(v, (list, tuple)) and isinstance(p, (list, tuple)):
            if len(v) != len(p):
                ctx.oblige(f"frame.len[{path}]", False, "frame")
            for i, (x, y) in enumerate(zip(v, p)):
                walk(x, y, f"{path}[{i}]")
    for i, (a, p) in enumerate(zip(args, pargs)):
        walk(a, p, f"arg{i}")
    for k in kwargs:
        if k == "out" and ctx.sanctioned:
            continue
        walk(kwargs[k], pkwargs[k], k)
