"""Concrete side of the contracts: the same instance builders and spec functions evaluated on
concrete values, conversion to/from real pulsarbat/NumPy/Astropy objects, and the comparison
of what the real code returns with what the spec prescribes.  Used for (1) replaying solver
counterexamples on the real code and (2) the bounded stand-in layer (never counted as proved)."""
from __future__ import annotations
import importlib
import itertools
import math
import sys
from fractions import Fraction
import z3
from . import values as V
from .values import SArr, Qty, STime, Obj, PyExc, Cx, DType, SSlice, Unit, is_sym
from .contract import ASig, SpecCtx, run_outcome, Outcome, SigView
from .ctx import PathCtx, Unsupported
from .interp import ClassRef, NOTIMPL

EPOCH_MJD = 59000


class SymNamer:
    concrete = False

    def int(self, name, default=None):
        return z3.Int(name)

    def real(self, name, default=None):
        return z3.Real(name)

    def bool(self, name, default=None):
        return z3.Bool(name)


class ConcNamer:
    """Names resolve to the values of a model (dict name -> int/Fraction), with defaults."""
    concrete = True

    def __init__(self, model=None, defaults=None, rng=None):
        self.model = dict(model or {})
        self.defaults = defaults or {}
        self.rng = rng
        self.used = {}

    def _get(self, name, default, kind):
        if name in self.model:
            v = self.model[name]
        elif name in self.defaults:
            v = self.defaults[name]
        else:
            v = self._auto(name, kind, default)
        if kind == "int":
            v = int(v)
        elif kind == "real":
            v = Fraction(v)
        self.used[name] = v
        return v

    def _auto(self, name, kind, default=None):
        r = self.rng
        if r is None and default is not None:
            return default
        if r is not None and default is not None:
            # perturb the contract-supplied default over a few decades, keep it sometimes
            if kind == "int":
                return default if r.random() < 0.5 else max(0, default + r.choice([-1, 1, 2]))
            if name in ("DM",):
                return Fraction(r.choice([-300, -10, -1, 1, 3, 10, 57, 300, 1000]), r.choice([1, 1, 10, 1000]))
            return Fraction(default) * Fraction(r.choice([1, 1, 1, 2, 3, 7, 10, 100]), r.choice([1, 1, 2, 5, 10]))
        if kind == "int":
            if name == "N":
                from contracts.utils import is_smooth
                k = r.random() if r else 0.5
                if k < 0.3:
                    return r.randint(0, 300)
                base = r.choice([2, 3, 5, 7]) ** r.randint(1, 12) * r.choice([1, 2, 3, 4, 5, 6, 7, 8, 9, 10])
                return max(0, base + r.choice([-1, 0, 1]))
            if name.endswith("_N"):
                return r.choice([0, 1, 2, 3, 4, 5, 6, 7, 8, 9, 10, 11, 12, 13, 16, 22]) if r else 5
            if "_S" in name:
                return r.choice([1, 2, 3]) if r else 2
            if name in ("n", "t_i"):
                return r.choice([-1, 0, 0, 1, 1, 2, 3, 4, 5, 8, 13]) if r else 2
            if name.endswith("_step"):
                return r.choice([1, 1, 2, 3, 7]) if r else 1
            return r.randint(-9, 9) if r else 1
        if kind == "real":
            if name == "t_s":
                return Fraction(r.choice([-4, -2, 0, 0, 1, 2, 3, 4, 5, 6, 8, 9, 13, 17, 20, 32, 51, 52]), 4) if r else Fraction(5, 4)
            if name.endswith("_scale"):
                return Fraction(r.choice([1, 1, 2, 3, 5, 12, 40])) if r else Fraction(3)
            if name == "sh" or name == "sh_n":
                return Fraction(r.choice([-17, -3, -2, -1, 0, 1, 2, 3, 9, 40]) * 1000 + r.choice([0, 0, 250, 500, 999]), 1000) if r else Fraction(5, 2)
            if name.endswith("_sr") or name.endswith("_bw"):
                return Fraction(r.choice([1, 3, 1000, 12500, 10 ** 6, 8 * 10 ** 8])) if r else Fraction(1000)
            if name.endswith("_t0"):
                return Fraction(r.randint(0, 10 ** 6)) + Fraction(r.randint(0, 10 ** 6), 10 ** 6) if r else Fraction(1234)
            if name.endswith("_cf"):
                return Fraction(r.choice([0, 400 * 10 ** 6, 1400 * 10 ** 6, 123456789])) if r else Fraction(10 ** 9)
            return Fraction(r.randint(-1000, 1000), r.choice([1, 2, 3, 8])) if r else Fraction(1)
        return False

    def int(self, name, default=None):
        return self._get(name, default, "int")

    def real(self, name, default=None):
        return self._get(name, default, "real")

    def bool(self, name, default=None):
        return bool(self._get(name, default, "bool"))


def parse_model(model):
    """Solver model (name -> string) to numbers."""
    out = {}
    for k, v in (model or {}).items():
        if isinstance(v, (int, Fraction)):
            out[k] = v
            continue
        s = str(v).strip()
        if s in ("True", "False"):
            out[k] = s == "True"
            continue
        try:
            if s.endswith("?"):
                s = s[:-1]
            out[k] = Fraction(s)
        except (ValueError, ZeroDivisionError):
            continue
    return out


# --------------------------------------------------------------------------- data coding

def code_value(name, ix, kind):
    """Deterministic pseudo-random sample value in [-1, 1) exactly representable in float32."""
    h = 1469598103934665603
    for ch in name:
        h = ((h ^ ord(ch)) * 1099511628211) % (1 << 64)
    for i in ix:
        h = ((h ^ (int(i) + 7919)) * 1099511628211) % (1 << 64)
    a = Fraction(((h >> 8) % (1 << 16)) - (1 << 15), 1 << 15)
    if kind == "c":
        b = Fraction(((h >> 28) % (1 << 16)) - (1 << 15), 1 << 15)
        return Cx(a, b)
    if kind == "b":
        return bool((h >> 9) & 1)
    if kind in "iu":
        return int((h >> 8) % 200) - 100
    return a


# --------------------------------------------------------------------------- value model -> real objects

def _np():
    import numpy as np
    return np


def materialize(arr: SArr):
    np = _np()
    shape = tuple(int(d) for d in arr.shape)
    out = np.zeros(shape, dtype=np.dtype(arr.dtype.name))
    for ix in itertools.product(*[range(d) for d in shape]):
        e = arr.elem(ix)
        if isinstance(e, Cx):
            out[ix] = complex(V.num(e.re), V.num(e.im))
        elif isinstance(e, bool):
            out[ix] = e
        else:
            out[ix] = V.num(e) if arr.dtype.kind in "fc" else int(e)
    if arr.backend == "dask":
        import dask.array as da
        return da.from_array(out, chunks=tuple(max(1, (d + 1) // 2) if i else -1 for i, d in enumerate(shape)) if shape else ())
    return out


def real_unit(unit, dim):
    import astropy.units as u
    base = {"s": u.s, "cyc": u.cycle, "L": u.m}
    if unit is not None and unit.name:
        return getattr(u, unit.name)
    out = u.dimensionless_unscaled
    for b, e in dim:
        out = out * base[b] ** e
    return out


def to_real(v, pb):
    np = _np()
    import astropy.units as u
    from astropy.time import Time
    if isinstance(v, Obj):
        if hasattr(v, "_real"):
            return v._real
        g = getattr(v, "ghost", None)
        if g is None:
            raise Unsupported("to_real of an object without ghost record")
        cls = getattr(pb, v.cls.name)
        kw = {"sample_rate": to_real(g["sr"], pb)}
        if g["t0"] is not None:
            kw["start_time"] = to_real(g["t0"], pb)
        if g.get("meta") is not None:
            kw["meta"] = dict(g["meta"])
        if "cf" in g:
            kw["center_freq"] = to_real(g["cf"], pb)
            if not issubclass(cls, pb.BasebandSignal):
                kw["chan_bw"] = to_real(g["bw"], pb)
            kw["freq_align"] = g["align_arg"]
        if "pol" in g:
            kw["pol_type"] = g["pol"]
        v._real = cls(materialize(g["data"]), **kw)
        return v._real
    if isinstance(v, SArr):
        return materialize(v)
    if isinstance(v, Qty) and v.cls is not None:
        # instance of a repo subclass of Quantity (DispersionMeasure): value in its default unit
        val = Fraction(v.val) / Fraction(v.unit.scale)
        return getattr(pb, v.cls.name)(float(val))
    if isinstance(v, Qty):
        un = real_unit(v.unit, v.dim)
        scale = v.unit.scale if v.unit is not None else 1
        if v.unit is not None and v.unit.pik:
            scale = float(scale) * (2 * math.pi) ** v.unit.pik
        val = v.val
        if isinstance(val, SArr):
            return (materialize(val) / float(scale)) * un
        if isinstance(val, (int, Fraction)):
            q = Fraction(val) / Fraction(scale) if not isinstance(scale, float) else float(val) / scale
            return (int(q) if isinstance(q, Fraction) and q.denominator == 1 and abs(q) < 2 ** 53 else float(q)) * un
        return float(val) / float(scale) * un
    if isinstance(v, STime):
        if isinstance(v.sec, SArr):
            secs = materialize(v.sec)
            return Time(EPOCH_MJD, format="mjd") + secs * u.s
        sec = Fraction(v.sec)
        days = sec / 86400
        whole = math.floor(days)
        return Time(EPOCH_MJD + whole, float(days - whole), format="mjd")
    if isinstance(v, Unit):
        return real_unit(v, v.dim) if v.name else real_unit(None, v.dim) * float(v.scale)
    if isinstance(v, SSlice):
        return slice(*(None if x is None else int(x) for x in (v.start, v.stop, v.step)))
    if isinstance(v, Cx):
        return complex(float(v.re), float(v.im))
    if isinstance(v, ClassRef):
        return getattr(pb, v.ci.name)
    if isinstance(v, Fraction):
        return float(v) if v.denominator != 1 else int(v)
    if isinstance(v, tuple):
        return tuple(to_real(x, pb) for x in v)
    if isinstance(v, list):
        return [to_real(x, pb) for x in v]
    if isinstance(v, dict):
        return {k: to_real(x, pb) for k, x in v.items()}
    if isinstance(v, DType):
        return np.dtype(v.name)
    if v is NOTIMPL:
        return NotImplemented
    if isinstance(v, RealHolder):
        return v.obj
    return v


class RealHolder:
    """Wrap a ready-made real object as an input."""

    def __init__(self, obj):
        self.obj = obj


# --------------------------------------------------------------------------- real objects -> value model

def time_to_sec(t):
    """Exact rational seconds since EPOCH from the two-double JD representation."""
    from astropy.time import Time
    e = Time(EPOCH_MJD, format="mjd", scale=t.scale)
    d = (Fraction(float(t.jd1)) - Fraction(float(e.jd1))) + (Fraction(float(t.jd2)) - Fraction(float(e.jd2)))
    return d * 86400


def arr_from_real(x):
    np = _np()
    backend = "numpy"
    if type(x).__module__.startswith("dask"):
        backend = "dask"
        x = x.compute()
    x = np.asarray(x)
    name = x.dtype.name
    if name not in DType._kinds:
        raise Unsupported(f"dtype {name}")
    kind = DType(name).kind

    def elem(ix, x=x, kind=kind):
        e = x[tuple(int(i) for i in ix)]
        if kind == "c":
            return Cx(float(e.real), float(e.imag))
        if kind == "b":
            return bool(e)
        if kind in "iu":
            return int(e)
        return float(e)
    a = SArr(x.shape, elem, name, backend)
    a.np = x
    return a


def from_real(x, pb):
    np = _np()
    import astropy.units as u
    from astropy.time import Time
    if x is None or isinstance(x, (bool, str)):
        return x
    if x is NotImplemented:
        return NOTIMPL
    if isinstance(x, pb.Signal):
        return x            # compared through public attributes
    if isinstance(x, Time):
        if x.isscalar:
            return STime(time_to_sec(x))
        raise Unsupported("array Time result")
    if isinstance(x, u.Quantity):
        si = x.unit.decompose()
        dims = {}
        for b, p in zip(si.bases, si.powers):
            nm = {"s": "s", "m": "L", "rad": "cyc"}.get(b.name)
            if nm is None:
                raise Unsupported(f"unit base {b}")
            dims[nm] = int(p)
        scale = si.scale
        val = x.value * scale
        if "cyc" in dims:
            val = val / (2 * math.pi) ** dims["cyc"]
        if np.ndim(val) == 0:
            return Qty(float(val), dims)
        return Qty(arr_from_real(np.asarray(val)), dims)
    if isinstance(x, (np.ndarray,)) or type(x).__module__.startswith("dask"):
        return arr_from_real(x)
    if isinstance(x, (np.bool_,)):
        return bool(x)
    if isinstance(x, (int, np.integer)):
        return int(x)
    if isinstance(x, (float, np.floating)):
        return float(x)
    if isinstance(x, (complex, np.complexfloating)):
        return Cx(float(x.real), float(x.imag))
    if isinstance(x, slice):
        return SSlice(x.start, x.stop, x.step)
    if isinstance(x, tuple):
        return tuple(from_real(e, pb) for e in x)
    if isinstance(x, list):
        return [from_real(e, pb) for e in x]
    if isinstance(x, dict):
        return {k: from_real(e, pb) for k, e in x.items()}
    if isinstance(x, type):
        return x
    raise Unsupported(f"from_real: {type(x).__name__}")


# --------------------------------------------------------------------------- comparison with tolerance

class Mismatch:
    def __init__(self, where, got, want):
        self.where, self.got, self.want = where, got, want

    def __repr__(self):
        return f"{self.where}: got {self.got!r}, want {self.want!r}"


class Tol:
    def __init__(self, time_s=1e-10, rel=1e-9, data_rel=1e-5, data_abs=1e-5, exact_data=False, num_abs=0.0):
        self.time_s, self.rel, self.data_rel, self.data_abs, self.exact_data = time_s, rel, data_rel, data_abs, exact_data
        self.num_abs = num_abs      # absolute slack for scalar results that are differences of much larger terms


def _num_close(g, w, rel, abs_=0.0):
    g, w = float(g), float(w)
    if math.isnan(g) or math.isnan(w):
        return math.isnan(g) and math.isnan(w)
    return abs(g - w) <= abs_ + rel * max(abs(g), abs(w))


def compare_concrete(got, want, tol: Tol, where, out, pb):
    """got: from_real(...) of what the real code returned; want: what the spec prescribes."""
    if isinstance(want, ASig):
        if not isinstance(got, pb.Signal):
            out.append(Mismatch(where + ".is-signal", type(got).__name__, want.cls.name))
            return
        if type(got).__name__ != want.cls.name:
            out.append(Mismatch(where + ".type", type(got).__name__, want.cls.name))
            return
        compare_concrete(arr_from_real(got.data), want.data, tol, where + ".data", out, pb)
        pub = {"sample_rate": "sample_rate", "start_time": "start_time", "meta": "meta", "center_freq": "center_freq",
               "chan_bw": "chan_bw", "freq_align": "freq_align", "pol_type": "pol_type"}
        wa = dict(want.attrs)
        if all(k in wa for k in ("center_freq", "chan_bw", "freq_align")) and hasattr(got, "channel_freqs"):
            from .speclib import ALIGN_A
            n = int(want.data.shape[1])
            cf, bw, al = wa["center_freq"].val, wa["chan_bw"].val, wa["freq_align"]
            labels = got.channel_freqs.to_value("Hz")
            for i in range(n):
                w = Fraction(cf) + Fraction(bw) * (i + ALIGN_A[al] - Fraction(n, 2)) if not isinstance(cf, float) and not isinstance(bw, float) else cf + bw * (i + float(ALIGN_A[al]) - n / 2)
                scale = max(abs(float(cf)), abs(float(bw)) * n, 1e-300)
                if abs(float(labels[i]) - float(w)) > 8 * 2.3e-16 * scale:
                    out.append(Mismatch(f"{where}.channel-labels[{i}]", float(labels[i]), float(w)))
                    break
            del wa["center_freq"], wa["freq_align"]
        for k, w in wa.items():
            if not hasattr(got, pub[k]):
                out.append(Mismatch(f"{where}.{k}.present", None, w))
                continue
            compare_concrete(from_real(getattr(got, pub[k]), pb), w, tol, f"{where}.{k}", out, pb)
        return
    if isinstance(want, SArr):
        if not isinstance(got, SArr):
            out.append(Mismatch(where + ".is-array", type(got).__name__, "array"))
            return
        wshape = tuple(int(d) for d in want.shape)
        if tuple(got.shape) != wshape:
            out.append(Mismatch(where + ".shape", tuple(got.shape), wshape))
            return
        if got.dtype != want.dtype:
            out.append(Mismatch(where + ".dtype", got.dtype.name, want.dtype.name))
        if got.backend != want.backend:
            out.append(Mismatch(where + ".backend", got.backend, want.backend))
        scale = 0.0
        vals = []
        for ix in itertools.product(*[range(d) for d in wshape]):
            w = want.elem(ix)
            vals.append((ix, w))
            m = abs(complex(V.num(Cx.of(w).re), V.num(Cx.of(w).im))) if not isinstance(w, bool) else 1.0
            scale = max(scale, m)
        eps = 6e-8 if want.dtype.name in ("float32", "complex64") else 1.2e-16
        for ix, w in vals:
            g = got.elem(ix)
            if isinstance(w, bool) or isinstance(g, bool):
                ok = bool(g) == bool(w)
            else:
                gc, wc = Cx.of(g), Cx.of(w)
                if tol.exact_data:
                    lim = 4 * eps * scale
                else:
                    lim = tol.data_abs * scale + 4 * eps * scale
                zero_expected = V.num(wc.re) == 0 and V.num(wc.im) == 0 and getattr(want, "exact_zero", None) and want.exact_zero(ix)
                if zero_expected:
                    lim = 0.0
                d = abs(complex(V.num(gc.re) - V.num(wc.re), V.num(gc.im) - V.num(wc.im)))
                ok = d <= lim
            if not ok:
                out.append(Mismatch(f"{where}{list(ix)}", g, w))
                return
        return
    if isinstance(want, Qty):
        if not isinstance(got, Qty):
            out.append(Mismatch(where + ".is-quantity", type(got).__name__, "Quantity"))
            return
        if tuple(got.dim) != tuple(want.dim):
            out.append(Mismatch(where + ".unit-dim", got.dim, want.dim))
            return
        if isinstance(want.val, SArr):
            compare_concrete(got.val, want.val, Tol(exact_data=True), where + ".val", out, pb)
        elif not _num_close(got.val, want.val, tol.rel, getattr(tol, "num_abs", 0.0)):
            out.append(Mismatch(where + ".val", float(got.val), float(want.val)))
        return
    if isinstance(want, STime):
        if not isinstance(got, STime):
            out.append(Mismatch(where + ".is-time", type(got).__name__, "Time"))
        elif abs(float(Fraction(got.sec) - Fraction(want.sec))) > tol.time_s:
            out.append(Mismatch(where + ".sec", float(got.sec), float(want.sec)))
        return
    if isinstance(want, dict):
        if not isinstance(got, dict) or set(got) != set(want):
            out.append(Mismatch(where + ".keys", sorted(got) if isinstance(got, dict) else type(got).__name__, sorted(want)))
            return
        for k in want:
            compare_concrete(got[k], want[k], tol, f"{where}[{k}]", out, pb)
        return
    if isinstance(want, (tuple, list)):
        if not isinstance(got, (tuple, list)) or len(got) != len(want):
            out.append(Mismatch(where + ".len", got, want))
            return
        for i, (g, w) in enumerate(zip(got, want)):
            compare_concrete(g, w, tol, f"{where}[{i}]", out, pb)
        return
    if isinstance(want, Cx):
        g = Cx.of(got) if isinstance(got, (Cx, int, float, Fraction)) else None
        if g is None or not (_num_close(g.re, want.re, tol.rel, 1e-12) and _num_close(g.im, want.im, tol.rel, 1e-12)):
            out.append(Mismatch(where, got, want))
        return
    if want is None or isinstance(want, (str, bool)) or want is NOTIMPL:
        if not (got is want or (type(got) is type(want) and got == want)):
            out.append(Mismatch(where, got, want))
        return
    if isinstance(want, (int, Fraction, float)):
        if isinstance(got, bool) or not isinstance(got, (int, float, Fraction)):
            out.append(Mismatch(where, got, want))
        elif isinstance(want, int) and (not isinstance(got, int) or got != want):
            out.append(Mismatch(where, got, want))
        elif not _num_close(got, want, tol.rel, max(1e-300, getattr(tol, "num_abs", 0.0))):
            out.append(Mismatch(where, got, want))
        return
    if isinstance(want, SSlice):
        if not isinstance(got, SSlice) or (got.start, got.stop, got.step) != (want.start, want.stop, want.step):
            out.append(Mismatch(where, got, want))
        return
    if isinstance(want, Obj):
        if got is not getattr(want, "_real", None):
            out.append(Mismatch(where + ".same-object", got, want))
        return
    custom = getattr(want, "compare_concrete", None)
    if custom is not None:
        custom(got, where, out, pb)
        return
    raise Unsupported(f"compare_concrete: no rule for {type(want).__name__}")


def obj_from_real_signal(interp, x, pb):
    """Wrap a real signal as an interpreter object whose ghost record holds its public attributes."""
    ci = interp.repo.get_class(f"pulsarbat.core.{type(x).__name__}")
    o = Obj(ci)
    g = {"data": arr_from_real(x.data), "sr": from_real(x.sample_rate, pb), "t0": from_real(x.start_time, pb), "meta": x.meta}
    if isinstance(x, pb.RadioSignal):
        g.update(cf=from_real(x.center_freq, pb), bw=from_real(x.chan_bw, pb), align=x.freq_align)
    if isinstance(x, pb.DualPolarizationSignal):
        g["pol"] = x.pol_type
    o.ghost = g
    o._real = x
    o.fields["__real__"] = x
    return o


class ConcTheoremCtx(PathCtx):
    enumerate_quantifiers = True

    def __init__(self):
        super().__init__()
        self.failed = []

    def oblige(self, name, goal, kind="post", meta=None):
        g = goal
        if is_sym(g):
            g = V.conc(z3.simplify(g))
        if g is not True:
            self.failed.append(name)


def concrete_theorems(interp, contract, real_result, args, kwargs, pb):
    """Evaluate the property-level theorems of a contract on the real result (float tolerance)."""
    if isinstance(real_result, pb.Signal):
        res = obj_from_real_signal(interp, real_result, pb)
    else:
        res = from_real(real_result, pb)
    ctx = ConcTheoremCtx()
    c = SpecCtx(interp, ctx, contract)
    old = V.CONC_TOL
    V.CONC_TOL = 1e-9
    try:
        contract.theorems(c, res, *args, **kwargs)
    finally:
        V.CONC_TOL = old
    return [Mismatch(n, "violated on the real result", "holds") for n in ctx.failed]


def snapshot_inputs(rargs, rkwargs, pb, skip_out=False):
    """Byte-wise snapshot of every input signal / array / Quantity (C14, bounded layer)."""
    import numpy as np
    import pickle
    out = {}

    def snap(v, path):
        if isinstance(v, pb.Signal):
            d = v.data
            if isinstance(d, np.ndarray):
                out[path + ".data"] = (d.tobytes(), str(d.dtype), d.shape, d.strides)
            for a in ("sample_rate", "start_time", "center_freq", "chan_bw", "freq_align", "pol_type"):
                if hasattr(v, a):
                    x = getattr(v, a)
                    out[f"{path}.{a}"] = None if x is None else ((x.jd1, x.jd2) if hasattr(x, "jd1") else str(x))
            try:
                out[path + ".meta"] = pickle.dumps(v.meta)
            except Exception:
                out[path + ".meta"] = repr(v.meta)
            # the object itself: a copy taken before the call has the same instance attributes with the
            # same values (a getter that stores a derived value on its object changes this)
            for k in sorted(vars(v)):
                x = vars(v)[k]
                if k in ("_data",):
                    continue
                if isinstance(x, np.ndarray) and not hasattr(x, "unit"):
                    val = (x.tobytes(), str(x.dtype), x.shape)
                elif hasattr(x, "unit") and hasattr(x, "value"):
                    xv = np.asarray(x.value)
                    val = (xv.tobytes(), str(xv.dtype), xv.shape, str(x.unit))
                elif hasattr(x, "jd1"):
                    val = (repr(x.jd1), repr(x.jd2))
                else:
                    try:
                        val = pickle.dumps(x)
                    except Exception:
                        val = repr(x)
                out[f"{path}.__dict__[{k}]"] = val
        elif isinstance(v, np.ndarray) and not hasattr(v, "unit"):
            out[path] = (v.tobytes(), str(v.dtype), v.shape, v.strides)
        elif hasattr(v, "unit") and hasattr(v, "value"):
            x = np.asarray(v.value)
            out[path] = (x.tobytes(), str(x.dtype), x.shape, str(v.unit))
        elif isinstance(v, (list, tuple)):
            for i, x in enumerate(v):
                snap(x, f"{path}[{i}]")
        elif isinstance(v, dict):
            for k, x in v.items():
                snap(x, f"{path}[{k}]")
    for i, a in enumerate(rargs):
        snap(a, f"arg{i}")
    for k, a in rkwargs.items():
        if skip_out and k == "out":
            continue
        snap(a, k)
    return out


# --------------------------------------------------------------------------- differential run

def import_repo(root="/repo"):
    if root not in sys.path:
        sys.path.insert(0, root)
    import pulsarbat
    if not pulsarbat.__file__.startswith(root):
        raise RuntimeError(f"pulsarbat imported from {pulsarbat.__file__}, expected under {root}")
    return pulsarbat


def resolve_real(qualname, pb):
    parts = qualname.split(".")
    obj = importlib.import_module(parts[0])
    chain = []
    for p in parts[1:]:
        chain.append(obj)
        try:
            obj = getattr(obj, p)
        except AttributeError:
            obj = importlib.import_module(".".join(parts[:parts.index(p) + 1]))
    return obj, chain[-1] if chain else None


def exc_kind_names(e):
    return [c.__name__ for c in type(e).__mro__]


def real_result(interp, contract, inst, nm, pb):
    """The real function on one concrete instantiation of the instance (no spec); raises what it raises."""
    ctx = PathCtx()
    ctx.concrete = True
    ctx.inst_label = inst.label
    V.CONCRETE_MODE = True
    try:
        args, kwargs = inst.build(interp, ctx, nm)
        rargs, rkwargs = to_real(tuple(args), pb), to_real(dict(kwargs), pb)
    finally:
        V.CONCRETE_MODE = False
    if getattr(contract, "real_call", None) is not None:
        return contract.real_call(pb, rargs, rkwargs)
    fn, owner = resolve_real(contract.qualname, pb)
    if isinstance(fn, property):
        return fn.fget(*rargs)
    return fn(*rargs, **rkwargs)


def differential(interp, contract, inst, nm, pb, tol=None, real_call=None):
    """Run the spec concretely and the real function natively on the same concrete inputs.
    Returns dict(status='ok'|'mismatch'|'skip', mismatches=[...], inputs=..., observed=..., expected=...)."""
    tol = tol or getattr(contract, "tol", None) or Tol()
    ctx = PathCtx()
    ctx.concrete = True
    ctx.tol_fn = getattr(contract, "tol_fn", None)
    ctx.inst_label = inst.label
    V.CONCRETE_MODE = True
    try:
        return _differential(interp, contract, inst, nm, pb, tol, real_call, ctx)
    finally:
        V.CONCRETE_MODE = False


def _differential(interp, contract, inst, nm, pb, tol, real_call, ctx):
    from .ctx import Infeasible
    try:
        args, kwargs = inst.build(interp, ctx, nm)
    except (Unsupported, PyExc, Infeasible) as e:
        return {"status": "skip", "why": f"inputs not constructible: {e}"}
    skip_fn = getattr(contract, "skip_fn", None)
    if skip_fn is not None and skip_fn(inst.label, nm.used):
        return {"status": "skip", "why": "input at a resolution boundary the statement leaves open"}
    c = SpecCtx(interp, ctx, contract, mode="verify")
    try:
        if contract.pre is not None:
            contract.pre(c, *args, **kwargs)
        want = run_outcome(lambda: contract.spec(c, *args, **kwargs))
    except Unsupported as e:
        return {"status": "skip", "why": f"spec not concretely evaluable: {e}"}
    except Infeasible as e:
        return {"status": "skip", "why": f"precondition of the contract not met: {e}"}
    try:
        rargs = to_real(tuple(args), pb)
        rkwargs = to_real(dict(kwargs), pb)
    except Unsupported as e:
        return {"status": "skip", "why": f"inputs not realisable: {e}"}
    snap_before = snapshot_inputs(rargs, rkwargs, pb, skip_out=getattr(contract, "sanctioned_out", False))
    try:
        if real_call is not None:
            res = real_call(pb, rargs, rkwargs)
        elif getattr(contract, "real_call", None) is not None:
            res = contract.real_call(pb, rargs, rkwargs)
        else:
            fn, owner = resolve_real(contract.qualname, pb)
            if isinstance(rargs[0] if rargs else None, type) and hasattr(fn, "__self__"):
                res = getattr(rargs[0], contract.qualname.split(".")[-1])(*rargs[1:], **rkwargs)
            elif isinstance(fn, property):
                res = fn.fget(*rargs)
            else:
                res = fn(*rargs, **rkwargs)
        got = Outcome("return", res)
    except Exception as e:   # noqa: the real code may raise anything
        got = Outcome("raise", exc=e)
    mism = []
    info = {"inputs": {k: str(v) for k, v in nm.used.items()}}
    snap_after = snapshot_inputs(rargs, rkwargs, pb, skip_out=getattr(contract, "sanctioned_out", False))
    for k in sorted(set(snap_before) | set(snap_after)):
        if snap_before.get(k) != snap_after.get(k):
            mism.append(Mismatch(f"frame.input-mutated[{k}]", "changed by the call", "bit-identical to the copy taken before"))
    if want.kind == "raise" and want.exc.kind == "ANY":
        return {"status": "skip", "why": "input the statement leaves unconstrained", **info}
    if want.kind == "raise":
        wk = want.exc.kind if isinstance(want.exc.kind, tuple) else (want.exc.kind,)
        info["expected"] = f"raises {'|'.join(wk)}"
        if got.kind == "raise":
            names = exc_kind_names(got.exc)
            info["observed"] = f"raises {names[0]}: {got.exc}"
            if not any(k in names for k in wk):
                mism.append(Mismatch("raises", names[0], wk))
        else:
            info["observed"] = f"returned {type(got.value).__name__}"
            mism.append(Mismatch("raises", "normal return", wk))
    else:
        info["expected"] = "normal return"
        if got.kind == "raise":
            info["observed"] = f"raises {type(got.exc).__name__}: {got.exc}"
            mism.append(Mismatch("returns-normally", type(got.exc).__name__, "normal return"))
        else:
            info["observed"] = "normal return"
            if getattr(ctx, "tol_fn", None):
                tol = ctx.tol_fn(ctx.inst_label, nm.used) or tol
            try:
                if hasattr(want.value, "compare_concrete") and callable(got.value) and not isinstance(got.value, type):
                    # a relational spec result that inspects the real object itself (e.g. the function pb.fft.<name>)
                    want.value.compare_concrete(got.value, "result", mism, pb)
                else:
                    g = from_real(got.value, pb)
                    compare_concrete(g, want.value, tol, "result", mism, pb)
                if contract.theorems is not None:
                    mism.extend(concrete_theorems(interp, contract, got.value, args, kwargs, pb))
            except Unsupported as e:
                return {"status": "skip", "why": f"result not comparable: {e}", **info}
    # frame: inputs unchanged is checked by the caller through snapshots when requested
    info["status"] = "mismatch" if mism else "ok"
    tag = getattr(ctx, "oblig_tag", "")
    if tag:
        # the spec named the case of the statement this input falls in (see SpecCtx.tag)
        for m in mism:
            m.where = f"{m.where}[{tag}]"
        info["case"] = tag
    info["mismatches"] = [repr(m) for m in mism[:5]]
    return info
