"""Helpers for writing spec functions from the property statements (independent of the code)."""
from __future__ import annotations
from fractions import Fraction
import z3
from . import values as V
from . import arrays as A
from .values import SArr, Qty, STime, PyExc, Cx, DType, SSlice, is_sym, Unit
from .contract import ASig
from .stubs_lib import FREQ_DIM, TIME_DIM, TAU_T

ALIGN_A = {"bottom": 0, "center": Fraction(1, 2), "top": 1}
REQ_SHAPE = {"Signal": (None,), "RadioSignal": (None, None), "IntensitySignal": (None, None),
             "FullStokesSignal": (None, None, 4), "BasebandSignal": (None, None),
             "DualPolarizationSignal": (None, None, 2)}
REQ_DTYPE = {"Signal": (), "RadioSignal": (), "IntensitySignal": ("float64", "float32"),
             "FullStokesSignal": ("float64", "float32"), "BasebandSignal": ("complex128", "complex64"),
             "DualPolarizationSignal": ("complex128", "complex64")}


def raise_any(c, conds):
    """Raise when any of the (cond, kind) pairs holds; when several hold at once any of their
    kinds is acceptable (the statement does not order simultaneous errors)."""
    kinds = []
    for cond, kind in conds:
        if c.branch(cond, f"err {kind}"):
            kinds.append(kind)
    if kinds:
        raise PyExc(tuple(kinds) if len(kinds) > 1 else kinds[0], "spec")


def qdiv(c, q: Qty, x):
    """Quantity / number."""
    return Qty(V.div(c.ctx, q.val, x), q.dim, q.unit)


def qmul(q: Qty, x):
    return Qty(V.mul(q.val, x), q.dim, q.unit)


def time_plus(c, t: STime, seconds):
    return STime(V.simp(V.add(t.sec, seconds)), "isot", 9)


def clsinfo(c, name):
    return c.interp.repo.get_class(f"pulsarbat.core.{name}")


def construct(c, cls, data, attrs):
    """C16 as a spec: what constructing `cls(data, **attrs)` must do -- raise ValueError on any
    violated clause of the class contract, otherwise yield a signal with exactly these
    attributes (dtype safely cast when needed; baseband chan_bw := sample_rate; alignment
    forced to 'center' for an odd channel count)."""
    ctx = c.ctx
    name = cls.name
    req = None
    for k in cls.mro():
        if k.name in REQ_SHAPE:
            req, req_dt = REQ_SHAPE[k.name], REQ_DTYPE[k.name]
            break
    if not isinstance(data, SArr):
        raise PyExc(("AttributeError", "ValueError", "TypeError"), "data must be an array")
    if data.ndim < len(req):
        raise PyExc("ValueError", "too few dimensions")
    for ax, r in enumerate(req):
        if r is not None:
            c.raise_if(V.ne(data.shape[ax], r), "ValueError", f"axis {ax} must have length {r}")
    c.raise_if(V.eq(A.shape_prod(data.shape[1:]), 0), "ValueError", "empty sample shape")
    if req_dt and data.dtype.name not in req_dt:
        if data.dtype.can_cast_safe(DType(req_dt[0])):
            data = A.astype(ctx, data, DType(req_dt[0]))
        else:
            raise PyExc("ValueError", "dtype not allowed and not safely castable")
    out = {}
    sr = attrs.get("sample_rate")
    check_qty(c, sr, FREQ_DIM, positive=True, what="sample_rate")
    out["sample_rate"] = sr
    t0 = attrs.get("start_time")
    if t0 is not None:
        if not isinstance(t0, STime) or not t0.is_scalar:
            raise PyExc("ValueError", "start_time must be a scalar Time")
    out["start_time"] = t0
    meta = attrs.get("meta")
    if meta is not None and not isinstance(meta, dict):
        raise PyExc("ValueError", "meta must be a dict")
    out["meta"] = meta
    names = [k.name for k in cls.mro()]
    if "RadioSignal" in names:
        cf = attrs.get("center_freq")
        check_qty(c, cf, FREQ_DIM, positive=False, what="center_freq")
        out["center_freq"] = cf
        if "BasebandSignal" in names:
            out["chan_bw"] = sr
        else:
            bw = attrs.get("chan_bw")
            check_qty(c, bw, FREQ_DIM, positive=True, what="chan_bw")
            out["chan_bw"] = bw
        al = attrs.get("freq_align", "center")
        if not isinstance(al, str) or al not in ALIGN_A:
            raise PyExc("ValueError", "freq_align")
        odd = c.branch(V.eq(V.mod_int(ctx, data.shape[1], 2), 1), "nchan odd")
        out["freq_align"] = "center" if odd else al
    if "DualPolarizationSignal" in names:
        pol = attrs.get("pol_type")
        if not isinstance(pol, str) or pol not in ("linear", "circular"):
            raise PyExc("ValueError", "pol_type")
        out["pol_type"] = pol
    return ASig(cls, data, **out)


def check_qty(c, q, dim, positive, what):
    if not isinstance(q, Qty) or q.dim != dim or not q.is_scalar:
        raise PyExc("ValueError", f"{what} must be a scalar Quantity with frequency units")
    if positive:
        c.raise_if(V.le(q.val, 0), "ValueError", f"{what} must be positive")


def label(c, g, i):
    """Channel label of the band model: cf + bw*(i + a - n/2)."""
    a = ALIGN_A[g.align]
    n = g.nchan
    k = V.sub(V.add(V.R(i) if is_sym(i) else i, a), V.div(c.ctx, n, 2))
    return V.add(g.cf.val, V.mul(g.bw.val, k))


def like_attrs(g, **over):
    d = g.attrs()
    d.update(over)
    return d
