"""Stubs, part 1: dispatcher skeleton, Python builtins / stdlib, scalar and container operators.
Every stub is an *assumed* contract of a dependency (DESIGN 3.2)."""
from __future__ import annotations
import ast
from fractions import Fraction
import z3
from . import values as V
from . import arrays as A
from .values import SArr, Qty, Unit, STime, SSlice, Obj, PyExc, Cx, DType, is_sym, conc
from .ctx import Unsupported
from .interp import (Stub, NS, ExtType, ClassRef, FuncVal, Bound, NOTIMPL, NotImpl, RepoModuleRef)

NATIVE_CONTAINERS = (dict, list, tuple, str, set, frozenset)
_MUTATORS = {"update", "append", "pop", "extend", "insert", "remove", "clear", "setdefault", "sort",
             "reverse", "popitem", "add", "discard"}


def _exc_type(name):
    t = ExtType(name, lambda v, name=name: isinstance(v, PyExc) and V.exc_isinstance(v.kind, name))
    return t


class StubsBase:
    def __init__(self):
        self.interp = None
        self.ext = {}
        self.builtins = {}
        self.types = {}
        self._init_builtins()

    # ------------------------------------------------------------------ registry
    def external(self, dotted):
        if dotted in self.ext:
            return self.ext[dotted]
        # walk attributes from the longest known prefix
        parts = dotted.split(".")
        for i in range(len(parts) - 1, 0, -1):
            head = ".".join(parts[:i])
            if head in self.ext:
                v = self.ext[head]
                try:
                    for p in parts[i:]:
                        v = self.interp.get_attr(v, p, None)
                except Unsupported:
                    return None
                return v
        return None

    def builtin(self, name):
        return self.builtins.get(name)

    # ------------------------------------------------------------------ builtins
    def _init_builtins(self):
        b = self.builtins
        for n in ["Exception", "ValueError", "TypeError", "IndexError", "KeyError", "AttributeError",
                  "EOFError", "AssertionError", "NotImplementedError", "ZeroDivisionError", "RuntimeError",
                  "LookupError", "ArithmeticError", "StopIteration", "OverflowError"]:
            b[n] = _exc_type(n)
        T = self.types
        T["int"] = ExtType("int", lambda v: V.is_intlike(v) or isinstance(v, bool))
        T["float"] = ExtType("float", lambda v: isinstance(v, (Fraction, float)) or (is_sym(v) and z3.is_real(v)))
        T["bool"] = ExtType("bool", lambda v: isinstance(v, bool) or (is_sym(v) and z3.is_bool(v)))
        T["str"] = ExtType("str", lambda v: isinstance(v, str))
        T["tuple"] = ExtType("tuple", lambda v: isinstance(v, tuple))
        T["list"] = ExtType("list", lambda v: isinstance(v, list))
        T["dict"] = ExtType("dict", lambda v: isinstance(v, dict))
        T["slice"] = ExtType("slice", lambda v: isinstance(v, SSlice))
        T["complex"] = ExtType("complex", lambda v: isinstance(v, Cx))
        T["object"] = ExtType("object", lambda v: True)
        T["int"].ctor = self.b_int
        T["float"].ctor = self.b_float
        T["bool"].ctor = lambda ctx, v=False: self.interp.truthy_sym(v, ctx)
        T["str"].ctor = self.b_str
        T["tuple"].ctor = lambda ctx, v=(): tuple(self.interp.iterate(v, ctx))
        T["list"].ctor = lambda ctx, v=(): list(self.interp.iterate(v, ctx))
        T["dict"].ctor = self.b_dict
        T["slice"].ctor = self.b_slice
        T["set"] = ExtType("set", lambda v: isinstance(v, (set, frozenset)))
        T["set"].ctor = lambda ctx, v=(): set(self.interp.iterate(v, ctx))
        for k, t in T.items():
            b[k] = t
        b["len"] = Stub(self.b_len, "len")
        b["isinstance"] = Stub(lambda ctx, v, t: self.interp.isinstance_(v, t, ctx), "isinstance")
        b["issubclass"] = Stub(lambda ctx, c, t: self.interp.issubclass_(c, t, ctx), "issubclass")
        b["type"] = Stub(self.b_type, "type")
        b["zip"] = Stub(self.b_zip, "zip")
        b["all"] = Stub(self.b_all, "all")
        b["any"] = Stub(self.b_any, "any")
        b["min"] = Stub(self.b_min, "min")
        b["max"] = Stub(self.b_max, "max")
        b["abs"] = Stub(self.b_abs, "abs")
        b["range"] = Stub(self.b_range, "range")
        b["enumerate"] = Stub(self.b_enumerate, "enumerate")
        b["next"] = Stub(self.b_next, "next")
        b["iter"] = Stub(lambda ctx, it: list(self.interp.iterate(it, ctx)), "iter")
        b["sorted"] = Stub(self.b_sorted, "sorted")
        b["reversed"] = Stub(lambda ctx, it: list(reversed(self.interp.iterate(it, ctx))), "reversed")
        b["hasattr"] = Stub(lambda ctx, o, n: self.interp.has_attr(o, n, ctx), "hasattr")
        b["getattr"] = Stub(self.b_getattr, "getattr")
        b["setattr"] = Stub(lambda ctx, o, n, v: self.interp.set_attr(o, n, v, ctx), "setattr")
        b["round"] = Stub(self.b_round, "round")
        b["sum"] = Stub(self.b_sum, "sum")
        b["hex"] = Stub(lambda ctx, v: "<hex>", "hex")
        b["id"] = Stub(lambda ctx, v: id(v), "id")
        b["format"] = Stub(lambda ctx, v, spec="": "<format>", "format")
        b["repr"] = Stub(lambda ctx, v: "<repr>", "repr")
        b["property"] = Stub(lambda ctx, *a, **k: NS("property-object"), "property")
        b["open"] = Stub(self.b_open, "open")
        b["callable"] = Stub(lambda ctx, v: isinstance(v, (Stub, FuncVal, Bound, ClassRef)), "callable")
        b["True"], b["False"], b["None"] = True, False, None
        b["Ellipsis"] = V.Ellip()

        # stdlib modules
        self.ext["operator"] = NS("operator", {
            "index": Stub(self.op_index, "operator.index"),
            "itemgetter": Stub(lambda ctx, k: Stub(lambda ctx2, o: self.interp.getitem(o, k, ctx2), "itemgetter"), "operator.itemgetter"),
            "or_": Stub(lambda ctx, a, b: self.binop(ast.BitOr(), a, b, ctx), "operator.or_"),
            "and_": Stub(lambda ctx, a, b: self.binop(ast.BitAnd(), a, b, ctx), "operator.and_"),
        })
        self.ext["math"] = NS("math", {
            "ceil": Stub(self.m_ceil, "math.ceil"),
            "floor": Stub(self.m_floor, "math.floor"),
            "pi": V.PI,
        })
        self.ext["functools"] = NS("functools", {
            "wraps": Stub(lambda ctx, f: Stub(lambda ctx2, g: self._wraps(f, g), "wraps-apply"), "functools.wraps"),
            "lru_cache": Stub(lambda ctx, *a, **k: Stub(lambda ctx2, f: f, "lru_cache-apply"), "functools.lru_cache"),
            "reduce": Stub(self.f_reduce, "functools.reduce"),
            "partial": Stub(lambda ctx, f, *pa, **pk: Stub(lambda ctx2, *a, **k: self.interp.call(f, tuple(pa) + tuple(a), {**pk, **k}, ctx2), "partial-apply"), "functools.partial"),
            "singledispatch": Stub(lambda ctx, f: f, "functools.singledispatch"),
        })
        self.ext["functools.singledispatch"] = self.ext["functools"].attrs["singledispatch"]
        self.ext["functools.lru_cache"] = self.ext["functools"].attrs["lru_cache"]
        # inspect.Parameter.<KIND> / .empty are the same objects the parameters of a signature carry
        _param_cls = NS("inspect.Parameter", dict(self._sig_kinds, empty=self._sig_empty))
        self.ext["inspect"] = NS("inspect", {"signature": Stub(self.i_signature, "inspect.signature"), "Parameter": _param_cls,
                                             "_empty": self._sig_empty})
        nullctx = NS("nullcontext-object")
        nullctx.is_context = True
        self.ext["copy"] = NS("copy", {"copy": Stub(self.f_copy, "copy.copy")})
        self.ext["copy.copy"] = self.ext["copy"].attrs["copy"]
        self.ext["contextlib"] = NS("contextlib", {"nullcontext": Stub(lambda ctx, *a: self._nullcontext(), "nullcontext")})
        self.ext["contextlib.nullcontext"] = self.ext["contextlib"].attrs["nullcontext"]
        self.ext["pprint"] = NS("pprint", {"pformat": Stub(lambda ctx, *a, **k: "<pformat>", "pformat")})

    def _nullcontext(self):
        n = NS("nullcontext-object")
        n.is_context = True
        return n

    def _wraps(self, f, g):
        if isinstance(g, FuncVal):
            g.attrs["__wrapped__"] = f
        return g

    # -- builtin implementations -------------------------------------------------------
    def b_len(self, ctx, v):
        if isinstance(v, NATIVE_CONTAINERS):
            return len(v)
        if type(v).__name__ == "SSeq":
            return v.n
        if isinstance(v, SArr):
            if v.ndim == 0:
                raise PyExc("TypeError", "len() of unsized object")
            return v.shape[0]
        if isinstance(v, Qty):
            return self.b_len(ctx, v.val) if isinstance(v.val, SArr) else _raise("TypeError", "scalar Quantity has no len")
        if isinstance(v, Obj):
            cls, m = v.cls.find_method("__len__")
            if m is None:
                raise PyExc("TypeError", "object has no len()")
            return self.interp.call(self.interp.get_attr(v, "__len__", ctx), (), {}, ctx)
        r = self.len_hook(v, ctx)
        if r is not NotImplemented:
            return r
        raise PyExc("TypeError", f"object of type {type(v).__name__} has no len()")

    def len_hook(self, v, ctx):
        return NotImplemented

    def b_type(self, ctx, v):
        if isinstance(v, Obj):
            return ClassRef(v.cls)
        for name, t in (("bool", bool), ("str", str), ("tuple", tuple), ("list", list), ("dict", dict)):
            if isinstance(v, t):
                return self.types[name]
        if is_sym(v) and z3.is_bool(v):
            return self.types["bool"]
        if V.is_intlike(v):
            return self.types["int"]
        if V.is_num(v):
            return self.types["float"]
        r = self.type_hook(v, ctx)
        if r is not None:
            return r
        raise Unsupported(f"type() of {type(v).__name__}")

    def type_hook(self, v, ctx):
        return None

    def f_copy(self, ctx, v):
        """copy.copy: a new object of the same class sharing the attribute values (shallow)."""
        from .values import Obj as _Obj
        if isinstance(v, _Obj):
            new = _Obj(v.cls)
            new.fields = dict(v.fields)
            new.born_in_call = True
            if getattr(v, "ghost", None) is not None:
                new.ghost = v.ghost
            return new
        if isinstance(v, (list, dict, set)):
            return type(v)(v)
        if isinstance(v, (tuple, str, int, float, bool, Fraction)) or v is None:
            return v
        raise Unsupported(f"copy.copy of {type(v).__name__}")

    _NODEFAULT = object()

    def b_next(self, ctx, it, default=_NODEFAULT):
        """next() of a generator expression / iterator, modelled as the first element of the (already
        evaluated, finite) sequence.  Only the first-element use is supported: the model has no iterator state."""
        items = self.interp.iterate(it, ctx)
        if items:
            return items[0]
        if default is self._NODEFAULT:
            raise PyExc("StopIteration", "")
        return default

    def b_enumerate(self, ctx, it, start=0):
        sq = self.iterate_sym(it, ctx)
        if sq is not None:
            from .values import SSeq
            return SSeq(sq.n, lambda i: (V.add(i, start), sq.item(i)))
        return [(i + start, x) for i, x in enumerate(self.interp.iterate(it, ctx))]

    def iterate_sym(self, v, ctx):
        """SSeq for iterables of symbolic length, else None."""
        from .values import SSeq
        return v if isinstance(v, SSeq) else None

    def b_zip(self, ctx, *its):
        sqs = [self.iterate_sym(i, ctx) for i in its]
        if its and all(q is not None for q in sqs):
            from .values import SSeq
            n = sqs[0].n
            for q in sqs[1:]:
                if not ctx.is_valid(V.eq(q.n, n)):
                    raise Unsupported("zip of symbolic-length sequences of different lengths")
            return SSeq(n, lambda i: tuple(q.item(i) for q in sqs))
        lists = [self.interp.iterate(i, ctx) for i in its]
        return list(zip(*lists))

    def b_all(self, ctx, it):
        for x in self.interp.iterate(it, ctx):
            if not self.interp.truthy(x, ctx, "all()"):
                return False
        return True

    def b_any(self, ctx, it):
        for x in self.interp.iterate(it, ctx):
            if self.interp.truthy(x, ctx, "any()"):
                return True
        return False

    def _minmax(self, ctx, args, is_min):
        if len(args) == 1:
            sq = self.iterate_sym(args[0], ctx)
            if sq is not None:
                if not ctx.branch(V.lt(0, sq.n), "min/max of a non-empty symbolic sequence"):
                    raise PyExc("ValueError", "min()/max() of empty sequence")
                probe = sq.item(ctx.fresh("probe", "int"))
                if not V.is_num(probe):
                    raise Unsupported("min/max over a symbolic-length sequence of non-numbers")
                return ctx.fold_extreme("min" if is_min else "max", sq.n, sq.item, tag="builtin")
            args = self.interp.iterate(args[0], ctx)
        if not args:
            raise PyExc("ValueError", "min()/max() of empty sequence")
        cur = args[0]
        for x in args[1:]:
            # Python: min keeps the first among equals; with numbers value-equal is enough
            c = self.compare(ast.Lt(), x, cur, ctx) if is_min else self.compare(ast.Gt(), x, cur, ctx)
            if isinstance(c, bool):
                cur = x if c else cur
            elif V.is_num(x) and V.is_num(cur):
                cur = V.Ite(c, x, cur)
            else:
                cur = x if ctx.branch(c, "min/max") else cur
        return V.simp(cur) if V.is_num(cur) else cur

    def b_min(self, ctx, *args, **kw):
        return self._minmax(ctx, list(args), True)

    def b_max(self, ctx, *args, **kw):
        return self._minmax(ctx, list(args), False)

    def b_abs(self, ctx, v):
        if V.is_num(v):
            return v if not is_sym(v) and v >= 0 else (-v if not is_sym(v) else V.Ite(V.le(0, v), v, V.neg(v)))
        return self.abs_hook(v, ctx)

    def abs_hook(self, v, ctx):
        raise Unsupported(f"abs of {type(v).__name__}")

    def b_range(self, ctx, *a):
        if all(isinstance(x, int) for x in a):
            return list(range(*a))
        raise Unsupported("range with symbolic bounds (needs a loop spec)")

    def b_sorted(self, ctx, it, key=None, reverse=False):
        items = self.interp.iterate(it, ctx)
        keys = [self.interp.call(key, (x,), {}, ctx) if key is not None else x for x in items]
        # insertion sort with forking comparisons (concrete length)
        order = []
        for i, k in enumerate(keys):
            pos = len(order)
            for j, o in enumerate(order):
                c = self.compare(ast.Lt(), k, keys[o], ctx)
                if self.interp.truthy(c, ctx, "sorted"):
                    pos = j
                    break
            order.insert(pos, i)
        out = [items[i] for i in order]
        return list(reversed(out)) if reverse else out

    def b_getattr(self, ctx, o, n, *default):
        try:
            return self.interp.get_attr(o, n, ctx)
        except PyExc as e:
            if e.kind == "AttributeError" and default:
                return default[0]
            raise

    def b_round(self, ctx, v, nd=None):
        if nd is not None:
            raise Unsupported("round with ndigits")
        if V.is_num(v):
            return V.rint_real(ctx, v)
        raise Unsupported("round()")

    def b_sum(self, ctx, it, start=0):
        acc = start
        for x in self.interp.iterate(it, ctx):
            acc = self.binop(ast.Add(), acc, x, ctx)
        return acc

    def b_int(self, ctx, v=0, *a):
        if isinstance(v, bool):
            return int(v)
        if V.is_intlike(v):
            return v
        if V.is_num(v):
            return V.trunc_real(ctx, v)
        if isinstance(v, str):
            try:
                return int(v)
            except ValueError:
                raise PyExc("ValueError", "invalid literal for int()")
        r = self.int_hook(v, ctx)
        if r is not NotImplemented:
            return r
        raise PyExc("TypeError", "int() argument must be a string or a number")

    def int_hook(self, v, ctx):
        return NotImplemented

    def b_float(self, ctx, v=0):
        if isinstance(v, bool):
            return Fraction(int(v))
        if V.is_num(v):
            return V.R(v) if is_sym(v) else Fraction(v)
        if isinstance(v, str):
            try:
                return Fraction(v.strip().replace("_", ""))
            except (ValueError, ZeroDivisionError):
                raise PyExc("ValueError", "could not convert string to float")
        r = self.float_hook(v, ctx)
        if r is not NotImplemented:
            return r
        raise PyExc("TypeError", "float() argument must be a string or a number")

    def float_hook(self, v, ctx):
        return NotImplemented

    def b_str(self, ctx, v=""):
        if isinstance(v, str):
            return v
        if isinstance(v, int):
            return str(v)
        return "<str>"

    def b_dict(self, ctx, *a, **kw):
        d = {}
        if a:
            src = a[0]
            if isinstance(src, dict):
                d.update(src)
            elif isinstance(src, (list, tuple)):
                for item in src:
                    if not isinstance(item, (tuple, list)) or len(item) != 2:
                        raise PyExc("TypeError", "cannot convert dictionary update sequence element")
                    d[item[0]] = item[1]
            else:
                r = self.dict_hook(src, ctx)
                if r is NotImplemented:
                    raise PyExc("TypeError", "object is not iterable / not a mapping")
                d.update(r)
        d.update(kw)
        return d

    def dict_hook(self, v, ctx):
        return NotImplemented

    def b_slice(self, ctx, *a):
        if len(a) == 1:
            return SSlice(None, a[0], None)
        if len(a) == 2:
            return SSlice(a[0], a[1], None)
        if len(a) == 3:
            return SSlice(*a)
        raise PyExc("TypeError", "slice expected at most 3 arguments")

    def b_open(self, ctx, *a, **k):
        raise Unsupported("open()")

    def op_index(self, ctx, v):
        if isinstance(v, bool):
            return int(v)
        if V.is_intlike(v):
            return v
        r = self.index_hook(v, ctx)
        if r is not NotImplemented:
            return r
        raise PyExc("TypeError", "object cannot be interpreted as an integer")

    def index_hook(self, v, ctx):
        return NotImplemented

    def m_ceil(self, ctx, v):
        if V.is_num(v):
            return V.ceil_real(ctx, v)
        r = self.float_hook(v, ctx)
        if r is NotImplemented:
            raise PyExc("TypeError", "must be real number")
        return V.ceil_real(ctx, r)

    def m_floor(self, ctx, v):
        if V.is_num(v):
            return V.floor_real(ctx, v)
        r = self.float_hook(v, ctx)
        if r is NotImplemented:
            raise PyExc("TypeError", "must be real number")
        return V.floor_real(ctx, r)

    def f_reduce(self, ctx, f, it, *init):
        items = self.interp.iterate(it, ctx)
        if init:
            acc = init[0]
        else:
            if not items:
                raise PyExc("TypeError", "reduce() of empty iterable with no initial value")
            acc, items = items[0], items[1:]
        for x in items:
            acc = self.interp.call(f, (acc, x), {}, ctx)
        return acc

    # inspect.signature(cls): answered from the AST of cls.__init__ (DESIGN 2.3)
    def i_signature(self, ctx, target):
        if isinstance(target, ClassRef):
            cls, init = target.ci.find_method("__init__")
            if init is None:
                raise Unsupported("signature of class without __init__")
            node, skip = init, 1
        elif isinstance(target, FuncVal):
            node, skip = target.node, 0
        else:
            raise Unsupported("inspect.signature target")
        a = node.args
        EMPTY = self._sig_empty
        kinds = self._sig_kinds
        params = []
        pos = a.posonlyargs + a.args
        nd = len(a.defaults)
        for i, p in enumerate(pos):
            has_def = i >= len(pos) - nd
            k = kinds["POSITIONAL_ONLY"] if p in a.posonlyargs else kinds["POSITIONAL_OR_KEYWORD"]
            params.append((p.arg, k, has_def))
        params = params[skip:]
        if a.vararg:
            params.append((a.vararg.arg, kinds["VAR_POSITIONAL"], False))
        for p, d in zip(a.kwonlyargs, a.kw_defaults):
            params.append((p.arg, kinds["KEYWORD_ONLY"], d is not None))
        if a.kwarg:
            params.append((a.kwarg.arg, kinds["VAR_KEYWORD"], False))
        od = {}
        for name, kind, has_def in params:
            p = NS("inspect.Parameter", dict(kinds))
            p.attrs.update({"name": name, "kind": kind, "empty": EMPTY,
                            "default": NS("some-default") if has_def else EMPTY})
            od[name] = p
        return NS("inspect.Signature", {"parameters": od})

    _sig_empty = NS("inspect._empty")
    _sig_kinds = {k: NS(f"inspect.{k}") for k in
                  ["POSITIONAL_ONLY", "POSITIONAL_OR_KEYWORD", "VAR_POSITIONAL", "KEYWORD_ONLY", "VAR_KEYWORD"]}

    # ------------------------------------------------------------------ hooks with defaults
    def instantiate_hook(self, ci, ext_bases):
        return None

    def isinstance_repo(self, v, ci):
        return False

    def class_getattr(self, ci, name, ctx):
        return None

    def super_getattr(self, sup, name, ctx):
        return None

    def obj_getattr(self, obj, name, ctx):
        return NotImplemented

    def value_setattr(self, v, name, val, ctx):
        return False

    def with_enter(self, m, ctx):
        if isinstance(m, NS) and getattr(m, "is_context", False):
            enter = getattr(m, "on_enter", None)
            return enter(ctx) if enter else m
        raise Unsupported(f"with on {m!r}")

    def with_exit(self, m, ctx):
        ex = getattr(m, "on_exit", None)
        if ex:
            ex(ctx)

    def for_loop(self, interp, st, it, env, ctx):
        return False

    def iterate(self, v, ctx):
        return NotImplemented

    def truthy(self, v, ctx):
        return NotImplemented

    def logical_and(self, a, b, ctx):
        if isinstance(a, bool) and a:
            return b
        if isinstance(a, (bool,)) or is_sym(a):
            if isinstance(b, bool) or is_sym(b):
                return V.And(a, b)
        return self.binop(ast.BitAnd(), a, b, ctx)

    # ------------------------------------------------------------------ native container attributes
    def value_getattr(self, v, name, ctx):
        if isinstance(v, NATIVE_CONTAINERS):
            if not hasattr(v, name):
                raise PyExc("AttributeError", name)
            m = getattr(v, name)

            def native(ctx2, *a, **k):
                if name in _MUTATORS and id(v) in ctx2.frozen:
                    ctx2.oblige(f"frame.container-mutation[{ctx2.frozen[id(v)]}.{name}]", False, "frame")
                if isinstance(v, dict) and name in ("items", "keys", "values"):
                    return list(m())
                if isinstance(v, dict) and name == "update" and a and not isinstance(a[0], dict):
                    raise Unsupported("dict.update with non-dict")
                if isinstance(v, str) and name in ("format",):
                    return "<format>"
                try:
                    return m(*a, **k)
                except (IndexError,) as e:
                    raise PyExc("IndexError", str(e))
                except KeyError as e:
                    raise PyExc("KeyError", str(e))
                except TypeError as e:
                    raise Unsupported(f"native {type(v).__name__}.{name}: {e}")
            return Stub(native, f"{type(v).__name__}.{name}")
        if isinstance(v, SSlice):
            if name in ("start", "stop", "step"):
                return getattr(v, name)
            if name == "indices":
                return Stub(lambda ctx2, n: self.slice_indices(ctx2, v, n), "slice.indices")
            raise PyExc("AttributeError", name)
        if isinstance(v, Cx):
            if name == "real":
                return v.re
            if name == "imag":
                return v.im
            if name == "conjugate":
                return Stub(lambda ctx2: V.cconj(v), "complex.conjugate")
            raise PyExc("AttributeError", name)
        if v is None or isinstance(v, (bool, NotImpl)) or V.is_num(v) or (is_sym(v) and z3.is_bool(v)):
            if V.is_num(v):
                if name == "real":
                    return v
                if name == "imag":
                    return 0
            raise PyExc("AttributeError", f"{type(v).__name__} has no attribute {name}")
        if isinstance(v, PyExc):
            raise PyExc("AttributeError", name)
        return NotImplemented

    def slice_indices(self, ctx, sl, n):
        """slice.indices(n) -- CPython semantics (stub, cross-checked in conformance)."""
        ctx.note("stub:slice.indices=PySlice_AdjustIndices")
        a, b, st = A.slice_adjust(ctx, sl, n)
        return (a, b, st)

    # ------------------------------------------------------------------ operators on scalars / containers
    def unop(self, op, v, ctx):
        if isinstance(v, Cx):
            if isinstance(op, ast.USub):
                return Cx(V.neg(v.re), V.neg(v.im))
            if isinstance(op, ast.UAdd):
                return v
        if isinstance(v, bool) and isinstance(op, ast.USub):
            return -int(v)
        return NotImplemented

    def binop(self, op, a, b, ctx):
        if isinstance(a, bool) and not isinstance(op, (ast.BitAnd, ast.BitOr, ast.BitXor)):
            a = int(a)
        if isinstance(b, bool) and not isinstance(op, (ast.BitAnd, ast.BitOr, ast.BitXor)):
            b = int(b)
        if V.is_num(a) and V.is_num(b):
            return self.num_binop(op, a, b, ctx)
        if (isinstance(a, Cx) and (V.is_num(b) or isinstance(b, Cx))) or (isinstance(b, Cx) and V.is_num(a)):
            return self.cx_binop(op, a, b, ctx)
        ba = isinstance(a, bool) or (is_sym(a) and z3.is_bool(a))
        bb = isinstance(b, bool) or (is_sym(b) and z3.is_bool(b))
        if ba and bb:
            if isinstance(op, ast.BitAnd):
                return V.And(a, b)
            if isinstance(op, ast.BitOr):
                return V.Or(a, b)
            if isinstance(op, ast.BitXor):
                return V.Or(V.And(a, V.Not(b)), V.And(V.Not(a), b))
        if ba and V.is_num(b) or bb and V.is_num(a):
            a2 = V.Ite(a, 1, 0) if ba else a
            b2 = V.Ite(b, 1, 0) if bb else b
            return self.num_binop(op, a2, b2, ctx)
        if isinstance(a, tuple) and isinstance(b, tuple) and isinstance(op, ast.Add):
            return a + b
        if isinstance(a, list) and isinstance(b, list) and isinstance(op, ast.Add):
            return a + b
        if isinstance(a, (tuple, list, str)) and isinstance(b, int) and isinstance(op, ast.Mult):
            return a * b
        if isinstance(b, (tuple, list, str)) and isinstance(a, int) and isinstance(op, ast.Mult):
            return b * a
        if isinstance(a, (tuple, list, str)) and V.is_intlike(b) and isinstance(op, ast.Mult):
            raise Unsupported("sequence repetition by a symbolic count")
        if isinstance(a, str) and isinstance(b, str) and isinstance(op, ast.Add):
            return a + b
        if isinstance(a, str) and isinstance(op, ast.Mod):
            return "<%-format>"
        return NotImplemented

    U_ROUND = Fraction(1, 2 ** 53)

    def mu_round(self, ctx, exact):
        """Model M_u (DESIGN 3.3): a rounded binary64 operation returns exact*(1+d), |d| <= 2^-53
        (no overflow/underflow).  Over-approximates round-to-nearest-even."""
        if not is_sym(exact):
            return exact
        r = ctx.fresh("rn")
        ax = z3.If(exact >= 0, exact, -exact)
        u = z3.Q(1, 2 ** 53)
        ctx.assume(z3.And(r - exact <= u * ax, exact - r <= u * ax), why="M_u: rounded operation")
        # sound side facts of round-to-nearest: monotone, and the identity on small integers
        # (ground instances at the anchors -1, 0, 1)
        for k in (-1, 0, 1):
            ctx.assume(z3.And(z3.Implies(exact >= k, r >= k), z3.Implies(exact <= k, r <= k)), why="M_u: RN monotone / exact on small integers")
        ctx.note("model-M_u: each float operation has relative error <= 2^-53; integer-valued operands below 2^53 add exactly")
        return r

    def num_binop(self, op, a, b, ctx):
        both_int = V.is_intlike(a) and V.is_intlike(b)
        if getattr(ctx, "mu", False) and not both_int and isinstance(op, (ast.Add, ast.Sub, ast.Mult, ast.Div)):
            if isinstance(op, (ast.Add, ast.Sub)):
                ex = V.add(a, b) if isinstance(op, ast.Add) else V.sub(a, b)
                r = self.mu_round(ctx, V.R(V.Z(ex)) if is_sym(ex) else ex)
                if is_sym(r) and is_sym(ex):
                    # sound facts about binary64 addition of two floats p - q (q = -b for a sum): exact when an
                    # operand is zero, and exact when q/2 <= p <= 2q (Sterbenz' lemma; holds with subnormals)
                    p_ = V.R(V.Z(a))
                    q_ = V.R(V.Z(V.neg(b) if isinstance(op, ast.Add) else b))
                    exz = V.R(V.Z(ex))
                    ctx.assume(z3.Implies(z3.Or(p_ == 0, q_ == 0), r == exz), why="M_u: adding zero is exact")
                    ctx.assume(z3.Implies(z3.Or(z3.And(q_ >= 0, q_ <= 2 * p_, p_ <= 2 * q_), z3.And(q_ <= 0, q_ >= 2 * p_, p_ >= 2 * q_)), r == exz),
                               why="M_u: Sterbenz lemma (difference of two floats within a factor two of each other is exact)")
                    ctx.note("model-M_u side facts: x + 0 exact; Sterbenz lemma")
                return r
            if isinstance(op, ast.Mult):
                return self.mu_round(ctx, V.R(V.Z(V.mul(a, b))) if is_sym(V.mul(a, b)) else V.mul(a, b))
            if ctx.branch(V.eq(b, 0), "division by zero"):
                raise PyExc("ZeroDivisionError", "float division by zero")
            q = V.div(ctx, a, b)
            return self.mu_round(ctx, V.R(V.Z(q)) if is_sym(q) else q)
        if isinstance(op, ast.Add):
            return V.simp(V.add(a, b))
        if isinstance(op, ast.Sub):
            return V.simp(V.sub(a, b))
        if isinstance(op, ast.Mult):
            return V.simp(V.mul(a, b))
        if isinstance(op, ast.Div):
            if ctx.branch(V.eq(b, 0), "division by zero"):
                raise PyExc("ZeroDivisionError", "division by zero")
            return V.div(ctx, a, b)
        if isinstance(op, ast.FloorDiv):
            if ctx.branch(V.eq(b, 0), "division by zero"):
                raise PyExc("ZeroDivisionError", "integer division by zero")
            if both_int:
                return V.simp(V.floordiv_int(ctx, a, b))
            return V.floor_real(ctx, V.div(ctx, a, b))
        if isinstance(op, ast.Mod):
            if ctx.branch(V.eq(b, 0), "modulo by zero"):
                raise PyExc("ZeroDivisionError", "modulo by zero")
            if both_int:
                return V.simp(V.mod_int(ctx, a, b))
            q = V.floor_real(ctx, V.div(ctx, a, b))
            return V.sub(a, V.mul(q, b))
        if isinstance(op, ast.Pow):
            if isinstance(b, int) and not is_sym(b):
                if b >= 0:
                    r = 1
                    for _ in range(b):
                        r = V.mul(r, a)
                    return V.simp(r)
                r = 1
                for _ in range(-b):
                    r = V.mul(r, a)
                if ctx.branch(V.eq(a, 0), "0 ** negative"):
                    raise PyExc("ZeroDivisionError", "0 to a negative power")
                return V.div(ctx, 1, r)
            if not is_sym(a) and a == 10 and both_int:
                raise Unsupported("10 ** symbolic")
            raise Unsupported("pow with symbolic exponent")
        if both_int:
            if isinstance(op, ast.RShift):
                if not is_sym(b) and b >= 0:
                    return V.simp(V.floordiv_int(ctx, a, 2 ** b))
                raise Unsupported(">> by symbolic amount")
            if isinstance(op, ast.LShift):
                if not is_sym(b) and b >= 0:
                    return V.simp(V.mul(a, 2 ** b))
                raise Unsupported("<< by symbolic amount")
            if isinstance(op, ast.BitAnd):
                if not is_sym(b) and b == 1:
                    return V.simp(V.mod_int(ctx, a, 2))    # x & 1 == x mod 2 (also for negative x in Python)
                if not is_sym(a) and a == 1:
                    return V.simp(V.mod_int(ctx, b, 2))
                if not is_sym(a) and not is_sym(b):
                    return a & b
                raise Unsupported("& on symbolic ints")
            if isinstance(op, (ast.BitOr, ast.BitXor)):
                if not is_sym(a) and not is_sym(b):
                    return a | b if isinstance(op, ast.BitOr) else a ^ b
                raise Unsupported("| ^ on symbolic ints")
        return NotImplemented

    def cx_binop(self, op, a, b, ctx):
        if isinstance(op, ast.Add):
            return V.cadd(a, b)
        if isinstance(op, ast.Sub):
            return V.csub(a, b)
        if isinstance(op, ast.Mult):
            return V.cmul(a, b)
        if isinstance(op, ast.Div):
            b = Cx.of(b)
            a = Cx.of(a)
            if not isinstance(b.im, (int, Fraction)) or b.im != 0:
                den = V.add(V.mul(b.re, b.re), V.mul(b.im, b.im))
                num = V.cmul(a, V.cconj(b))
                return Cx(V.div(ctx, num.re, den), V.div(ctx, num.im, den))
            return Cx(V.div(ctx, a.re, b.re), V.div(ctx, a.im, b.re))
        if isinstance(op, ast.Pow) and isinstance(b, int):
            r = Cx(1, 0)
            for _ in range(b):
                r = V.cmul(r, a)
            return r
        return NotImplemented

    def compare(self, op, a, b, ctx):
        if isinstance(a, bool) and V.is_num(b):
            a = int(a)
        if isinstance(b, bool) and V.is_num(a):
            b = int(b)
        if V.is_num(a) and V.is_num(b):
            return V.simp(self.num_compare(op, a, b))
        if isinstance(op, (ast.Eq, ast.NotEq)):
            r = self.generic_eq(a, b, ctx)
            if r is NotImplemented:
                return NotImplemented
            return r if isinstance(op, ast.Eq) else V.Not(r)
        if isinstance(a, str) and isinstance(b, str):
            return {ast.Lt: a < b, ast.LtE: a <= b, ast.Gt: a > b, ast.GtE: a >= b}[type(op)]
        if isinstance(a, (tuple, list)) and isinstance(b, (tuple, list)):
            raise Unsupported("ordering comparison of sequences")
        return NotImplemented

    def num_compare(self, op, a, b):
        if isinstance(op, ast.Lt):
            return V.lt(a, b)
        if isinstance(op, ast.LtE):
            return V.le(a, b)
        if isinstance(op, ast.Gt):
            return V.lt(b, a)
        if isinstance(op, ast.GtE):
            return V.le(b, a)
        if isinstance(op, ast.Eq):
            return V.eq(a, b)
        if isinstance(op, ast.NotEq):
            return V.ne(a, b)
        raise Unsupported("num compare op")

    def generic_eq(self, a, b, ctx):
        if a is None or b is None:
            if isinstance(a, (SArr, Qty)) or isinstance(b, (SArr, Qty)):
                return NotImplemented
            return a is None and b is None
        if isinstance(a, NotImpl) or isinstance(b, NotImpl):
            return a is b
        ba = isinstance(a, bool) or (is_sym(a) and z3.is_bool(a))
        bb = isinstance(b, bool) or (is_sym(b) and z3.is_bool(b))
        if ba and bb:
            if isinstance(a, bool) and isinstance(b, bool):
                return a == b
            return V.Z(a) == V.Z(b)
        if isinstance(a, str) or isinstance(b, str):
            if isinstance(a, (SArr, Qty)) or isinstance(b, (SArr, Qty)):
                return NotImplemented
            return isinstance(a, str) and isinstance(b, str) and a == b
        if isinstance(a, (tuple, list)) and isinstance(b, (tuple, list)):
            if type(a) is not type(b) or len(a) != len(b):
                return False
            res = True
            for x, y in zip(a, b):
                r = self.compare(ast.Eq(), x, y, ctx)
                if r is NotImplemented:
                    r = self.interp.identical(x, y)
                res = V.And(res, r)
            return res
        if isinstance(a, Cx) or isinstance(b, Cx):
            if (isinstance(a, Cx) or V.is_num(a)) and (isinstance(b, Cx) or V.is_num(b)):
                return V.ceq(a, b)
        if isinstance(a, DType) and isinstance(b, DType):
            return a == b
        if isinstance(a, (ClassRef, ExtType, NS, Stub, FuncVal)) or isinstance(b, (ClassRef, ExtType, NS, Stub, FuncVal)):
            return self.interp.identical(a, b)
        if isinstance(a, dict) and isinstance(b, dict):
            if set(a) != set(b):
                return False
            res = True
            for k in a:
                res = V.And(res, self.compare(ast.Eq(), a[k], b[k], ctx))
            return res
        if isinstance(a, SSlice) and isinstance(b, SSlice):
            return self.generic_eq((a.start, a.stop, a.step), (b.start, b.stop, b.step), ctx)
        return NotImplemented

    def contains(self, container, x, ctx):
        return NotImplemented

    def getitem(self, base, idx, ctx):
        if isinstance(base, (tuple, list, str)):
            if isinstance(idx, SSlice):
                parts = [idx.start, idx.stop, idx.step]
                if all(p is None or isinstance(p, int) for p in parts):
                    return base[slice(*parts)]
                raise Unsupported("symbolic slice of a Python sequence")
            if isinstance(idx, bool):
                idx = int(idx)
            if isinstance(idx, int):
                try:
                    return base[idx]
                except IndexError:
                    raise PyExc("IndexError", "sequence index out of range")
            if V.is_intlike(idx):
                n = len(base)
                if ctx.branch(V.Or(V.lt(idx, -n), V.le(n, idx)), "sequence index out of range"):
                    raise PyExc("IndexError", "sequence index out of range")
                for k in range(-n, n):
                    if ctx.branch(V.eq(idx, k), f"index == {k}"):
                        return base[k]
                raise Unsupported("unreachable")
            raise PyExc("TypeError", "indices must be integers or slices")
        if isinstance(base, dict):
            if isinstance(idx, (str, int, tuple)) or idx is None:
                if idx in base:
                    return base[idx]
                raise PyExc("KeyError", repr(idx))
            raise Unsupported("dict lookup with symbolic key")
        return NotImplemented

    def setitem(self, base, idx, val, ctx):
        if isinstance(base, (dict, list)):
            if id(base) in ctx.frozen:
                ctx.oblige(f"frame.container-store[{ctx.frozen[id(base)]}]", False, "frame")
            if isinstance(base, dict):
                if not isinstance(idx, (str, int, tuple)):
                    raise Unsupported("dict store with symbolic key")
                base[idx] = val
                return True
            if isinstance(idx, int):
                try:
                    base[idx] = val
                except IndexError:
                    raise PyExc("IndexError", "list assignment index out of range")
                return True
            raise Unsupported("list store with symbolic index")
        return False

    def inplace(self, cur, op, rhs, ctx):
        """Return True when the augmented assignment mutated `cur` in place."""
        if isinstance(cur, list) and isinstance(op, ast.Add):
            if id(cur) in ctx.frozen:
                ctx.oblige(f"frame.container-mutation[{ctx.frozen[id(cur)]}.+=]", False, "frame")
            cur.extend(self.interp.iterate(rhs, ctx))
            return True
        return False


def _raise(kind, msg=""):
    raise PyExc(kind, msg)
