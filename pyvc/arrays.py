"""Array algebra on SArr (DESIGN 2.3): structural NumPy semantics as *assumed* stubs.

Used both by the library stubs (what the real code calls) and by the spec functions of the
sidecar contracts.  View/copy behaviour is declared here (owner tags) and cross-checked
against the real library by stubs_conformance.py."""
from __future__ import annotations
import itertools
from fractions import Fraction
import z3
from . import values as V
from .values import SArr, SSlice, Cx, DType, PyExc, is_sym, conc, Ellip
from .ctx import Unsupported


# --------------------------------------------------------------------------- slices

def slice_adjust(ctx, sl: SSlice, N):
    """CPython PySlice_AdjustIndices for step > 0 (or None).  Returns (a, b, st).
    Raises ValueError for step == 0; negative steps fork to Unsupported (never used with
    symbolic negative steps in the repo; `_time_slice` asserts step > 0 *after* this)."""
    st = 1 if sl.step is None else sl.step
    if not V.is_intlike(st) and not isinstance(st, bool):
        raise PyExc("TypeError", "slice indices must be integers or None")
    if ctx.branch(V.eq(st, 0), "slice step == 0"):
        raise PyExc("ValueError", "slice step cannot be zero")
    neg = ctx.branch(V.lt(st, 0), "slice step < 0")

    def clamp(x, lo, hi):
        return V.vmax(lo, V.vmin(x, hi))

    def norm(x, default, lo, hi):
        if x is None:
            return default
        if isinstance(x, bool):
            x = int(x)
        if not V.is_intlike(x):
            raise PyExc("TypeError", "slice indices must be integers or None")
        x2 = V.Ite(V.lt(x, 0), V.add(x, N), x)
        return clamp(x2, lo, hi)
    if not neg:
        a = norm(sl.start, 0, 0, N)
        b = norm(sl.stop, N, 0, N)
    else:
        a = norm(sl.start, V.sub(N, 1), -1, V.sub(N, 1))
        b = norm(sl.stop, -1, -1, V.sub(N, 1))
    return V.simp(a), V.simp(b), st


def slice_len(ctx, a, b, st):
    """len(range(a, b, st)) for st > 0."""
    d = V.sub(b, a)
    if not is_sym(st):
        if st == 1:
            return V.simp(V.vmax(0, d))
        if st > 1:
            if not is_sym(d):
                return max(0, -((-d) // st))
            return V.simp(V.Ite(V.le(d, 0), 0, (V.Z(d) + (st - 1)) / st))
        if st < 0:
            d2 = V.sub(a, b)
            if st == -1:
                return V.simp(V.vmax(0, d2))
            return V.simp(V.Ite(V.le(d2, 0), 0, (V.Z(d2) + (-st - 1)) / (-st)))
    # one symbol per (a, b, step): the length is a function of its arguments
    cache = ctx.__dict__.setdefault("slice_len_cache", {})
    key = (V.Z(d).sexpr(), V.Z(st).sexpr())
    if key in cache and any(f is cache[key][1] for f in ctx.pc):
        return cache[key][0]
    L = ctx.fresh("len", "int")
    d, stz = V.Z(d), V.Z(st)
    fact = z3.And(L >= 0, z3.If(d <= 0, L == 0, z3.And((L - 1) * stz < d, d <= L * stz)))
    ctx.assume(fact, why="slice-len-def")
    cache[key] = (L, ctx.pc[-1])
    return L
    ctx.assume(z3.And(L >= 0, z3.If(d <= 0, L == 0, z3.And((L - 1) * stz < d, d <= L * stz))), why="slice-len-def")
    return L


# --------------------------------------------------------------------------- indexing

def normalize_index(A: SArr, idx):
    if not isinstance(idx, tuple):
        idx = (idx,)
    n_real = sum(1 for i in idx if i is not None and not isinstance(i, Ellip))
    if n_real > A.ndim:
        raise PyExc("IndexError", "too many indices for array")
    out = []
    seen_ell = False
    for i in idx:
        if isinstance(i, Ellip):
            if seen_ell:
                raise PyExc("IndexError", "an index can only have a single ellipsis")
            seen_ell = True
            out.extend([SSlice()] * (A.ndim - n_real))
        else:
            out.append(i)
    if not seen_ell:
        out.extend([SSlice()] * (A.ndim - n_real))
    return out


def getitem(ctx, A: SArr, idx):
    """Basic indexing: ints, slices, None, Ellipsis.  Result is a *view* (same owner)."""
    items = normalize_index(A, idx)
    if any(isinstance(i, SArr) for i in items):
        return fancy_getitem(ctx, A, items)
    new_shape = []
    maps = []      # per source axis: ('slice', a, st, outpos) | ('int', k)
    outpos = 0
    ax = 0
    for it in items:
        if it is None:
            new_shape.append(1)
            outpos += 1
            continue
        N = A.shape[ax]
        if isinstance(it, SSlice):
            a, b, st = slice_adjust(ctx, it, N)
            L = slice_len(ctx, a, b, st)
            maps.append(("slice", a, st, outpos))
            new_shape.append(L)
            outpos += 1
        elif V.is_intlike(it) or isinstance(it, bool):
            k = int(it) if isinstance(it, bool) else it
            if ctx.branch(V.Or(V.lt(k, V.neg(N)), V.le(N, k)), "index out of bounds"):
                raise PyExc("IndexError", "index out of bounds")
            k2 = V.Ite(V.lt(k, 0), V.add(k, N), k)
            maps.append(("int", V.simp(k2)))
        else:
            raise Unsupported(f"index element {it!r}")
        ax += 1
    src = A

    def elem(ix, maps=maps, src=src):
        full = []
        for m in maps:
            if m[0] == "int":
                full.append(m[1])
            else:
                _, a, st, pos = m
                full.append(V.add(a, V.mul(ix[pos], st)))
        return src.elem(tuple(full))
    return SArr(new_shape, elem, A.dtype, A.backend, owner=A.owner)


def fancy_getitem(ctx, A, items):
    # boolean mask along one axis with all other axes full slices: z[:, mask]
    raise Unsupported("advanced indexing")


def region_pred(ctx, A: SArr, idx):
    """Predicate (ix -> Bool) describing which elements of A a basic index selects, and the
    shape of the selection (for assignment)."""
    items = normalize_index(A, idx)
    preds = []
    ax = 0
    for it in items:
        if it is None:
            continue
        N = A.shape[ax]
        if isinstance(it, SSlice):
            a, b, st = slice_adjust(ctx, it, N)
            L = slice_len(ctx, a, b, st)
            if not is_sym(st) and st == 1:
                preds.append((ax, lambda k, a=a, L=L: V.And(V.le(a, k), V.lt(k, V.add(a, L)))))
            else:
                def p(k, a=a, L=L, st=st):
                    return V.And(V.le(a, k), V.lt(k, V.add(a, V.mul(L, st))),
                                 V.eq(V.mod_int(ctx, V.sub(k, a), st), 0))
                preds.append((ax, p))
        elif V.is_intlike(it):
            if ctx.branch(V.Or(V.lt(it, V.neg(N)), V.le(N, it)), "index out of bounds"):
                raise PyExc("IndexError", "index out of bounds")
            k2 = V.simp(V.Ite(V.lt(it, 0), V.add(it, N), it))
            preds.append((ax, lambda k, k2=k2: V.eq(k, k2)))
        else:
            raise Unsupported(f"index element {it!r} in assignment")
        ax += 1

    def pred(ix):
        return V.And(*[p(ix[a]) for a, p in preds])
    return pred


def setitem(ctx, A: SArr, idx, val):
    """In-place A[idx] = val for scalar val (functional update of the element function)."""
    if isinstance(val, SArr):
        sel = getitem(ctx, A, idx)
        return setitem_array(ctx, A, idx, sel, val)
    pred = region_pred(ctx, A, idx)
    old = A.elem
    cv = cast_scalar(val, A.dtype)

    def elem(ix):
        return V.Ite(pred(ix), cv, old(ix)) if not A.is_complex else V.Ite(pred(ix), Cx.of(cv), Cx.of(old(ix)))
    A.elem = elem
    A.written = True


def setitem_array(ctx, A, idx, sel, val):
    raise Unsupported("array-valued slice assignment")


def cast_scalar(v, dtype: DType):
    if dtype.kind == "c":
        return Cx.of(v)
    if isinstance(v, Cx):
        return v.re
    return v


# --------------------------------------------------------------------------- broadcasting / elementwise

def _same_dim(ctx, d1, d2):
    if not is_sym(d1) and not is_sym(d2):
        return d1 == d2
    if is_sym(d1) and is_sym(d2) and d1.eq(d2):
        return True
    return ctx.branch(V.eq(d1, d2), "dims equal")


def broadcast_shapes(ctx, *shapes):
    nd = max(len(s) for s in shapes)
    padded = [(1,) * (nd - len(s)) + tuple(s) for s in shapes]
    out = []
    flags = [[False] * nd for _ in shapes]     # True where operand axis is broadcast (index 0)
    for ax in range(nd):
        dims = [p[ax] for p in padded]
        cur = None
        cur_i = None
        for i, d in enumerate(dims):
            if not is_sym(d) and d == 1:
                continue
            if cur is None:
                cur, cur_i = d, i
            elif not _same_dim(ctx, cur, d):
                # one of them must be 1
                if is_sym(d) and ctx.branch(V.eq(d, 1), "bcast dim == 1"):
                    flags[i][ax] = True
                    continue
                if is_sym(cur) and ctx.branch(V.eq(cur, 1), "bcast dim == 1"):
                    flags[cur_i][ax] = True
                    cur, cur_i = d, i
                    continue
                raise PyExc("ValueError", "operands could not be broadcast together")
        if cur is None:
            cur = 1
        for i, d in enumerate(dims):
            if not is_sym(d) and d == 1 and not (not is_sym(cur) and cur == 1):
                flags[i][ax] = True
        out.append(cur)
    return tuple(out), padded, flags


def elementwise(ctx, fn, operands, dtype, backend=None):
    """fn over scalars applied to broadcast operands (SArr or scalars)."""
    arrs = [o for o in operands if isinstance(o, SArr)]
    shape, padded, flags = broadcast_shapes(ctx, *[a.shape for a in arrs])
    nd = len(shape)
    info = []
    k = 0
    for o in operands:
        if isinstance(o, SArr):
            info.append((o, nd - o.ndim, flags[k]))
            k += 1
        else:
            info.append((o, None, None))

    def elem(ix):
        vals = []
        for o, off, fl in info:
            if off is None:
                vals.append(o)
            else:
                sub = tuple(0 if fl[ax] else ix[ax] for ax in range(off, nd))
                vals.append(o.elem(sub))
        return fn(*vals)
    if backend is None:
        backend = "dask" if any(a.backend == "dask" for a in arrs) else "numpy"
    return SArr(shape, elem, dtype, backend)


def scalar_dtype(v):
    if isinstance(v, Cx):
        return DType("complex128")
    if isinstance(v, bool) or (is_sym(v) and z3.is_bool(v)):
        return DType("bool")
    if V.is_intlike(v):
        return DType("int64")
    return DType("float64")


def promote(operands, force_float=False):
    """NumPy 2 promotion (NEP 50): Python scalars are weak."""
    arrs = [o.dtype for o in operands if isinstance(o, SArr)]
    if not arrs:
        dt = V.result_dtype(*[scalar_dtype(o) for o in operands])
    else:
        dt = V.result_dtype(*arrs)
        for o in operands:
            if isinstance(o, SArr):
                continue
            sk = scalar_dtype(o).kind
            if sk == "c" and dt.kind != "c":
                dt = DType("complex64") if dt.name in ("float32", "float16") else DType("complex128")
            elif sk == "f" and dt.kind in "biu":
                dt = DType("float64")
            elif sk == "i" and dt.kind == "b":
                dt = DType("int64")
    if force_float and dt.kind in "biu":
        dt = DType("float64")
    return dt


# --------------------------------------------------------------------------- structural ops

def take(ctx, A: SArr, index, axis):
    axis = norm_axis(A, axis)
    N = A.shape[axis]
    if ctx.branch(V.Or(V.lt(index, V.neg(N)), V.le(N, index)), "take index out of bounds"):
        raise PyExc("IndexError", "index out of bounds")
    k = V.simp(V.Ite(V.lt(index, 0), V.add(index, N), index))
    shape = A.shape[:axis] + A.shape[axis + 1:]
    return SArr(shape, lambda ix: A.elem(ix[:axis] + (k,) + ix[axis:]), A.dtype, A.backend)


def norm_axis(A, axis, extra=0):
    nd = A.ndim + extra
    if not isinstance(axis, int):
        raise Unsupported("symbolic axis")
    if axis < -nd or axis >= nd:
        raise PyExc("ValueError", "axis out of bounds")   # numpy.exceptions.AxisError ⊂ ValueError, IndexError
    return axis % nd


def stack(ctx, arrs, axis=0):
    arrs = list(arrs)
    if not arrs:
        raise PyExc("ValueError", "need at least one array to stack")
    a0 = arrs[0]
    for a in arrs[1:]:
        if a.ndim != a0.ndim or not all(_same_dim(ctx, x, y) for x, y in zip(a.shape, a0.shape)):
            raise PyExc("ValueError", "all input arrays must have the same shape")
    axis = norm_axis(a0, axis, 1)
    shape = a0.shape[:axis] + (len(arrs),) + a0.shape[axis:]
    dt = V.result_dtype(*[a.dtype for a in arrs])

    def elem(ix):
        j = ix[axis]
        rest = ix[:axis] + ix[axis + 1:]
        if not is_sym(j):
            return arrs[j].elem(rest)
        out = arrs[-1].elem(rest)
        for k in range(len(arrs) - 2, -1, -1):
            out = V.Ite(V.eq(j, k), arrs[k].elem(rest), out)
        return out
    backend = "dask" if any(a.backend == "dask" for a in arrs) else "numpy"
    return SArr(shape, elem, dt, backend)


def concatenate(ctx, arrs, axis=0):
    arrs = list(arrs)
    if not arrs:
        raise PyExc("ValueError", "need at least one array to concatenate")
    a0 = arrs[0]
    axis = norm_axis(a0, axis)
    for a in arrs[1:]:
        if a.ndim != a0.ndim:
            raise PyExc("ValueError", "all the input array dimensions must match")
        for ax in range(a0.ndim):
            if ax != axis and not _same_dim(ctx, a.shape[ax], a0.shape[ax]):
                raise PyExc("ValueError", "all the input array dimensions except for the concatenation axis must match")
    offs = [0]
    for a in arrs:
        offs.append(V.simp(V.add(offs[-1], a.shape[axis])))
    shape = a0.shape[:axis] + (offs[-1],) + a0.shape[axis + 1:]
    dt = V.result_dtype(*[a.dtype for a in arrs])

    def elem(ix):
        j = ix[axis]
        out = None
        for k in range(len(arrs) - 1, -1, -1):
            sub = ix[:axis] + (V.sub(j, offs[k]),) + ix[axis + 1:]
            e = arrs[k].elem(sub)
            out = e if out is None else V.Ite(V.lt(j, offs[k + 1]), e, out)
        return out
    backend = "dask" if any(a.backend == "dask" for a in arrs) else "numpy"
    return SArr(shape, elem, dt, backend)


def transpose(ctx, A: SArr, axes=None):
    if axes is None:
        axes = tuple(reversed(range(A.ndim)))
    axes = tuple(norm_axis(A, a) for a in axes)
    if sorted(axes) != list(range(A.ndim)):
        raise PyExc("ValueError", "axes don't match array")
    shape = tuple(A.shape[a] for a in axes)

    def elem(ix):
        src = [None] * A.ndim
        for outpos, a in enumerate(axes):
            src[a] = ix[outpos]
        return A.elem(tuple(src))
    return SArr(shape, elem, A.dtype, A.backend, owner=A.owner)


def swapaxes(ctx, A, a1, a2):
    axes = list(range(A.ndim))
    a1, a2 = norm_axis(A, a1), norm_axis(A, a2)
    axes[a1], axes[a2] = axes[a2], axes[a1]
    return transpose(ctx, A, axes)


def flip(ctx, A: SArr, axis):
    axis = norm_axis(A, axis)
    N = A.shape[axis]
    return SArr(A.shape, lambda ix: A.elem(ix[:axis] + (V.sub(V.sub(N, 1), ix[axis]),) + ix[axis + 1:]),
                A.dtype, A.backend, owner=A.owner)


def zeros(ctx, shape, dtype):
    if not isinstance(shape, tuple):
        shape = (shape,)
    dt = dtype if isinstance(dtype, DType) else DType(dtype)
    z = Cx(0, 0) if dt.kind == "c" else (False if dt.kind == "b" else 0)
    return SArr(shape, lambda ix: z, dt)


def arange(ctx, n, backend="numpy"):
    return SArr((V.simp(V.vmax(0, n)),), lambda ix: ix[0], DType("int64"), backend)


def arange_range(ctx, start, stop, step=1, backend="numpy"):
    """np.arange(start, stop[, step]) for integers (step a positive Python int)."""
    from .ctx import Unsupported
    for v in (start, stop):
        if isinstance(v, float) or (V.is_sym(v) and not z3.is_int(v)):
            raise Unsupported("np.arange over non-integers (length depends on rounding)")
    if not isinstance(step, int) or isinstance(step, bool) or step <= 0:
        raise Unsupported("np.arange step")
    span = V.sub(stop, start)
    n = span if step == 1 else V.floordiv_int(ctx, V.add(span, step - 1), step)
    return SArr((V.simp(V.vmax(0, n)),), lambda ix: V.add(start, V.mul(ix[0], step)), DType("int64"), backend)


def real_part(ctx, A: SArr):
    if A.is_complex:
        dt = DType("float32" if A.dtype.name == "complex64" else "float64")
        return SArr(A.shape, lambda ix: Cx.of(A.elem(ix)).re, dt, A.backend, owner=A.owner)
    return SArr(A.shape, A.elem, A.dtype, A.backend, owner=A.owner)


def imag_part(ctx, A: SArr):
    if A.is_complex:
        dt = DType("float32" if A.dtype.name == "complex64" else "float64")
        return SArr(A.shape, lambda ix: Cx.of(A.elem(ix)).im, dt, A.backend, owner=A.owner)
    return SArr(A.shape, lambda ix: 0, A.dtype, A.backend)   # numpy: read-only zeros for real input


def conj(ctx, A: SArr):
    if A.is_complex:
        return SArr(A.shape, lambda ix: V.cconj(A.elem(ix)), A.dtype, A.backend)
    return SArr(A.shape, A.elem, A.dtype, A.backend)


def astype(ctx, A: SArr, dtype: DType, casting="unsafe", copy=True):
    if casting == "safe" and not A.dtype.can_cast_safe(dtype):
        raise PyExc("TypeError", f"Cannot cast array data from {A.dtype} to {dtype} according to the rule 'safe'")
    if casting not in ("safe", "unsafe", "same_kind"):
        raise Unsupported(f"casting={casting}")
    if A.dtype == dtype and copy is False:
        return A
    if dtype.kind == "c":
        fn = lambda ix: Cx.of(A.elem(ix))
    elif A.is_complex:
        fn = lambda ix: Cx.of(A.elem(ix)).re       # numpy: discards imaginary part (ComplexWarning)
    elif dtype.kind in "iu" and A.dtype.kind == "f":
        fn = lambda ix: V.trunc_real(ctx, A.elem(ix))
    else:
        fn = A.elem                                  # model E: float width changes are the identity
    return SArr(A.shape, fn, dtype, A.backend)


def copy(ctx, A: SArr):
    return SArr(A.shape, A.elem, A.dtype, A.backend)


def shape_prod(shape):
    p = 1
    for d in shape:
        p = V.mul(p, d)
    return V.simp(p)


# --------------------------------------------------------------------------- equality obligations

def fresh_index(ctx, shape, tag="ix"):
    """Skolem index inside `shape` (assumed within bounds on the current path)."""
    ix = []
    for ax, d in enumerate(shape):
        if not is_sym(d) and d == 1:
            ix.append(0)
            continue
        k = ctx.fresh(f"{tag}{ax}", "int")
        ctx.assume(z3.And(k >= 0, V.Z(k) < V.Z(d)), why="skolem-index")
        if is_sym(d):
            ctx.fold_point(k, d)       # extrema over a range of this length are bounded at this index too
        ix.append(k)
    return tuple(ix)


def broadcast_to(ctx, arr: SArr, shape):
    """np.broadcast_to: read-only view with the requested shape."""
    shape = tuple(shape)
    if arr.ndim > len(shape):
        raise PyExc("ValueError", "input operand has more dimensions than allowed by the axis remapping")
    off = len(shape) - arr.ndim
    flags = []
    for ax, d in enumerate(arr.shape):
        tgt = shape[off + ax]
        if not is_sym(d) and d == 1:
            flags.append(not (not is_sym(tgt) and tgt == 1))
        else:
            if not _same_dim(ctx, d, tgt):
                raise PyExc("ValueError", "operands could not be broadcast together with remapped shapes")
            flags.append(False)

    def elem(ix):
        return arr.elem(tuple(0 if fl else ix[off + ax] for ax, fl in enumerate(flags)))
    return SArr(shape, elem, arr.dtype, arr.backend, owner=arr.owner)
