"""Symbolic inputs: signals built *through the real constructors* of /repo (so that the class
invariant is established by the code, not assumed), with a ghost record of the symbolic
components for the specs."""
from __future__ import annotations
from fractions import Fraction
import z3
from . import values as V
from .values import SArr, Qty, STime, DType, Cx, Unit, Obj
from .stubs_lib import FREQ_DIM, TIME_DIM
from .ctx import Unsupported
from .values import PyExc

SIGNAL_CLASSES = ["Signal", "RadioSignal", "IntensitySignal", "FullStokesSignal", "BasebandSignal",
                  "DualPolarizationSignal"]
REQ_RANK = {"Signal": 1, "RadioSignal": 2, "IntensitySignal": 2, "FullStokesSignal": 3, "BasebandSignal": 2,
            "DualPolarizationSignal": 3}
FIXED_AX = {"FullStokesSignal": {2: 4}, "DualPolarizationSignal": {2: 2}}
DEFAULT_DTYPE = {"Signal": "float64", "RadioSignal": "float64", "IntensitySignal": "float64",
                 "FullStokesSignal": "float64", "BasebandSignal": "complex128", "DualPolarizationSignal": "complex128"}
CLASS_DTYPES = {"Signal": ["float64", "complex64"], "RadioSignal": ["float32", "complex128"],
                "IntensitySignal": ["float64", "float32"], "FullStokesSignal": ["float64", "float32"],
                "BasebandSignal": ["complex128", "complex64"], "DualPolarizationSignal": ["complex128", "complex64"]}


def sym_array(name, shape, dtype, backend="numpy", nm=None, scale=None):
    """Array with uninterpreted contents (symbolic mode) or deterministic coded contents
    (concrete mode, for replay / the bounded layer)."""
    dt = dtype if isinstance(dtype, DType) else DType(dtype)
    nd = len(shape)
    if nm is not None and nm.concrete:
        from .concrete import code_value
        if scale is not None:
            k = nm.real(f"{name}_scale", scale)
            return SArr(shape, lambda ix: code_value(name, ix, dt.kind) * k, dt, backend, name=name)
        return SArr(shape, lambda ix: code_value(name, ix, dt.kind), dt, backend, name=name)
    if dt.kind == "c":
        fre = z3.Function(f"{name}_re", *([z3.IntSort()] * nd), z3.RealSort())
        fim = z3.Function(f"{name}_im", *([z3.IntSort()] * nd), z3.RealSort())
        elem = lambda ix: Cx(fre(*[V.Z(i) for i in ix]), fim(*[V.Z(i) for i in ix])) if nd else Cx(z3.Real(f"{name}_re"), z3.Real(f"{name}_im"))
    elif dt.kind == "b":
        f = z3.Function(f"{name}_b", *([z3.IntSort()] * nd), z3.BoolSort())
        elem = lambda ix: f(*[V.Z(i) for i in ix])
    elif dt.kind in "iu":
        f = z3.Function(f"{name}_i", *([z3.IntSort()] * nd), z3.IntSort())
        elem = lambda ix: f(*[V.Z(i) for i in ix]) if nd else z3.Int(f"{name}_i")
    else:
        f = z3.Function(f"{name}_r", *([z3.IntSort()] * nd), z3.RealSort())
        elem = lambda ix: f(*[V.Z(i) for i in ix]) if nd else z3.Real(f"{name}_r")
    return SArr(shape, elem, dt, backend, name=name)


def mk_signal(interp, ctx, name, clsname, extra_rank=0, dtype=None, backend="numpy", has_t0=True,
              align="center", pol="linear", has_meta=False, min_len=0, dims=None, nm=None, sr_unit="Hz"):
    """Build a symbolic, well-formed signal of class `clsname` by running the real constructor.

    Symbolic: length N >= min_len, every free sample dimension >= 1, sample_rate > 0,
    start_time (when has_t0), center_freq, chan_bw > 0 (non-baseband).  Concrete per instance:
    class, rank, dtype tag, backend, presence of start_time/meta, alignment and pol strings."""
    if nm is None:
        from .concrete import SymNamer
        nm = SymNamer()
    cls = interp.repo.get_class(f"pulsarbat.core.{clsname}")
    rank = REQ_RANK[clsname] + extra_rank
    shape = []
    for ax in range(rank):
        fixed = FIXED_AX.get(clsname, {}).get(ax)
        if dims and ax in dims:
            shape.append(dims[ax])
        elif fixed is not None:
            shape.append(fixed)
        else:
            d = nm.int(f"{name}_N" if ax == 0 else f"{name}_S{ax}")
            ctx.assume(V.le((min_len if ax == 0 else 1), d), why="input-wf")
            shape.append(d)
    dt = dtype or DEFAULT_DTYPE[clsname]
    data = sym_array(f"{name}_data", shape, dt, backend, nm)
    sr = nm.real(f"{name}_sr")
    ctx.assume(V.lt(0, sr), why="input-wf")
    kw = {"sample_rate": Qty(sr, FREQ_DIM, interp.stubs.units[sr_unit])}
    t0 = None
    if has_t0:
        t0 = STime(nm.real(f"{name}_t0"), "isot", 9)
        kw["start_time"] = t0
    ghost = {"data": data, "sr": kw["sample_rate"], "t0": t0, "meta": None}
    if has_meta:
        ghost["meta"] = {"note": "meta-token"}
        kw["meta"] = dict(ghost["meta"])
    names = [c.name for c in cls.mro()]
    if "RadioSignal" in names:
        cf = Qty(nm.real(f"{name}_cf"), FREQ_DIM, interp.stubs.units["Hz"])
        kw["center_freq"] = cf
        ghost["cf"] = cf
        if "BasebandSignal" in names:
            ghost["bw"] = kw["sample_rate"]
        else:
            bw = nm.real(f"{name}_bw")
            ctx.assume(V.lt(0, bw), why="input-wf")
            kw["chan_bw"] = Qty(bw, FREQ_DIM, interp.stubs.units["Hz"])
            ghost["bw"] = kw["chan_bw"]
        kw["freq_align"] = align
        ghost["align_arg"] = align
    if "DualPolarizationSignal" in names:
        kw["pol_type"] = pol
        ghost["pol"] = pol
    try:
        obj = interp.instantiate(cls, (data,), kw, ctx)
    except PyExc as e:
        raise Unsupported(f"harness: real constructor rejected a well-formed {clsname}: {e.kind} {e.msg}")
    obj.ghost = ghost
    return obj


def sym_index_int(name):
    return z3.Int(name)


def opt_int(ctx, name, present):
    return z3.Int(name) if present else None
