"""Value model shared by the symbolic interpreter (real /repo AST) and the spec functions
(sidecar contracts).  Scalars are Python int/bool/Fraction/str/None when concrete and z3
terms when symbolic; floats are modelled as exact reals (model E, see DESIGN.md 3.3)."""
from __future__ import annotations
import itertools
from fractions import Fraction
import z3

# --------------------------------------------------------------------------- scalars


def is_sym(v):
    return isinstance(v, z3.ExprRef)


def is_num(v):
    return (isinstance(v, (int, Fraction, float)) and not isinstance(v, bool)) or (
        is_sym(v) and z3.is_arith(v))


def is_intlike(v):
    if isinstance(v, bool):
        return False
    if isinstance(v, int):
        return True
    if isinstance(v, Fraction):
        return False
    return is_sym(v) and z3.is_int(v)


def Z(v):
    """Coerce a scalar to a z3 term."""
    if is_sym(v):
        return v
    if isinstance(v, bool):
        return z3.BoolVal(v)
    if isinstance(v, int):
        return z3.IntVal(v)
    if isinstance(v, Fraction):
        return z3.Q(v.numerator, v.denominator)
    if isinstance(v, float):
        f = Fraction(v)
        return z3.Q(f.numerator, f.denominator)
    raise TypeError(f"cannot coerce {v!r} to z3")


def R(v):
    """Coerce to a Real-sorted z3 term (or keep a concrete number)."""
    if is_sym(v):
        return z3.ToReal(v) if z3.is_int(v) else v
    return v


def conc(v):
    """Concrete Python value of a z3 numeral/bool if it is one, else the term itself."""
    if not is_sym(v):
        return v
    if z3.is_bool(v):
        s = z3.simplify(v)
        if z3.is_true(s):
            return True
        if z3.is_false(s):
            return False
        return s
    if z3.is_int_value(v):
        return v.as_long()
    if z3.is_rational_value(v):
        return Fraction(v.numerator_as_long(), v.denominator_as_long())
    return v


def simp(v):
    if is_sym(v):
        return conc(z3.simplify(v))
    return v


def _both_conc(a, b):
    return not is_sym(a) and not is_sym(b)


def _zz(a, b):
    a, b = Z(a), Z(b)
    if z3.is_arith(a) and z3.is_arith(b) and a.sort() != b.sort():
        a, b = R(a), R(b)
    return a, b


def add(a, b):
    if _both_conc(a, b):
        return a + b
    a, b = _zz(a, b)
    return a + b


def sub(a, b):
    if _both_conc(a, b):
        return a - b
    a, b = _zz(a, b)
    return a - b


def mul(a, b):
    if _both_conc(a, b):
        return a * b
    if not is_sym(a) and a == 0 or not is_sym(b) and b == 0:
        return 0
    if not is_sym(a) and a == 1:
        return b
    if not is_sym(b) and b == 1:
        return a
    a, b = _zz(a, b)
    return a * b


def neg(a):
    return -a


class Facts:
    """Side facts (definitions of division results, constants) generated while building
    terms.  They are *definitional* (each introduces a fresh symbol constrained by an
    equation that always has a solution when the divisor is non-zero), so adding them to
    the hypotheses of an obligation is conservative.  The divisor != 0 safety condition is
    recorded separately as an obligation by the interpreter."""

    def __init__(self):
        self.facts = []
        self.counter = itertools.count()
        self.div_cache = {}
        self.consts = {}

    def fresh(self, prefix, sort="real"):
        n = f"{prefix}!{next(self.counter)}"
        return z3.Real(n) if sort == "real" else z3.Int(n) if sort == "int" else z3.Bool(n)


def div(ctx, a, b):
    """True division a / b without emitting a division term (DESIGN 2.5)."""
    if _both_conc(a, b):
        if b == 0:
            if CONCRETE_MODE:      # NumPy semantics on the concrete side: inf / nan, no exception
                fa = float(a)
                return float("nan") if fa == 0 or fa != fa else (float("inf") if fa > 0 else float("-inf"))
            raise ZeroDivisionError
        return Fraction(a) / Fraction(b) if not isinstance(a, float) and not isinstance(b, float) else a / b
    if not is_sym(b):
        if b == 0:
            raise ZeroDivisionError
        return mul(a, Fraction(1, 1) / Fraction(b))
    if b.eq(SQRT2):
        return mul(a, HSQRT2)          # division-free encoding (DESIGN 2.5)
    # a / b := a * inv(b) with the guarded definition b != 0 => b * inv(b) == 1; all divisions by
    # the same denominator then agree by polynomial identity (no division terms, DESIGN 2.5)
    b = z3.simplify(Z(b), som=True)      # canonical polynomial form: equal denominators share one inverse symbol
    if z3.is_rational_value(b) or z3.is_int_value(b):
        cb = conc(b)
        if cb == 0:
            raise ZeroDivisionError
        return mul(a, Fraction(1) / Fraction(cb))
    key = b.sexpr()      # structural key (z3 AST ids are recycled after garbage collection)
    iv = ctx.div_cache.get(key)
    if iv is None:
        iv = ctx.fresh("inv")
        ctx.div_cache[key] = iv
        ctx.assume(z3.Implies(R(Z(b)) != 0, R(Z(b)) * iv == 1), why="inv-def")
    return mul(a, iv)


def lt(a, b):
    if _both_conc(a, b):
        return a < b
    a, b = _zz(a, b)
    return a < b


def le(a, b):
    if _both_conc(a, b):
        return a <= b
    a, b = _zz(a, b)
    return a <= b


CONC_TOL = None     # when set (concrete replay of theorems on float results): approximate equality


def eq(a, b):
    if _both_conc(a, b):
        if CONC_TOL is not None and is_num(a) and is_num(b) and not (isinstance(a, int) and isinstance(b, int)):
            fa, fb = float(a), float(b)
            return abs(fa - fb) <= CONC_TOL * max(abs(fa), abs(fb)) + 1e-300
        return a == b
    if a is None or b is None:
        return False
    if isinstance(a, str) or isinstance(b, str):
        return False
    a, b = _zz(a, b)
    return a == b


def ne(a, b):
    r = eq(a, b)
    return (not r) if isinstance(r, bool) else z3.Not(r)


def And(*xs):
    xs = [x for x in xs if x is not True]
    if any(x is False for x in xs):
        return False
    if not xs:
        return True
    if len(xs) == 1:
        return xs[0]
    return z3.And(*[Z(x) for x in xs])


def Or(*xs):
    xs = [x for x in xs if x is not False]
    if any(x is True for x in xs):
        return True
    if not xs:
        return False
    if len(xs) == 1:
        return xs[0]
    return z3.Or(*[Z(x) for x in xs])


def Not(x):
    if isinstance(x, bool):
        return not x
    return z3.Not(x)


def Implies(a, b):
    return Or(Not(a), b)


def Ite(c, a, b):
    if isinstance(c, bool):
        return a if c else b
    if isinstance(a, Cx) or isinstance(b, Cx):
        a, b = Cx.of(a), Cx.of(b)
        return Cx(Ite(c, a.re, b.re), Ite(c, a.im, b.im))
    a, b = _zz(a, b)
    return z3.If(c, a, b)


def vmin(a, b):
    if _both_conc(a, b):
        return min(a, b)
    return Ite(le(a, b), a, b)


def vmax(a, b):
    if _both_conc(a, b):
        return max(a, b)
    return Ite(le(b, a), a, b)


def floordiv_int(ctx, a, b):
    """Python // on integers (floor toward -inf)."""
    if _both_conc(a, b):
        return a // b
    if not is_sym(b) and b > 0:
        return Z(a) / b  # z3 int div: floor for positive divisor
    # general: fresh q, r with a = q*b + r, 0 <= r < |b| sign-adjusted
    q, r = ctx.fresh("fd", "int"), ctx.fresh("fr", "int")
    a, b = Z(a), Z(b)
    ctx.assume(z3.And(a == q * b + r, z3.If(b > 0, z3.And(0 <= r, r < b), z3.And(b < r, r <= 0))),
               why="floordiv-def")
    return q


def mod_int(ctx, a, b):
    if _both_conc(a, b):
        return a % b
    if not is_sym(b) and b > 0:
        return Z(a) % b
    q = floordiv_int(ctx, a, b)
    return sub(a, mul(q, b))


def ceil_real(ctx, x):
    """math.ceil on a real: the integer n with n-1 < x <= n."""
    if not is_sym(x):
        import math
        return math.ceil(x)
    if z3.is_int(x):
        return x
    n = ctx.fresh("ceil", "int")
    ctx.assume(z3.And(z3.ToReal(n) - 1 < x, x <= z3.ToReal(n)), why="ceil-def")
    return n


def floor_real(ctx, x):
    if not is_sym(x):
        import math
        return math.floor(x)
    if z3.is_int(x):
        return x
    return z3.ToInt(x)


def trunc_real(ctx, x):
    """int(x) on a real: truncation toward zero."""
    if not is_sym(x):
        return int(x)
    if z3.is_int(x):
        return x
    return z3.If(x >= 0, z3.ToInt(x), -z3.ToInt(-x))


def rint_real(ctx, x):
    """round half to even."""
    if not is_sym(x):
        return round(x)
    if z3.is_int(x):
        return x
    f = z3.ToInt(x)
    d = x - z3.ToReal(f)
    half = z3.Q(1, 2)
    return z3.If(d < half, f, z3.If(d > half, f + 1, z3.If(f % 2 == 0, f, f + 1)))


# --------------------------------------------------------------------------- complex


class Cx:
    """Complex scalar as a pair of reals."""
    __slots__ = ("re", "im")

    def __init__(self, re, im=0):
        self.re, self.im = re, im

    @staticmethod
    def of(v):
        if isinstance(v, Cx):
            return v
        if isinstance(v, complex):
            return Cx(Fraction(v.real), Fraction(v.imag))
        return Cx(v, 0)

    def __repr__(self):
        return f"Cx({self.re}, {self.im})"


def cadd(a, b):
    a, b = Cx.of(a), Cx.of(b)
    return Cx(add(a.re, b.re), add(a.im, b.im))


def csub(a, b):
    a, b = Cx.of(a), Cx.of(b)
    return Cx(sub(a.re, b.re), sub(a.im, b.im))


def cmul(a, b):
    a, b = Cx.of(a), Cx.of(b)
    return Cx(sub(mul(a.re, b.re), mul(a.im, b.im)), add(mul(a.re, b.im), mul(a.im, b.re)))


def cconj(a):
    a = Cx.of(a)
    return Cx(a.re, neg(a.im))


def ceq(a, b):
    a, b = Cx.of(a), Cx.of(b)
    return And(eq(a.re, b.re), eq(a.im, b.im))


# --------------------------------------------------------------------------- symbolic constants

PI = z3.Real("PI")
SQRT2 = z3.Real("SQRT2")
HSQRT2 = z3.Real("HSQRT2")   # 1/sqrt(2)
CONST_FACTS = [PI > z3.Q(314159, 100000), PI < z3.Q(314160, 100000),
               SQRT2 > 0, SQRT2 * SQRT2 == 2, HSQRT2 > 0, 2 * HSQRT2 * HSQRT2 == 1,
               HSQRT2 * SQRT2 == 1]
_cosf = z3.Function("ucos", z3.RealSort(), z3.RealSort())
_sinf = z3.Function("usin", z3.RealSort(), z3.RealSort())


CONCRETE_MODE = False


def cis(theta):
    """exp(i*theta) for a real theta (radians): uninterpreted unit-modulus value."""
    if CONCRETE_MODE:
        import math
        t = num(theta)
        return Cx(math.cos(t), math.sin(t))
    if not is_sym(theta):
        if theta == 0:
            return Cx(1, 0)
        theta = Z(theta)
    theta = R(theta)
    j = _quarter_turns(theta)
    if j is not None:
        # exp(i (pi/2) j) for an integer j is exactly i^j: no uninterpreted value needed, and
        # arguments that differ by whole turns (n versus n mod 4) denote the same number
        r = j % 4
        return Cx(z3.If(r == 0, z3.RealVal(1), z3.If(r == 2, z3.RealVal(-1), z3.RealVal(0))),
                  z3.If(r == 1, z3.RealVal(1), z3.If(r == 3, z3.RealVal(-1), z3.RealVal(0))))
    return Cx(_cosf(theta), _sinf(theta))


def _as_int_term(e):
    """Int term equal to the Real term e when e is structurally an integer combination, else None."""
    if z3.is_rational_value(e):
        return z3.IntVal(e.numerator_as_long()) if e.denominator_as_long() == 1 else None
    if z3.is_int_value(e):
        return e
    if z3.is_app(e):
        k = e.decl().kind()
        if k == z3.Z3_OP_TO_REAL:
            return e.arg(0)
        if k in (z3.Z3_OP_ADD, z3.Z3_OP_MUL, z3.Z3_OP_SUB, z3.Z3_OP_UMINUS):
            parts = [_as_int_term(c) for c in e.children()]
            if any(p is None for p in parts):
                return None
            if k == z3.Z3_OP_ADD:
                return z3.Sum(parts)
            if k == z3.Z3_OP_MUL:
                out = parts[0]
                for p_ in parts[1:]:
                    out = out * p_
                return out
            if k == z3.Z3_OP_SUB:
                out = parts[0]
                for p_ in parts[1:]:
                    out = out - p_
                return out
            return -parts[0]
    return None


def _quarter_turns(theta):
    """Int term j with theta == (PI/2) * j, when theta has that shape syntactically; else None."""
    try:
        if not any(True for _ in [0]) or "PI" not in theta.sexpr():
            return None
        t0 = z3.simplify(z3.substitute(theta, (PI, z3.RealVal(0))))
        if not (z3.is_rational_value(t0) and t0.numerator_as_long() == 0):
            return None
        t1 = z3.simplify(z3.substitute(theta, (PI, z3.RealVal(1))) * 2, som=True)
        if "PI" in t1.sexpr():
            return None
        lin = z3.simplify(theta - PI * (t1 / 2), som=True)
        if not (z3.is_rational_value(lin) and lin.numerator_as_long() == 0):
            return None
        return _as_int_term(t1)
    except z3.Z3Exception:
        return None


# --------------------------------------------------------------------------- structured values


class SSlice:
    def __init__(self, start=None, stop=None, step=None):
        self.start, self.stop, self.step = start, stop, step

    def __repr__(self):
        return f"SSlice({self.start},{self.stop},{self.step})"


class Ellip:
    pass


class Qty:
    """astropy Quantity: SI-normalised magnitude (scalar or SArr) and a concrete dimension.
    dim is a sorted tuple of (base, exponent); bases: 's', 'cyc' (angle, in cycles), 'L'
    (length; pc and cm are exact rational multiples of a metre)."""

    def __init__(self, val, dim=(), unit=None, cls=None):
        self.val = val
        self.unit = unit          # display unit (Unit) or None = SI
        self.cls = cls            # repo subclass (e.g. DispersionMeasure ClassInfo) or None
        self.dim = tuple(sorted((b, e) for b, e in dict(dim).items() if e != 0)) if isinstance(dim, dict) \
            else tuple(sorted((b, e) for b, e in dim if e != 0))

    @property
    def is_scalar(self):
        return not isinstance(self.val, SArr)

    def __repr__(self):
        return f"Qty({self.val}, {self.dim})"


class Unit:
    """astropy unit: scale to SI-normalised magnitude and dimension."""

    def __init__(self, scale=1, dim=(), pik=0, name=None):
        self.scale = Fraction(scale)   # rational part of the scale to the SI-normalised magnitude
        self.pik = pik                 # power of (2*pi) in the scale (rad = cycle / (2 pi))
        self.name = name
        self.dim = tuple(sorted((b, e) for b, e in dict(dim).items() if e != 0))

    def __repr__(self):
        return f"Unit({self.scale}, {self.dim})"


def dim_mul(d1, d2, sign=1):
    d = dict(d1)
    for b, e in d2:
        d[b] = d.get(b, 0) + sign * e
    return tuple(sorted((b, e) for b, e in d.items() if e != 0))


def dim_pow(d, n):
    return tuple(sorted((b, e * n) for b, e in d if e * n != 0))


class STime:
    """astropy Time: absolute time in seconds as an exact real (model E); sec is a scalar
    or an SArr (array of times)."""

    def __init__(self, sec, fmt=None, precision=None):
        self.sec = sec
        self.fmt, self.precision = fmt, precision

    @property
    def is_scalar(self):
        return not isinstance(self.sec, SArr)

    def __repr__(self):
        return f"STime({self.sec})"


class DType:
    """NumPy dtype tag."""
    _kinds = {"bool": ("b", 1), "int8": ("i", 1), "int16": ("i", 2), "int32": ("i", 4), "int64": ("i", 8),
              "uint8": ("u", 1), "float16": ("f", 2), "float32": ("f", 4), "float64": ("f", 8),
              "complex64": ("c", 8), "complex128": ("c", 16)}

    def __init__(self, name):
        assert name in self._kinds, name
        self.name = name

    @property
    def kind(self):
        return self._kinds[self.name][0]

    @property
    def itemsize(self):
        return self._kinds[self.name][1]

    def __eq__(self, o):
        return isinstance(o, DType) and o.name == self.name

    def __hash__(self):
        return hash(self.name)

    def __repr__(self):
        return f"dtype({self.name})"

    def can_cast_safe(self, to):
        """np.can_cast(self, to, 'safe') -- answered by the installed NumPy itself."""
        import numpy as np
        return bool(np.can_cast(np.dtype(self.name), np.dtype(to.name), "safe"))


def result_dtype(*dts):
    """NumPy type promotion on the small lattice used by pulsarbat."""
    import numpy as np
    return DType(np.result_type(*[np.dtype(d.name) for d in dts]).name)


class SArr:
    """n-d array: concrete rank, symbolic dims, element function, dtype/backend/owner tags.

    elem(idx_tuple) -> scalar value (real term or Cx).  `owner` is the set of allocation
    roots whose memory this array may share ('fresh:<k>' or 'param:<path>'); `alloc` is the
    root created for this very array when it is a new allocation."""
    _ids = itertools.count()

    def __init__(self, shape, elem, dtype, backend="numpy", owner=None, opaque=None, name=None):
        self.shape = tuple(shape)
        self.elem = elem
        self.dtype = dtype if isinstance(dtype, DType) else DType(dtype)
        self.backend = backend
        self.id = next(SArr._ids)
        self.owner = frozenset(owner) if owner is not None else frozenset([f"fresh:{self.id}"])
        self.opaque = opaque   # (op, params, input SArr) for FFT-like operators
        self.written = False
        self.name = name

    @property
    def ndim(self):
        return len(self.shape)

    @property
    def is_complex(self):
        return self.dtype.kind == "c"

    def like(self, shape=None, elem=None, dtype=None, owner="fresh", backend=None):
        return SArr(self.shape if shape is None else shape, self.elem if elem is None else elem,
                    self.dtype if dtype is None else dtype,
                    self.backend if backend is None else backend,
                    None if owner == "fresh" else (self.owner if owner == "same" else owner))

    def __repr__(self):
        return f"SArr#{self.id}(shape={self.shape}, {self.dtype.name}, {self.backend}, owner={set(self.owner)})"


class SSeq:
    """Sequence (list/generator result) of *symbolic* length n: item(i) gives the i-th value for an
    integer term i with 0 <= i < n.  Produced by iterating an array whose leading extent is
    symbolic, by enumerate/zip over such sequences and by comprehensions over them; consumed by
    np.stack / np.array / len / max / min.  `template` is item(iota) for one generic index."""

    def __init__(self, n, item, template=None, iota=None):
        self.n, self.item, self.template, self.iota = n, item, template, iota

    def __repr__(self):
        return f"SSeq(n={self.n})"


class Obj:
    """Instance of a /repo class: class info + field dict."""
    _ids = itertools.count()

    def __init__(self, cls):
        self.cls = cls
        self.fields = {}
        self.id = next(Obj._ids)
        self.born_in_call = True

    def __repr__(self):
        return f"<{self.cls.name} obj#{self.id} {list(self.fields)}>"


class PyExc(Exception):
    """A Python exception raised by interpreted code / stubs / specs."""

    def __init__(self, kind, msg=""):
        super().__init__(kind, msg)
        self.kind, self.msg = kind, msg


EXC_PARENTS = {
    "BaseException": None, "Exception": "BaseException",
    "ValueError": "Exception", "TypeError": "Exception", "AssertionError": "Exception",
    "IndexError": "LookupError", "KeyError": "LookupError", "LookupError": "Exception",
    "AttributeError": "Exception", "EOFError": "Exception", "ZeroDivisionError": "ArithmeticError",
    "ArithmeticError": "Exception", "NotImplementedError": "RuntimeError", "RuntimeError": "Exception",
    "UnitsError": "ValueError", "UnitConversionError": "UnitsError", "UnitTypeError": "UnitsError",
    "StopIteration": "Exception", "OverflowError": "ArithmeticError",
}


def exc_isinstance(kind, parent):
    k = kind
    while k is not None:
        if k == parent:
            return True
        if k == "UnitTypeError" and parent == "TypeError":
            return True
        k = EXC_PARENTS.get(k)
    return False


_CONST_SUBST = None


def num(x):
    """Concrete float of a value that may contain the symbolic constants PI/SQRT2/HSQRT2."""
    global _CONST_SUBST
    if not is_sym(x):
        return float(x)
    if _CONST_SUBST is None:
        import math
        def q(v):
            f = Fraction(v)
            return z3.Q(f.numerator, f.denominator)
        _CONST_SUBST = [(PI, q(math.pi)), (SQRT2, q(math.sqrt(2))), (HSQRT2, q(1 / math.sqrt(2)))]
    v = conc(z3.simplify(z3.substitute(x, *_CONST_SUBST)))
    if is_sym(v):
        raise TypeError(f"not a concrete number: {v}")
    return float(v)
