"""Mechanical extraction of the function/class tables from /repo's *current* source.

Everything the verifier reasons about is the `ast` of the files Python itself imports from
/repo/pulsarbat.  What extraction drops: comments, docstrings (kept in the AST but never
interpreted), decorator semantics other than @property/@x.setter/@classmethod/@staticmethod/
@lru_cache/@functools.wraps/@singledispatch/@dataclass (structural handling, DESIGN 2.1)."""
from __future__ import annotations
import ast
import hashlib
import os


class ClassInfo:
    def __init__(self, module, node):
        self.module = module
        self.node = node
        self.name = node.name
        self.qualname = f"{module.name}.{node.name}"
        self.base_exprs = node.bases
        self.bases = []          # resolved ClassInfo or external names (str)
        self.methods = {}        # name -> FunctionDef
        self.classmethods = set()
        self.staticmethods = set()
        self.properties = {}     # name -> {'get': FunctionDef, 'set': FunctionDef|None}
        self.attrs = {}          # class attribute name -> ast expr
        for st in node.body:
            if isinstance(st, ast.FunctionDef):
                decos = [ast.unparse(d) for d in st.decorator_list]
                if "property" in decos:
                    self.properties.setdefault(st.name, {"get": None, "set": None})["get"] = st
                elif any(d.endswith(".setter") for d in decos):
                    self.properties.setdefault(st.name, {"get": None, "set": None})["set"] = st
                else:
                    self.methods[st.name] = st
                    if "classmethod" in decos:
                        self.classmethods.add(st.name)
                    if "staticmethod" in decos:
                        self.staticmethods.add(st.name)
            elif isinstance(st, ast.Assign):
                for t in st.targets:
                    if isinstance(t, ast.Name):
                        self.attrs[t.id] = st.value
                        # value = property(to_value, doc=...) idiom
                        if (isinstance(st.value, ast.Call) and isinstance(st.value.func, ast.Name)
                                and st.value.func.id == "property" and st.value.args
                                and isinstance(st.value.args[0], ast.Name)
                                and st.value.args[0].id in self.methods):
                            self.properties[t.id] = {"get": self.methods[st.value.args[0].id], "set": None}
                    elif isinstance(t, ast.Tuple):
                        pass
            elif isinstance(st, ast.AnnAssign) and isinstance(st.target, ast.Name):
                if st.value is not None:
                    self.attrs[st.target.id] = st.value

    def mro(self):
        """C3 is unnecessary here: the repo uses single inheritance among its own classes."""
        out = [self]
        for b in self.bases:
            if isinstance(b, ClassInfo):
                for c in b.mro():
                    if c not in out:
                        out.append(c)
        return out

    def external_bases(self):
        out = []
        for c in self.mro():
            for b in c.bases:
                if not isinstance(b, ClassInfo):
                    out.append(b)
        return out

    def is_subclass(self, other):
        return other in self.mro()

    def find_method(self, name, after=None):
        mro = self.mro()
        if after is not None:
            mro = mro[mro.index(after) + 1:]
        for c in mro:
            if name in c.methods:
                return c, c.methods[name]
        return None, None

    def find_property(self, name):
        """Python semantics: a subclass redefining only the getter replaces the whole property."""
        for c in self.mro():
            if name in c.properties:
                return c, c.properties[name]
            if name in c.methods or name in c.attrs:
                return None, None
        return None, None

    def find_attr(self, name):
        for c in self.mro():
            if name in c.attrs:
                return c, c.attrs[name]
        return None, None

    def __repr__(self):
        return f"<class {self.qualname}>"


class ModuleInfo:
    def __init__(self, name, path, src):
        self.name = name
        self.path = path
        self.src = src
        self.tree = ast.parse(src, filename=path)
        self.functions = {}
        self.classes = {}
        self.globals = {}      # name -> ast expr (simple assignments)
        self.imports = {}      # alias -> dotted target ("numpy", "astropy.units", "astropy.time.Time")
        self.star_imports = []
        self.is_pkg = path.endswith("__init__.py")
        for st in self.tree.body:
            if isinstance(st, ast.FunctionDef):
                self.functions[st.name] = st
            elif isinstance(st, ast.ClassDef):
                self.classes[st.name] = ClassInfo(self, st)
            elif isinstance(st, ast.Assign):
                for t in st.targets:
                    if isinstance(t, ast.Name):
                        self.globals[t.id] = st.value
                    elif isinstance(t, ast.Tuple) and all(isinstance(e, ast.Name) for e in t.elts):
                        # e.g. `_equivalent_unit = _default_unit = ...` handled above; tuple targets rare
                        pass
            elif isinstance(st, ast.Import):
                for a in st.names:
                    self.imports[a.asname or a.name.split(".")[0]] = a.name if a.asname else a.name.split(".")[0]
            elif isinstance(st, ast.ImportFrom):
                base = st.module or ""
                if st.level:
                    pkg = self.name if self.is_pkg else self.name.rsplit(".", 1)[0]
                    for _ in range(st.level - 1):
                        pkg = pkg.rsplit(".", 1)[0]
                    base = f"{pkg}.{base}" if base else pkg
                for a in st.names:
                    if a.name == "*":
                        self.star_imports.append(base)
                    else:
                        self.imports[a.asname or a.name] = f"{base}.{a.name}"

    def __repr__(self):
        return f"<module {self.name}>"


class Repo:
    def __init__(self, root="/repo"):
        self.root = root
        self.modules = {}
        h = hashlib.sha256()
        pkg = os.path.join(root, "pulsarbat")
        for dp, dn, fn in sorted(os.walk(pkg)):
            dn.sort()
            for f in sorted(fn):
                if not f.endswith(".py"):
                    continue
                path = os.path.join(dp, f)
                rel = os.path.relpath(path, root)[:-3].replace(os.sep, ".")
                if rel.endswith(".__init__"):
                    rel = rel[: -len(".__init__")]
                src = open(path).read()
                h.update(rel.encode())
                h.update(src.encode())
                self.modules[rel] = ModuleInfo(rel, path, src)
        self.source_hash = h.hexdigest()[:16]
        self._resolve_bases()

    # -- name resolution -------------------------------------------------------------
    def resolve_dotted(self, dotted):
        """Resolve 'pulsarbat.x.y.Name' to a repo entity, following re-exports."""
        seen = set()
        while True:
            if dotted in seen:
                return None
            seen.add(dotted)
            if dotted in self.modules:
                return self.modules[dotted]
            if "." not in dotted:
                return None
            modname, name = dotted.rsplit(".", 1)
            mod = self.modules.get(modname)
            if mod is None:
                parent = self.resolve_dotted(modname)
                if isinstance(parent, ClassInfo):
                    return ("classattr", parent, name)
                return None
            if name in mod.classes:
                return mod.classes[name]
            if name in mod.functions:
                return ("func", mod, mod.functions[name])
            if name in mod.imports:
                dotted = mod.imports[name]
                if not dotted.startswith("pulsarbat"):
                    return ("external", dotted)
                continue
            if name in mod.globals:
                return ("global", mod, name)
            found = None
            for s in mod.star_imports:
                r = self.resolve_dotted(f"{s}.{name}")
                if r is not None:
                    found = r
                    break
            return found

    def lookup_global(self, mod, name):
        """Resolve a bare name used inside module `mod`."""
        if name in mod.classes:
            return mod.classes[name]
        if name in mod.functions:
            return ("func", mod, mod.functions[name])
        if name in mod.globals:
            return ("global", mod, name)
        if name in mod.imports:
            tgt = mod.imports[name]
            if tgt.startswith("pulsarbat"):
                r = self.resolve_dotted(tgt)
                if r is not None:
                    return r
            return ("external", tgt)
        for s in mod.star_imports:
            r = self.resolve_dotted(f"{s}.{name}")
            if r is not None:
                return r
        return None

    def _resolve_bases(self):
        for mod in self.modules.values():
            for ci in mod.classes.values():
                for b in ci.base_exprs:
                    txt = ast.unparse(b)
                    r = None
                    if isinstance(b, ast.Name):
                        r = self.lookup_global(mod, b.id)
                    elif isinstance(b, ast.Attribute):
                        # e.g. np.lib.mixins.NDArrayOperatorsMixin, u.SpecificTypeQuantity
                        head = txt.split(".")[0]
                        tgt = mod.imports.get(head)
                        if tgt:
                            r = ("external", tgt + txt[len(head):])
                    if isinstance(r, ClassInfo):
                        ci.bases.append(r)
                    elif isinstance(r, tuple) and r[0] == "external":
                        ci.bases.append(r[1])
                    else:
                        ci.bases.append(txt)

    def get_class(self, qualname):
        r = self.resolve_dotted(qualname)
        if isinstance(r, ClassInfo):
            return r
        raise KeyError(qualname)

    def get_function(self, qualname):
        """qualname: 'pulsarbat.core.Signal._time_slice' or 'pulsarbat.utils.prev_fast_len'.
        Returns (module, class_or_None, FunctionDef, kind) kind in func/method/getter/setter."""
        parts = qualname.split(".")
        kind = "func"
        if parts[-1] in ("fget", "fset"):
            kind = "getter" if parts[-1] == "fget" else "setter"
            parts = parts[:-1]
        owner = self.resolve_dotted(".".join(parts[:-1]))
        name = parts[-1]
        if isinstance(owner, ModuleInfo):
            if name in owner.functions:
                return owner, None, owner.functions[name], "func"
            raise KeyError(qualname)
        if isinstance(owner, ClassInfo):
            if kind in ("getter", "setter"):
                p = owner.properties.get(name)
                if p is None:
                    raise KeyError(qualname)
                fn = p["get" if kind == "getter" else "set"]
                if fn is None:
                    raise KeyError(qualname)
                return owner.module, owner, fn, kind
            if name in owner.methods:
                return owner.module, owner, owner.methods[name], "method"
            if name in owner.properties:
                return owner.module, owner, owner.properties[name]["get"], "getter"
            raise KeyError(qualname)
        raise KeyError(qualname)

    def function_source(self, mod, fn):
        return ast.get_source_segment(mod.src, fn) or ast.unparse(fn)
