"""Canaries: deliberate in-memory mutations of the *extracted* AST of a function under contract
(never of /repo).  Each must be refuted by at least one obligation of the named contract; a
surviving canary means a contract too weak to pin the behaviour down, or an unsound encoding,
and makes the run exit 3 (checker broken)."""
from __future__ import annotations
import ast
import copy
from .contract import verify_function
from . import solve

_FLIP_CMP = {ast.Lt: ast.LtE, ast.LtE: ast.Lt, ast.Gt: ast.GtE, ast.GtE: ast.Gt, ast.Eq: ast.NotEq, ast.NotEq: ast.Eq}
_FLIP_BIN = {ast.Add: ast.Sub, ast.Sub: ast.Add, ast.Mult: ast.Add, ast.Div: ast.Mult, ast.FloorDiv: ast.Mult, ast.Mod: ast.FloorDiv}


def mutate(fn, kind, k):
    """Return a mutated deep copy of FunctionDef `fn` (k-th site of the given kind), or None."""
    new = copy.deepcopy(fn)
    n = 0
    for node in ast.walk(new):
        if kind == "cmp" and isinstance(node, ast.Compare) and type(node.ops[0]) in _FLIP_CMP:
            if n == k:
                node.ops[0] = _FLIP_CMP[type(node.ops[0])]()
                return new
            n += 1
        elif kind == "binop" and isinstance(node, ast.BinOp) and type(node.op) in _FLIP_BIN:
            if n == k:
                node.op = _FLIP_BIN[type(node.op)]()
                return new
            n += 1
        elif kind == "aug" and isinstance(node, ast.AugAssign) and type(node.op) in _FLIP_BIN:
            if n == k:
                node.op = _FLIP_BIN[type(node.op)]()
                return new
            n += 1
        elif kind == "ceilfloor" and isinstance(node, ast.Attribute) and node.attr in ("ceil", "floor"):
            if n == k:
                node.attr = "floor" if node.attr == "ceil" else "ceil"
                return new
            n += 1
        elif kind == "const" and isinstance(node, ast.Constant) and isinstance(node.value, int) and not isinstance(node.value, bool):
            if n == k:
                node.value = node.value + 1
                return new
            n += 1
        elif kind == "str" and isinstance(node, ast.Constant) and isinstance(node.value, str) and node.value in ("center", "bottom", "top", "linear", "circular"):
            if n == k:
                node.value = {"center": "bottom", "bottom": "top", "top": "center", "linear": "circular", "circular": "linear"}[node.value]
                return new
            n += 1
    return None


def _slot(repo, qualname):
    mod, cls, fn, kind = repo.get_function(qualname)
    if cls is None:
        return mod.functions, fn.name, fn
    if kind == "getter":
        return cls.properties[fn.name], "get", fn
    if kind == "setter":
        return cls.properties[fn.name], "set", fn
    return cls.methods, fn.name, fn


def run_canary(interp, contracts, spec, timeout_ms=10000):
    """spec = (function qualname to mutate, kind, k, contract qualname, instance-label substring).
    Returns (killed: bool, detail)."""
    target, kind, k, cq, inst_sub = spec
    table, key, fn = _slot(interp.repo, target)
    mutated = mutate(fn, kind, k)
    if mutated is None:
        return None, f"no {kind} site #{k} in {target}"
    c = next(x for x in contracts if x.qualname == cq)
    insts = [i for i in c.instances if inst_sub in i.label][:3]
    table[key] = mutated
    try:
        for inst in insts:
            rep = verify_function(interp, c, inst, prop_prefix="canary/")
            res = solve.discharge(rep.obligations, timeout_ms=timeout_ms, procs=1)
            # frame obligations of caching helpers and the listed known finding are refuted on the
            # unmutated code as well: they do not count as a kill
            bad = [r for r in res if r.status == "refuted" and "/frame." not in r.name and "baseband-stepped" not in r.name]
            if bad:
                return True, f"{ast.unparse(mutated).count(chr(10))} lines; refuted {bad[0].name}"
            if rep.unsupported:
                return None, f"mutant not interpretable: {rep.unsupported[0][0][:80]}"
        return False, "no obligation refuted"
    finally:
        table[key] = fn
