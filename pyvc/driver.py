"""Load /repo, stubs and sidecar contracts; verify selected functions; discharge."""
from __future__ import annotations
import importlib
import sys
import time
from .extract import Repo
from .interp import Interp
from .stubs import make_stubs
from .contract import verify_function
from . import solve

CONTRACT_MODULES = ["contracts.core", "contracts.utils", "contracts.transforms", "contracts.dedispersion", "contracts.fftmisc", "contracts.phase", "contracts.readers", "contracts.predictor"]


def load(root="/repo", modules=None):
    repo = Repo(root)
    stubs = make_stubs()
    interp = Interp(repo, stubs)
    contracts = []
    for m in modules or CONTRACT_MODULES:
        mod = importlib.import_module(m)
        contracts.extend(mod.CONTRACTS)
        for hook in getattr(mod, "SETUP", []):
            hook(interp)
    interp.contracts = {c.qualname: c for c in contracts if c.body is None and getattr(c, "modular", True)}
    return repo, interp, contracts


def main(argv):
    sel = argv[1:] 
    repo, interp, contracts = load()
    total = {"discharged": 0, "refuted": 0, "undecided": 0}
    for c in contracts:
        if sel and not any(s in c.qualname for s in sel):
            continue
        t0 = time.time()
        obs, unsup, paths = [], [], 0
        for inst in c.instances:
            rep = verify_function(interp, c, inst)
            obs.extend(rep.obligations)
            unsup.extend((inst.label, d) for d, _ in rep.unsupported)
            paths += rep.paths
            for e in rep.errors:
                print("ERROR", c.qualname, inst.label, e)
        tg = time.time() - t0
        res = solve.discharge(obs)
        cnt = {"discharged": 0, "refuted": 0, "undecided": 0}
        for r in res:
            cnt[r.status] += 1
        for k in cnt:
            total[k] += cnt[k]
        print(f"{c.qualname}: instances={len(c.instances)} paths={paths} obligations={len(obs)} {cnt} unsupported={len(unsup)} gen={tg:.1f}s solve={time.time()-t0-tg:.1f}s")
        for u in sorted(set(unsup))[:10]:
            print("   UNSUPPORTED", u)
        shown = 0
        for r in res:
            if r.status != "discharged" and shown < 8:
                shown += 1
                print("  ", r.status, r.name, r.ob.meta, {k: v for k, v in (r.model or {}).items() if "!" not in k})
                print("      path:", [(l, d) for l, d in (r.ob.path or [])][-8:])
    print(total)


if __name__ == "__main__":
    main(sys.argv)
