"""Loop contracts (inductive invariants, variants) and ghost state for the interpreter.

A LoopSpec cuts the loop: the invariant is an obligation on entry (`loopK.init`), then every
variable assigned in the loop body (and the ghost state) is havocked and the invariant assumed;
one symbolic iteration is executed and the invariant re-established (`loopK.preserve`) together
with the variant (`loopK.decreases`, lexicographic, bounded below) -- that path ends there; the
exit path continues after the loop with invariant and negated condition.  No unrolling, no bound."""
from __future__ import annotations
import ast
import z3
from . import values as V
from .values import is_sym
from .ctx import Unsupported
from .interp import _Break, _Continue, _Return


class LoopContractMisfit(Unsupported):
    """A loop contract (invariant / variant / ghost state) refers to variables or a structure the code no longer has."""


class PathEnd(Exception):
    """The symbolic iteration of a cut loop ended (nothing after it on this path)."""


def assigned_names(stmts):
    out = set()
    for st in stmts:
        for n in ast.walk(st):
            if isinstance(n, (ast.Assign, ast.AugAssign, ast.AnnAssign)):
                targets = n.targets if isinstance(n, ast.Assign) else [n.target]
                for t in targets:
                    for m in ast.walk(t):
                        if isinstance(m, ast.Name):
                            out.add(m.id)
            elif isinstance(n, ast.NamedExpr):
                out.add(n.target.id)
            elif isinstance(n, ast.For):
                for m in ast.walk(n.target):
                    if isinstance(m, ast.Name):
                        out.add(m.id)
    return out


class LoopSpec:
    def __init__(self, label, invariant, decreases=None, ghost=None, havoc_sort=None, on_havoc=None):
        """invariant(S) -> list of (name, Bool); decreases(S) -> tuple of int terms;
        S is a LoopState giving access to program variables and the ghost tracker."""
        self.label = label
        self.invariant = invariant
        self.decreases = decreases
        self.ghost = ghost
        self.havoc_sort = havoc_sort or {}
        self.on_havoc = on_havoc

    def _inv(self, S):
        """The invariant is written against the variables of the code as it stands; when the loop has been
        rewritten (other names, another nesting) it cannot even be stated: the proof of this function is then not
        re-established on this tree -- which is not a finding about the code."""
        try:
            return list(self.invariant(S))
        except (KeyError, AttributeError, TypeError, IndexError) as e:
            raise LoopContractMisfit(f"loop contract {self.label} does not fit this code ({type(e).__name__}: {e})")

    def _check_inv(self, interp, env, ctx, phase):
        S = LoopState(interp, env, ctx)
        for name, f in self._inv(S):
            ctx.oblige(f"{self.label}.{phase}.{name}", f, "loop")

    def _assume_inv(self, interp, env, ctx):
        S = LoopState(interp, env, ctx)
        for name, f in self._inv(S):
            ctx.assume(f, why=f"{self.label}.inv.{name}")

    def run_while(self, interp, st, env, ctx):
        self._check_inv(interp, env, ctx, "init")
        mods = assigned_names(st.body)
        for v in sorted(mods):
            if env.has(v):
                old = env.lookup(v)
                if V.is_intlike(old) or isinstance(old, bool):
                    env.vars[v] = ctx.fresh(f"{v}@{self.label}", "int")
                elif V.is_num(old):
                    env.vars[v] = ctx.fresh(f"{v}@{self.label}", "real")
                else:
                    raise Unsupported(f"havoc of non-numeric loop variable {v}")
        tracker = getattr(interp, "ghost_tracker", None)
        if tracker is not None:
            tracker.havoc(mods, ctx, self.label)
        self._assume_inv(interp, env, ctx)
        if tracker is not None:
            tracker.add_lemmas(ctx)
        cond = interp.truthy(interp.eval(st.test, env, ctx), ctx, label=f"{self.label} cond")
        if not cond:
            if st.orelse:
                interp.exec_block(st.orelse, env, ctx)
            return
        S0 = LoopState(interp, env, ctx)
        try:
            before = self.decreases(S0) if self.decreases else None
        except (KeyError, AttributeError, TypeError, IndexError) as e:
            raise LoopContractMisfit(f"loop contract {self.label} does not fit this code ({type(e).__name__}: {e})")
        try:
            interp.exec_block(st.body, env, ctx)
        except _Break:
            return          # continue after the loop with the state at the break
        except _Continue:
            pass
        self._check_inv(interp, env, ctx, "preserve")
        if before is not None:
            after = self.decreases(LoopState(interp, env, ctx))
            ctx.oblige(f"{self.label}.decreases", lex_less(after, before), "loop")
            ctx.oblige(f"{self.label}.variant-bounded", V.And(*[V.le(0, b) for b in before]), "loop")
        raise PathEnd()

    def run_for(self, interp, st, it, env, ctx):
        raise Unsupported("for-loop contracts are provided by dedicated summaries")


def lex_less(a, b):
    """Lexicographic a < b."""
    res = False
    eq_prefix = True
    for x, y in zip(a, b):
        res = V.Or(res, V.And(eq_prefix, V.lt(x, y)))
        eq_prefix = V.And(eq_prefix, V.eq(x, y))
    return res


class LoopState:
    def __init__(self, interp, env, ctx):
        self.interp, self.env, self.ctx = interp, env, ctx
        self.ghost = getattr(interp, "ghost_tracker", None)

    def var(self, name):
        return self.env.lookup(name)

    def has(self, name):
        return self.env.has(name)


class ExponentTracker:
    """Ghost state for products of prime powers: every tracked program variable v carries a
    ghost exponent tuple T[v] with the (checked, not assumed) relation v == Vfun(*T[v]).

    Updates are inferred *semantically* after each assignment to a tracked variable (the new
    value is provably k times the old one, half of it, a copy of another tracked variable, or
    the constant 1), so renaming or re-spelling the statement does not disturb the proof."""

    def __init__(self, interp, qualname, tracked, primes, vfun, lemmas):
        self.interp, self.qualname = interp, qualname
        self.tracked = list(tracked)
        self.primes = list(primes)           # e.g. [7, 5, 3, 2] matching tuple positions
        self.vfun = vfun
        self.lemmas = lemmas                 # lemmas(list of tuples) -> list of z3 facts
        self.T = {}
        self._before = {}
        self.extra_tuples = []
        self.two_pos = self.primes.index(2)

    def reset(self):
        self.T = {}
        self._before = {}
        self.extra_tuples = []

    def tuple_of(self, v):
        return self.T.get(v)

    def install(self):
        hs = self.interp.hooks.setdefault(self.qualname, [])
        hs.append(("before", "", self._before_stmt))
        hs.append(("after", "", self._after_stmt))

    def _targets(self, st):
        if isinstance(st, ast.Assign):
            ts = []
            for t in st.targets:
                ts.extend(m.id for m in ast.walk(t) if isinstance(m, ast.Name))
            return ts
        if isinstance(st, ast.AugAssign) and isinstance(st.target, ast.Name):
            return [st.target.id]
        return []

    def _before_stmt(self, interp, ctx, env, st):
        self._before = {v: env.lookup(v) for v in self._targets(st) if v in self.tracked and env.has(v)}
        self._before_T = dict(self.T)

    def _after_stmt(self, interp, ctx, env, st):
        for v in self._targets(st):
            if v not in self.tracked:
                continue
            new = env.lookup(v)
            old = self._before.get(v)
            self._infer(v, old, new, env, ctx)
        if self._targets(st):
            self.add_lemmas(ctx)

    def _infer(self, v, old, new, env, ctx):
        zero = tuple(0 for _ in self.primes)
        if not is_sym(new) and new == 1:
            self.T[v] = zero
            return
        Told = self._before_T.get(v)
        if old is not None and Told is not None:
            for pos, p in enumerate(self.primes):
                if ctx.is_valid(V.eq(new, V.mul(p, old))):
                    self.T[v] = tuple(V.simp(V.add(e, 1)) if k == pos else e for k, e in enumerate(Told))
                    return
            # halving: needs the exponent of 2 to be positive (else the value would be odd)
            if ctx.is_valid(V.eq(V.mul(2, new), old)):
                self.T[v] = tuple(V.simp(V.sub(e, 1)) if k == self.two_pos else e for k, e in enumerate(Told))
                ctx.oblige(f"ghost.halving-exponent-positive[{v}]", V.le(1, Told[self.two_pos]), "loop")
                return
            if ctx.is_valid(V.eq(new, old)):
                return
        for w in self.tracked:
            if w != v and w in self._before_T and env.has(w) and ctx.is_valid(V.eq(new, env.lookup(w))):
                self.T[v] = self._before_T[w]
                return
        # unknown relation: the variable is no longer known to be a tracked product
        self.T.pop(v, None)

    def havoc(self, mods, ctx, label):
        for v in self.tracked:
            if v in mods and v in self.T:
                self.T[v] = tuple(ctx.fresh(f"e{k}_{v}@{label}", "int") for k in range(len(self.primes)))

    def add_lemmas(self, ctx):
        tuples = [t for t in self.T.values()] + list(self.extra_tuples)
        # neighbours along the exponent of two (doubling / halving steps)
        tuples += [tuple(V.simp(V.add(e, 1)) if k == self.two_pos else e for k, e in enumerate(t)) for t in self.T.values()]
        for f in self.lemmas(tuples):
            ctx.assume(f, why="V-lemma-instance")
