#!/bin/sh
# Builds /verif/.venv offline: a Python 3.12 venv that sees /venv's packages (numpy, scipy,
# astropy, dask, baseband, pulsarbat-from-/repo) plus the solver/contract tooling from the
# offline wheelhouse.  Idempotent; `./check` calls it when .venv is missing.
set -e
cd "$(dirname "$0")"
V=.venv
if [ -x "$V/bin/python" ] && "$V/bin/python" -c "import z3, cvc5, jsonschema, numpy" 2>/dev/null; then
  exit 0
fi
rm -rf "$V"
PYBASE=$(/venv/bin/python -c "import sys; print(sys._base_executable)")
"$PYBASE" -m venv --without-pip "$V" 2>/dev/null || /venv/bin/python -m venv --without-pip "$V"
SP=$("$V/bin/python" -c "import sysconfig; print(sysconfig.get_paths()['purelib'])")
echo "import site; site.addsitedir('/venv/lib/python3.12/site-packages')" > "$SP/_venv_overlay.pth"
PIP_NO_INDEX=1 /venv/bin/python -m pip install --quiet --no-index --find-links /opt/veriftools/wheels \
  --target "$SP" --no-deps \
  z3-solver cvc5 jsonschema jsonschema_specifications referencing rpds_py attrs \
  icontract deal crosshair-tool typing_extensions typing_inspect mypy_extensions \
  typeshed_client importlib_metadata zipp packaging asttokens six sortedcontainers \
  pygls lsprotocol cattrs >/dev/null
"$V/bin/python" -c "import z3, cvc5, jsonschema, numpy, pulsarbat; print('venv ok', z3.get_version_string(), numpy.__version__)"
