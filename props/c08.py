"""Bounded stand-in for C08 (never counted as proved): generated tempo-style polyco texts, predictions
against the tempo formula evaluated with fractions.Fraction on the decimal strings of the file."""
import io
import math
from decimal import Decimal
from fractions import Fraction
import numpy as np
import astropy.units as u
from astropy.time import Time


def make_polyco(entries):
    """entries: list of dict(tmid=str MJD, rphase=str, f0=str, span=int minutes, coeffs=[str,...])."""
    lines = []
    for e in entries:
        lines.append(f"{'0531+21':<10} {'2-Jul-13':>9} {'13920.00':>11}{e['tmid']:>20}{'56.7':>21} {'0.000':>6}{'-6.000':>7}")
        lines.append(f"{e['rphase']:>20}{e['f0']:>18}{'ao':>5}{e['span']:>5d}{len(e['coeffs']):>5d}{'1400.000':>10}")
        cs = e["coeffs"]
        for i in range(0, len(cs), 3):
            lines.append("".join(f"{c:>25}" for c in cs[i:i + 3]))
    return "\n".join(lines) + "\n"


def frac_of(s):
    return Fraction(Decimal(s.lower().replace("d", "e")))


def tempo_phase(e, dt_min):
    """RPHASE + 60*DT*F0 + sum COEFF(i) DT^(i-1), exact."""
    p = frac_of(e["rphase"]) + 60 * dt_min * frac_of(e["f0"])
    for i, c in enumerate(e["coeffs"]):
        p += frac_of(c) * dt_min ** i
    return p


def tempo_freq(e, dt_min, n=0):
    """(n)-th time derivative (per second^n) of the spin frequency."""
    # phase(dt_s) with dt_min = dt_s/60; frequency = d phase / d dt_s
    coefs = [frac_of(c) for c in e["coeffs"]]
    coefs = coefs + [Fraction(0)] * max(0, 2 - len(coefs))
    coefs[1] += 60 * frac_of(e["f0"])
    # polynomial in dt_s: c_i / 60^i
    poly = [c / Fraction(60) ** i for i, c in enumerate(coefs)]
    for _ in range(n + 1):
        poly = [i * c for i, c in enumerate(poly)][1:]
    x = dt_min * 60
    return sum(c * x ** i for i, c in enumerate(poly))


def exact_phase(ph):
    v = np.asarray(ph.view(np.ndarray))
    return Fraction(float(v["int"])) + Fraction(float(v["frac"]))


def time_minus_mjd_minutes(t, mjd_str):
    """Exact (t - TMID) in minutes from the two-double representation of t and the decimal TMID."""
    tm = Time(mjd_str, format="mjd", precision=9)
    d = (Fraction(float(t.jd1)) - Fraction(float(tm.jd1))) + (Fraction(float(t.jd2)) - Fraction(float(tm.jd2)))
    return d * 1440


def bounded(pb, interp, rng, tier):
    ev, fails, samples, distinct = 0, [], [], set()

    def fail(fn, what, inst, detail):
        if sum(1 for f_ in fails if f_["what"] == what) < 8:      # cap per kind: a known finding must not crowd out a new failure
            fails.append({"function": f"pulsarbat.pulsar.predictor.PhasePredictor.{fn}", "what": what, "instance": inst, "inputs": {"case": inst}, "observed": str(detail)[:200], "status": "mismatch"})

    cfgs = []
    for ncoef in (12, 5, 3, 7):
        for span in (60, 30, 90):
            for rph in ("1193219.345678", "987654321012.123456789", "0.500000"):
                cfgs.append((ncoef, span, rph))
    if tier != "thorough":
        cfgs = cfgs[::4]
    for ncoef, span, rph in cfgs:
        ents = []
        base = 56500
        nent = 4
        # one underlying spin model phi(tau) = R0 + F0 tau + F1 tau^2/2 + F2 tau^3/6 (tau in s since the
        # first TMID), expanded exactly around every TMID, so that the entries are mutually consistent
        F0s = "29.946923000000"
        F0, F1, F2 = frac_of(F0s), Fraction(-37, 10 ** 11), Fraction(1, 10 ** 18)
        R0 = frac_of(rph)
        tm0 = Fraction(base) + Fraction(1, 3)
        for k in range(nent):
            step = Fraction(span, 1440)
            gap = Fraction(0) if k < 3 else Fraction(3 * span, 1440)     # last entry detached: two intervals
            tm_s = f"{float(tm0 + k * step + gap):.11f}"
            tau = (frac_of(tm_s) - frac_of(f"{float(tm0):.11f}")) * 86400
            phi = R0 + F0 * tau + F1 * tau ** 2 / 2 + F2 * tau ** 3 / 6
            rp_s = f"{Decimal(phi.numerator) / Decimal(phi.denominator):.6f}"
            c = [Fraction(0)] * max(ncoef, 4)
            c[0] = phi - frac_of(rp_s)
            c[1] = (F1 * tau + F2 * tau ** 2 / 2) * 60
            c[2] = (F1 + F2 * tau) * 3600 / 2
            c[3] = F2 * 216000 / 6
            coeffs = []
            for i in range(ncoef):
                v = c[i] if i < len(c) else Fraction(0)
                txt = f"{Decimal(v.numerator) / Decimal(v.denominator):.17E}"
                mant, ex = txt.split("E")
                letter = "D" if (i + k) % 2 else "e"
                coeffs.append(f"{mant}{letter}{int(ex):+03d}")
            ents.append({"tmid": tm_s, "rphase": rp_s, "f0": F0s, "span": span, "coeffs": coeffs})
        text = make_polyco(ents)
        inst = f"ncoeff={ncoef},span={span},rphase={rph}"
        try:
            p = pb.PhasePredictor.from_polyco(io.StringIO(text))
        except Exception as e:
            fail("from_polyco", "parse.raises", inst, f"{type(e).__name__}: {e}")
            continue
        ev += 1
        distinct.add(inst)
        if len(samples) < 1:
            samples.append({"polyco_head": text.splitlines()[:3], "entries": nent})
        # intervals: spans merged where they touch
        try:
            iv = p.intervals
            exp_first = (Time(ents[0]["tmid"], format="mjd") - span / 2 * u.min, Time(ents[2]["tmid"], format="mjd") + span / 2 * u.min)
            exp_last = (Time(ents[3]["tmid"], format="mjd") - span / 2 * u.min, Time(ents[3]["tmid"], format="mjd") + span / 2 * u.min)
            ok = len(iv) == 2 and all(abs((a - b).to_value(u.s)) < 1e-3 for a, b in zip(iv[0], exp_first)) and all(abs((a - b).to_value(u.s)) < 1e-3 for a, b in zip(iv[1], exp_last))
            if not ok:
                fail("intervals", "merged-spans", inst, [[str(t.mjd) for t in x] for x in iv])
        except Exception as e:
            fail("intervals", "intervals.raises", inst, f"{type(e).__name__}: {e}")
        # predictions inside each entry's span
        for k, e in enumerate(ents):
            tm = Time(e["tmid"], format="mjd", precision=9)
            for fr_ in (-0.49, -0.25, 0.0, 0.3, 0.49):
                t = tm + fr_ * span * u.min
                ev += 1
                try:
                    ph = p(t)
                except Exception as ex_:
                    fail("__call__", "predict.raises", f"{inst} entry {k} at {fr_}", f"{type(ex_).__name__}: {ex_}")
                    continue
                # the entry used must contain t; near shared span edges either neighbour is valid
                cands = [j for j, ej in enumerate(ents) if abs(time_minus_mjd_minutes(t, ej["tmid"])) <= Fraction(span, 2) + Fraction(1, 10 ** 6)]
                got = exact_phase(ph)
                errs = [abs(got - tempo_phase(ents[j], time_minus_mjd_minutes(t, ents[j]["tmid"]))) for j in cands]
                if not errs or min(errs) > Fraction(1, 10 ** 8):
                    fail("__call__", "tempo-formula", f"{inst} entry {k} at {fr_}", f"min error {float(min(errs)) if errs else None}")
                # frequency and derivative
                try:
                    f0 = p.f0(t).to_value(u.cycle / u.s)
                    f1 = p.f0(t, 1).to_value(u.cycle / u.s ** 2)
                    w0 = [float(tempo_freq(ents[j], time_minus_mjd_minutes(t, ents[j]["tmid"]), 0)) for j in cands]
                    w1 = [float(tempo_freq(ents[j], time_minus_mjd_minutes(t, ents[j]["tmid"]), 1)) for j in cands]
                    if min(abs(f0 - w) for w in w0) > 1e-9 * abs(w0[0]) or min(abs(f1 - w) for w in w1) > 1e-6 * max(abs(w1[0]), 1e-12):
                        fail("f0", "derivatives", f"{inst} entry {k} at {fr_}", f"f0 {f0} vs {w0}, f1 {f1} vs {w1}")
                except Exception as ex_:
                    fail("f0", "f0.raises", f"{inst} entry {k}", f"{type(ex_).__name__}: {ex_}")
            # phasepol reproduces the prediction around its reference time
            ev += 1
            try:
                t0 = tm + 0.1 * span * u.min
                q, r = p.phasepol(t0)
                for dx in (-60.0, 0.0, 45.0):
                    want = exact_phase(p(t0 + dx * u.s))
                    got = exact_phase(r) + Fraction(float(q(dx)))
                    if abs(got - want) > Fraction(1, 10 ** 6):
                        fail("phasepol", "reproduces-prediction", f"{inst} entry {k} dx={dx}", float(got - want))
            except Exception as ex_:
                fail("phasepol", "phasepol.raises", f"{inst} entry {k}", f"{type(ex_).__name__}: {ex_}")
            # time_at inverts the prediction
            ev += 1
            try:
                t1 = tm + 0.2 * span * u.min
                ph1 = p(t1)
                tb = p.time_at(ph1)
                if abs((tb - t1).to_value(u.s)) > 1e-6:
                    fail("time_at", "inverts-prediction", f"{inst} entry {k}", (tb - t1).to_value(u.s))
            except Exception as ex_:
                fail("time_at", "time_at.raises", f"{inst} entry {k}", f"{type(ex_).__name__}: {str(ex_)[:120]}")
        # outside every span -> ValueError (times and phases)
        for t in (Time(ents[0]["tmid"], format="mjd") - (span / 2 + 1) * u.min, Time(ents[3]["tmid"], format="mjd") + (span / 2 + 1) * u.min,
                  Time(ents[2]["tmid"], format="mjd") + (span / 2 + span) * u.min):
            ev += 1
            try:
                p(t)
                fail("__call__", "outside-span.accepted", inst, str(t.mjd))
            except ValueError:
                pass
            except Exception as ex_:
                fail("__call__", "outside-span.wrong-error", inst, type(ex_).__name__)
        ev += 1
        try:
            p.time_at(pb.Phase(float(math.floor(frac_of(ents[0]["rphase"]))) - 1e6))
            fail("time_at", "outside-phase.accepted", inst, "no error")
        except ValueError:
            pass
        except Exception as ex_:
            fail("time_at", "outside-phase.wrong-error", inst, f"{type(ex_).__name__}: {str(ex_)[:100]}")
        # an array with a single time outside every span raises like a scalar outside does
        ev += 1
        try:
            tmix = Time(ents[1]["tmid"], format="mjd") + np.array([0.0, 0.2, -(2.5 * span)]) * u.min
            p(tmix)
            fail("__call__", "outside-span.accepted", inst, "array with one time before the first span")
        except ValueError:
            pass
        except Exception as ex_:
            fail("__call__", "outside-span.wrong-error", inst, f"array with one outside time: {type(ex_).__name__}")
        # arrays of times
        ev += 1
        try:
            ts = Time(ents[1]["tmid"], format="mjd") + np.array([-0.3, 0.0, 0.4, 1.2]) * span * u.min
            pa = p(ts)
            for j in range(4):
                if exact_phase(pa[j]) != exact_phase(p(ts[j])):
                    fail("__call__", "array==scalar", inst, j)
        except Exception as ex_:
            fail("__call__", "array.raises", inst, f"{type(ex_).__name__}: {str(ex_)[:100]}")
    # ---- coefficient counts 1 and 2, negative reference phases, times given in other time scales, reordered subsets
    def entry(tmid, rphase, ncoef, f0="100.000000000000", span=60):
        cs = ["1.00000000000000000e-01", "2.00000000000000000e-03", "-3.00000000000000000D-06", "4.00000000000000000e-09"][:ncoef]
        return {"tmid": tmid, "rphase": rphase, "f0": f0, "span": span, "coeffs": cs}
    for what, ents in (("ncoeff=1", [entry("56500.50000000000", "1000.250000", 1)]), ("ncoeff=2", [entry("56500.50000000000", "1000.250000", 2)]),
                       ("negative-rphase", [entry("56500.50000000000", "-1000.250000", 3)]), ("negative-rphase-fraction-only", [entry("56500.50000000000", "-0.250000", 3)])):
        ev += 1
        distinct.add(what)
        try:
            p = pb.PhasePredictor.from_polyco(io.StringIO(make_polyco(ents)))
            t = Time(ents[0]["tmid"], format="mjd", precision=9) + 7 * u.min
            got = exact_phase(p(t))
            want = tempo_phase(ents[0], time_minus_mjd_minutes(t, ents[0]["tmid"]))
            if abs(got - want) > Fraction(1, 10 ** 8):
                fail("from_polyco", f"parse.{what}.value", what, f"error {float(got - want):.3e}")
        except Exception as e:
            fail("from_polyco", f"parse.{what}.raises", what, f"{type(e).__name__}: {str(e)[:100]}")
    two = [entry("56500.50000000000", "1000.250000", 3), entry("56500.54166666667", "361000.250000", 3)]
    try:
        p = pb.PhasePredictor.from_polyco(io.StringIO(make_polyco(two)))
        tA = Time(two[0]["tmid"], format="mjd", precision=9) + (30 * u.min - 10 * u.s)       # 10 s before the end of entry A
        wantA = exact_phase(p(tA))
        for scale in ("tai", "tt", "tdb"):
            ev += 1
            distinct.add(("scale", scale))
            try:
                got = exact_phase(p(getattr(tA, scale)))
                # the same instant: entry and result must not depend on the scale the Time is expressed in
                # (dt measured in the other scale may differ by the scale's rate, < 1e-9 relative over a span)
                if abs(got - wantA) > Fraction(1, 10 ** 3):
                    fail("_get_index_and_dt", f"time-scale.{scale}.value", f"t = end of entry A - 10 s given in {scale}", f"differs by {float(got - wantA):.3f} cycles from the UTC form")
            except Exception as e:
                fail("_get_index_and_dt", f"time-scale.{scale}.raises", scale, f"{type(e).__name__}: {str(e)[:80]}")
        for what, sub in (("reversed", lambda: p[::-1]), ("picked [1, 0]", lambda: p[[1, 0]])):
            ev += 1
            distinct.add(("subset", what))
            try:
                q = sub()
                for ent in two:
                    t = Time(ent["tmid"], format="mjd", precision=9) + 3 * u.min
                    if abs(exact_phase(q(t)) - exact_phase(p(t))) > Fraction(1, 10 ** 8):
                        fail("_get_index_and_dt", "subset-order.value", f"entries {what}", "prediction differs from the sorted predictor")
                        break
            except Exception as e:
                fail("_get_index_and_dt", "subset-order.raises", f"entries {what}", f"{type(e).__name__}: {str(e)[:80]}")
        # an array of times in no particular order, first and last in the same entry
        ev += 1
        distinct.add("unsorted-array")
        try:
            tA = Time(two[0]["tmid"], format="mjd", precision=9)
            tB = Time(two[1]["tmid"], format="mjd", precision=9)
            ts = Time([(tA + 3 * u.min).mjd, (tB + 2 * u.min).mjd, (tB - 4 * u.min).mjd, (tA - 5 * u.min).mjd], format="mjd", precision=9)
            pa = p(ts)
            for j in range(4):
                if abs(exact_phase(pa[j]) - exact_phase(p(ts[j]))) > Fraction(1, 10 ** 8):
                    fail("__call__", "array==scalar.unsorted-times", "times ordered [A, B, B, A]", f"element {j} differs from the scalar prediction")
                    break
        except Exception as e:
            fail("__call__", "array.unsorted-times.raises", "times ordered [A, B, B, A]", f"{type(e).__name__}: {str(e)[:80]}")
        # the empty subset of entries: no validity interval, every time is outside
        ev += 1
        distinct.add("empty-subset")
        try:
            q0 = p[np.zeros(len(p), dtype=bool)]
            if len(q0.intervals) != 0:
                fail("intervals", "empty-subset.intervals", "p[all-False mask]", repr(q0.intervals)[:80])
            try:
                q0(Time(two[0]["tmid"], format="mjd"))
                fail("__call__", "empty-subset.accepted", "p[all-False mask](t)", "no error")
            except ValueError:
                pass
        except Exception as e:
            fail("intervals", "empty-subset.raises", "p[all-False mask]", f"{type(e).__name__}: {str(e)[:80]}")
        # time_at at the ends of the validity range and for an array of phases
        t_lo = Time(two[0]["tmid"], format="mjd", precision=9) - 30 * u.min
        t_hi = Time(two[1]["tmid"], format="mjd", precision=9) + 30 * u.min
        for what, t in (("span-start", t_lo), ("span-end", t_hi), ("100us-before-end", t_hi - 100 * u.us)):
            ev += 1
            distinct.add(("time_at-edge", what))
            try:
                back = p.time_at(p(t))
                if abs((back - t).to_value(u.s)) > 1e-6:
                    fail("time_at", "inverts-prediction.at-range-edge", what, f"off by {(back - t).to_value(u.s):.3e} s")
            except Exception as e:
                fail("time_at", "inverts-prediction.at-range-edge", what, f"{type(e).__name__}: {str(e)[:80]}")
        ev += 1
        distinct.add("time_at-array")
        try:
            ts = Time(two[0]["tmid"], format="mjd", precision=9) + np.array([-5.0, 1.0, 12.0]) * u.min
            back = p.time_at(p(ts))
            if np.max(np.abs((back - ts).to_value(u.s))) > 1e-6:
                fail("time_at", "inverts-prediction.array-of-phases", "3 times", "wrong times")
        except Exception as e:
            fail("time_at", "inverts-prediction.array-of-phases", "3 times in one entry", f"{type(e).__name__}: {str(e)[:80]}")
    except Exception as e:
        fail("from_polyco", "two-entry.raises", "two entries", f"{type(e).__name__}: {str(e)[:100]}")
    # "for every tempo-style polyco file": the widest spans and fastest rotators the format can carry.  One entry,
    # NSPAN = 9999 min (a week; the widest the whitespace-separated header can carry), F0 = 716.358 Hz: 60*DT*F0 reaches 2e8 cycles, where one double resolves 3e-8
    ent = {"tmid": "56500.50000000000", "rphase": "1193219.345678", "f0": "716.358000000000", "span": 9999,
           "coeffs": ["1.25000000000000000e-03", "-3.10000000000000000D-05", "2.00000000000000000e-11"]}
    try:
        p = pb.PhasePredictor.from_polyco(io.StringIO(make_polyco([ent])))
        tm = Time(ent["tmid"], format="mjd", precision=9)
        worst, at = Fraction(0), None
        for i in range(41):
            fr_ = -0.49 + 0.98 * i / 40
            t = tm + fr_ * ent["span"] * u.min
            ev += 1
            err = abs(exact_phase(p(t)) - tempo_phase(ent, time_minus_mjd_minutes(t, ent["tmid"])))
            if err > worst:
                worst, at = err, fr_
        distinct.add("long-span")
        if worst > Fraction(1, 10 ** 8):
            fail("__call__", "long-span.precision", f"NSPAN=9999 min, F0=716.358 Hz, t = TMID {at:+.4f} span", f"error {float(worst):.2e} cycles (> 1e-8)")
    except Exception as ex_:
        fail("__call__", "long-span.raises", "NSPAN=9999 min, F0=716.358 Hz", f"{type(ex_).__name__}: {ex_}")
    return {"evaluations": ev, "distinct_nontrivial": max(2, len(distinct)), "failures": fails, "samples": samples}
