"""Bounded complements for C16 (never counted as proved): non-finite metadata and pickling."""
import pickle
import numpy as np
import astropy.units as u
from astropy.time import Time


def bounded(pb, interp, rng, tier):
    import dask.array as da
    ev, fails, distinct = 0, [], set()

    def fail(fn, what, inst, detail):
        fails.append({"function": f"pulsarbat.core.{fn}", "what": what, "instance": inst, "inputs": {"case": inst}, "observed": str(detail)[:200], "status": "mismatch"})
    t0 = Time(59000.5, format="mjd")
    x = np.arange(24, dtype=np.float64).reshape(6, 2, 2)
    xc = (x + 1j * x).astype(np.complex64)
    xs = np.arange(48, dtype=np.float32).reshape(6, 2, 4)
    xsig = {"Signal": x, "RadioSignal": x, "IntensitySignal": x, "FullStokesSignal": xs, "BasebandSignal": xc, "DualPolarizationSignal": xc}
    base = {
        "Signal": dict(sample_rate=1 * u.kHz, start_time=t0, meta={"a": [1, 2]}),
        "RadioSignal": dict(sample_rate=1 * u.kHz, start_time=t0, center_freq=1 * u.GHz, chan_bw=2 * u.MHz, freq_align="top"),
        "IntensitySignal": dict(sample_rate=1 * u.kHz, center_freq=1 * u.GHz, chan_bw=2 * u.MHz, freq_align="bottom"),
        "FullStokesSignal": dict(sample_rate=1 * u.kHz, start_time=t0, center_freq=1 * u.GHz, chan_bw=2 * u.MHz),
        "BasebandSignal": dict(sample_rate=1 * u.MHz, start_time=t0, center_freq=1 * u.GHz, freq_align="top", meta={"k": "v"}),
        "DualPolarizationSignal": dict(sample_rate=1 * u.MHz, center_freq=1 * u.GHz, pol_type="circular"),
    }
    nan = float("nan")
    for cname, kw in base.items():
        cls = getattr(pb, cname)
        data = xsig[cname]
        # non-finite "positive" quantities are not positive
        for field in ("sample_rate", "chan_bw"):
            if field not in kw:
                continue
            for bad in (nan * u.Hz, nan / u.s, -np.inf * u.Hz):
                ev += 1
                distinct.add((cname, field, str(bad)))
                k2 = dict(kw)
                k2[field] = bad
                try:
                    cls(data, **k2)
                    fail(f"{cname}.__init__", f"non-finite-{field}.accepted", f"{cname} {field}={bad}", "no error")
                except ValueError:
                    pass
                except Exception as e:
                    fail(f"{cname}.__init__", f"non-finite-{field}.wrong-error", f"{cname} {field}={bad}", type(e).__name__)
            s = cls(data, **kw)
            ev += 1
            try:
                setattr(s, field, nan * u.Hz)
                fail(f"{cname}.{field}", f"non-finite-{field}.assignment-accepted", cname, "no error")
            except ValueError:
                pass
            except Exception as e:
                fail(f"{cname}.{field}", f"non-finite-{field}.assignment-wrong-error", cname, type(e).__name__)
        # values of unhashable / array kinds for the enumerated attributes, complex "positive" quantities
        probes = []
        if "freq_align" in kw or cname in ("RadioSignal", "IntensitySignal", "FullStokesSignal", "BasebandSignal", "DualPolarizationSignal"):
            probes += [("freq_align", ["center"]), ("freq_align", np.array("top")), ("freq_align", {"top": 1})]
        if cname == "DualPolarizationSignal":
            probes += [("pol_type", ["linear"]), ("pol_type", {}), ("pol_type", np.array(["linear"]))]
        probes += [("sample_rate", 5j * u.Hz), ("sample_rate", (1 - 5j) * u.kHz)]
        if "chan_bw" in kw:
            probes += [("chan_bw", 2j * u.MHz)]
        for field, bad in probes:
            ev += 1
            distinct.add((cname, field, repr(bad)))
            k2 = dict(kw)
            k2[field] = bad
            try:
                cls(data, **k2)
                fail(f"{cname}.__init__", f"invalid-{field}.accepted", f"{cname} {field}={bad!r}", "no error")
            except ValueError:
                pass
            except Exception as e:
                fail(f"{cname}.__init__", f"invalid-{field}.wrong-error", f"{cname} {field}={bad!r}", f"{type(e).__name__}: {e}")
            s = cls(data, **kw)
            try:
                setattr(s, field, bad)
                fail(f"{cname}.{field}", f"invalid-{field}.assignment-accepted", f"{cname} {field}={bad!r}", "no error")
            except ValueError:
                pass
            except Exception as e:
                fail(f"{cname}.{field}", f"invalid-{field}.assignment-wrong-error", f"{cname} {field}={bad!r}", f"{type(e).__name__}: {e}")
        # a refused augmented assignment leaves the object (and signals made from it) valid
        import copy
        s = cls(data, **copy.deepcopy(kw))      # the library stores the caller's Quantity objects
        c2 = s[:]
        ev += 1
        try:
            s.sample_rate *= -1
            fail(f"{cname}.sample_rate", "augmented-assignment.accepted", cname, "no error")
        except ValueError:
            if not (s.sample_rate > 0 and c2.sample_rate > 0):
                fail(f"{cname}.sample_rate", "augmented-assignment.rejected-but-object-invalid", f"{cname}: s.sample_rate *= -1",
                     f"after the ValueError s.sample_rate = {s.sample_rate}, slice made before = {c2.sample_rate}")
        except Exception as e:
            fail(f"{cname}.sample_rate", "augmented-assignment.wrong-error", cname, type(e).__name__)
        # pickling reproduces every attribute
        for be in ("numpy", "dask"):
            d = data if be == "numpy" else da.from_array(data, chunks=(-1, 1, 1) if data.ndim == 3 else (-1, 1))
            s = cls(d, **kw)
            ev += 1
            distinct.add((cname, "pickle", be))
            try:
                r = pickle.loads(pickle.dumps(s))
            except Exception as e:
                fail(f"{cname}", "pickle.raises", f"{cname},{be}", f"{type(e).__name__}: {e}")
                continue
            same = type(r) is type(s) and r.shape == s.shape and r.dtype == s.dtype and np.array_equal(np.asarray(r.data), np.asarray(s.data))
            for a in ("sample_rate", "start_time", "center_freq", "chan_bw", "freq_align", "pol_type", "meta"):
                if hasattr(s, a):
                    va, vb = getattr(s, a), getattr(r, a)
                    same = same and ((va is None and vb is None) or (va is not None and vb is not None and (va == vb if not hasattr(va, "jd1") else (va.jd1, va.jd2) == (vb.jd1, vb.jd2))))
            if not same:
                fail(f"{cname}", "pickle.round-trip", f"{cname},{be}", "attributes differ after pickling")
    # dtypes outside every allowed set and with no safe cast into it: refused with ValueError, never an object,
    # whatever kind they are (the statement says "unsafe ones refused ... raise ValueError")
    exotic = {"datetime64": "M8[us]", "timedelta64": "m8[ms]", "structured": [("re", "f4"), ("im", "f4")], "void": "V8",
              "bytes": "S4", "str": "U3", "object": "O", "clongdouble": "G", "longdouble": "g"}
    for cname in ("IntensitySignal", "FullStokesSignal", "BasebandSignal", "DualPolarizationSignal"):
        cls = getattr(pb, cname)
        for label, code in exotic.items():
            try:
                arr = np.zeros(xsig[cname].shape, dtype=code)
            except Exception:
                continue
            for be in ("numpy", "dask"):
                if be == "dask" and label == "object":
                    continue
                d = arr if be == "numpy" else da.from_array(arr, chunks=(3,) + arr.shape[1:])
                ev += 1
                distinct.add((cname, "exotic", label, be))
                try:
                    cls(d, **base[cname])
                    fail(f"{cname}.__init__", "exotic-dtype.accepted", f"{cname},{label},{be}", "an object was created")
                except ValueError:
                    pass
                except Exception as e:
                    fail(f"{cname}.__init__", "exotic-dtype.wrong-error", f"{cname},{label},{be}", f"{type(e).__name__}: {e}")
    return {"evaluations": ev, "distinct_nontrivial": len(distinct), "failures": fails, "samples": [{"case": "RadioSignal(sample_rate=nan Hz) must raise ValueError"}]}
