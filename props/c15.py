"""Bounded stand-in for C15 (never counted as proved): ordering / reductions of near-tie Phases and
decimal I/O over an enumerated grammar, against exact rational arithmetic."""
from decimal import Decimal, ROUND_HALF_EVEN
from fractions import Fraction
import itertools
import numpy as np

EPS = Fraction(1, 2 ** 52)


def fr(x):
    return Fraction(float(x))


def exact_arr(p):
    v = np.asarray(p.view(np.ndarray))
    return [fr(a) + fr(b) for a, b in zip(v["int"].ravel(), v["frac"].ravel())]


def dec_value(s):
    """Exact value of a plain decimal string (optional sign, E/D exponent, trailing j)."""
    t = s.strip().lower().replace("d", "e")
    if t.endswith(" cycle"):          # format(p, '.0f') goes through Angle's formatter, which appends the unit
        t = t[: -len(" cycle")]
    imag = t.endswith("j")
    if imag:
        t = t[:-1]
    return Fraction(Decimal(t)), imag


def bounded(pb, interp, rng, tier):
    Phase = pb.Phase
    ev, fails, samples, distinct = 0, [], [], set()

    def fail(fn, what, inst, detail):
        if len(fails) < 4000:
            fails.append({"function": f"pulsarbat.pulsar.phase.{fn}", "what": what, "instance": inst, "inputs": {"case": inst}, "observed": detail, "status": "mismatch"})

    # ------------------------------------------------------------------ ordering on the two-part value
    big = [2.0 ** 52 - 3, 2.0 ** 51, 1e15, 12345678901.0, 0.0, -2.0 ** 51, -(2.0 ** 52 - 3)]
    tiny = [0.0, 2.0 ** -50, -2.0 ** -50, 3e-16 * 8, 0.25, -0.25, 0.5, -0.5, 0.5 - 2.0 ** -50]
    cases = []
    for c in big:
        fs = tiny if tier == "thorough" else tiny[:6]
        cases.append([(c, f) for f in fs] + [(c + 1, -0.5), (c, 0.5)])      # includes the two normal forms of a tie
    # wide dynamic range in one array: near-ties far below one ulp of the largest count, next to small values
    for top in (2.0 ** 40, -(2.0 ** 40), 2.0 ** 51):
        cases.append([(0.0, 0.3), (top, 0.1), (top, 0.1 + 1e-6), (-2.0, -0.8), (top, 0.1 - 1e-6), (5.0, 0.0), (top / 2, 0.25), (1.0, 0.5)])
    # near-ties one quarter-ulp apart at large counts and fractions beyond 1/4 (the cycle count rounds to a
    # half-integer there), and the two sides of a half-integer
    cases.append([(2.0 ** 51, 0.3125 + 2.0 ** -54), (2.0 ** 51, 0.3125), (2.0 ** 51, 0.3125 - 2.0 ** -54)])
    cases.append([(2.0 ** 50, -0.4375), (2.0 ** 50, -0.4375 + 2.0 ** -54), (7.0, 0.5 - 2.0 ** -54), (7.0, 0.5 - 2.0 ** -53)])
    cases.append([(3.0, -0.5), (2.0, 0.49999999999999994), (2.0, 0.5), (3.0, -0.49999999999999994)])
    for row in cases:
        try:
            p = Phase(np.array([c for c, f in row]), np.array([f for c, f in row]))
        except Exception as e:
            fail("Phase.__new__", "order.construct.raises", str(row[:2]), f"{type(e).__name__}: {e}")
            continue
        ex = exact_arr(p)
        n = len(ex)
        ev += 1
        distinct.add(("row", row[0][0]))
        import operator
        for opn, op in (("lt", operator.lt), ("le", operator.le), ("eq", operator.eq), ("ne", operator.ne), ("gt", operator.gt), ("ge", operator.ge)):
            try:
                got = op(p[:, None], p[None, :])
            except Exception as e:
                fail("Phase.__array_ufunc__", f"compare.{opn}.raises", f"count {row[0][0]}", f"{type(e).__name__}: {str(e)[:80]}")
                continue
            for i, j in itertools.product(range(n), range(n)):
                d = ex[i] - ex[j]
                if bool(got[i, j]) != op(ex[i], ex[j]):
                    fail("Phase.__array_ufunc__", f"compare.{opn}", f"{row[i]} vs {row[j]}", f"got {bool(got[i, j])}")
                    break
        # reductions: keys resolved down to 2^-52
        def well_separated(vals):
            s = sorted(vals)
            return all(b - a >= EPS or b == a for a, b in zip(s, s[1:]))
        if True:      # "decided on the exact two-part value": any two distinct representable values are ordered
            try:
                am, aM = int(p.argmin()), int(p.argmax())
                if ex[am] != min(ex) or ex[aM] != max(ex):
                    fail("Phase.argmin", "argmin/argmax", f"count {row[0][0]}", f"argmin={am} argmax={aM}")
                if exact_arr(p.min())[0] != min(ex) or exact_arr(p.max())[0] != max(ex):
                    fail("Phase.min", "min/max", f"count {row[0][0]}", "wrong element")
                srt = exact_arr(p.sort())
                if srt != sorted(ex):
                    fail("Phase.sort", "sort", f"count {row[0][0]}", "not sorted on the exact value")
                idx = p.argsort()
                if [ex[int(k)] for k in idx] != sorted(ex):
                    fail("Phase.argsort", "argsort", f"count {row[0][0]}", "wrong order")
                pt = p.ptp()
                if not isinstance(pt, Phase) or abs(exact_arr(pt)[0] - (max(ex) - min(ex))) > EPS:
                    fail("Phase.ptp", "ptp", f"count {row[0][0]}", repr(pt)[:80])
                for q in (p.min(), p.max(), p.sort(), pt):
                    v = np.asarray(q.view(np.ndarray))
                    if not np.all(v["int"] == np.rint(v["int"])) or np.any(np.abs(v["frac"]) > 0.5):
                        fail("Phase.min", "reduction.not-normalised", f"count {row[0][0]}", repr(q)[:80])
                # flattened order (axis=None) of a 2-d arrangement
                if len(row) >= 6:
                    pf = Phase(np.array([c for c, f in row[:6]]).reshape(2, 3), np.array([f for c, f in row[:6]]).reshape(2, 3))
                    ef = exact_arr(pf)
                    ia = np.asarray(pf.argsort(axis=None)).ravel()
                    if [ef[int(k)] for k in ia] != sorted(ef):
                        fail("Phase.argsort", "argsort.axis-none", f"count {row[0][0]}", str(ia))
                    if exact_arr(pf.sort(axis=None)) != sorted(ef):
                        fail("Phase.sort", "sort.axis-none", f"count {row[0][0]}", "not sorted on the exact value")
                # flattened order of non-contiguous views (transposed, reversed)
                if len(row) >= 6:
                    pc = Phase(np.array([c for c, f in row[:6]]).reshape(2, 3), np.array([f for c, f in row[:6]]).reshape(2, 3))
                    for vname, pv in (("T", pc.T), ("[:, ::-1]", pc[:, ::-1])):
                        evv = exact_arr(pv)
                        iv = np.asarray(pv.argsort(axis=None)).ravel()
                        if [evv[int(k)] for k in iv] != sorted(evv) or exact_arr(pv.sort(axis=None)) != sorted(evv):
                            fail("Phase.argsort", "argsort.axis-none.non-contiguous", f"count {row[0][0]} view {vname}", str(iv))
                            break
                # 2-d, along each axis
                if len(row) < 6:
                    continue
                p2 = Phase(np.array([c for c, f in row[:6]]).reshape(2, 3), np.array([f for c, f in row[:6]]).reshape(2, 3))
                e2 = np.array(exact_arr(p2), dtype=object).reshape(2, 3)
                for axis in (0, 1):
                    a = np.asarray(p2.argmin(axis))
                    want = np.array([[min(range(e2.shape[axis]), key=lambda k: (e2[k, j] if axis == 0 else e2[j, k])) for j in range(e2.shape[1 - axis])]]).ravel()
                    ok = all((e2[a.ravel()[j], j] if axis == 0 else e2[j, a.ravel()[j]]) == (e2[want[j], j] if axis == 0 else e2[j, want[j]]) for j in range(len(want)))
                    if not ok:
                        fail("Phase.argmin", f"argmin.axis{axis}", f"count {row[0][0]}", str(a))
            except Exception as e:
                fail("Phase.argmin", "reduction.raises", f"count {row[0][0]}", f"{type(e).__name__}: {str(e)[:100]}")
    # the two sides of a half-integer held in the two different normal forms (n+1, -1/2) and (n, 1/2 - 2^-54)
    try:
        a, b = Phase(2.5), Phase(2.5, -7e-17)
        ea, eb = exact_arr(a)[0], exact_arr(b)[0]
        ev += 1
        distinct.add("half-integer-forms")
        if ea != eb:
            import operator as _op
            for opn, op in (("eq", _op.eq), ("ne", _op.ne), ("lt", _op.lt), ("le", _op.le), ("gt", _op.gt), ("ge", _op.ge)):
                if bool(op(a, b)) != op(ea, eb) or bool(op(b, a)) != op(eb, ea):
                    fail("Phase.__array_ufunc__", f"compare.{opn}", "Phase(2.5) vs Phase(2.5, -7e-17)", f"stored {np.asarray(a.view(np.ndarray))} vs {np.asarray(b.view(np.ndarray))}: got {bool(op(a, b))}/{bool(op(b, a))}")
                    break
    except Exception as e:
        fail("Phase.__array_ufunc__", "compare.raises", "Phase(2.5) vs Phase(2.5, -7e-17)", f"{type(e).__name__}: {e}")
    # ------------------------------------------------------------------ decimal rendering
    vals = [(0.0, 0.0), (3.0, 0.0), (3.0, 0.125), (-3.0, -0.125), (12345678901.0, 0.3), (2.0 ** 52 - 1, 0.4999999999999999),
            (7.0, 0.5), (7.0, -0.5), (0.0, 1e-17), (0.0, -1e-9), (-1.0, 0.25), (99.0, 0.2499999), (5.0, 0.05), (5.0, 0.95), (0.0, 0.999999 - 1),
            (-1.0, 0.0), (-12345.0, 0.0), (-7.0, -0.0)]
    # fractions stored with the sign opposite to the phase: the renderer adds 1 to them in double precision
    vals_opposite = [(1.0, -0.45), (-482509.0, 0.415), (26.0, -2.0788963701966078e-13), (1.0, -1e-20)]
    vals = vals + vals_opposite
    for c, f in vals:
        try:
            p = Phase(c, f)
        except Exception as e:
            fail("Phase.__new__", "string.construct.raises", f"({c},{f})", f"{type(e).__name__}")
            continue
        ex = exact_arr(p)[0]
        ev += 1
        distinct.add(("to_string", c, f))
        try:
            s = str(p.to_string())
            v, im = dec_value(s)
            if im or abs(v - ex) > Fraction(1, 10 ** 16):
                fail("Phase.to_string", "to_string.value" + (".opposite-sign-fraction" if (c, f) in vals_opposite else ""), f"({c},{f})", f"{s!r} is off by {float(v - ex):.2e}")
            back = Phase.from_string(s)
            # rendering is only promised to 1e-16 cycles, so the round trip is exact up to that
            if abs(exact_arr(back)[0] - ex) > Fraction(1, 10 ** 16) or bool(back.imaginary):
                fail("Phase.from_string", "round-trip", f"({c},{f})", f"{s!r} -> {back!r}")
        except Exception as e:
            fail("Phase.to_string", "to_string/round-trip.raises", f"({c},{f})", f"{type(e).__name__}: {str(e)[:100]}")
        for prec in (0, 1, 2, 3, 6, 12, 18):
            ev += 1
            distinct.add(("format", c, f, prec))
            for what, thunk in ((f"format(.{prec}f)", lambda: format(p, f".{prec}f")), (f"to_string(precision={prec})", lambda: str(p.to_string(precision=prec)))):
                try:
                    s = thunk()
                    v, im = dec_value(s)
                except Exception as e:
                    fail("Phase.to_string", "fixed-point.malformed", f"({c},{f}) {what}", f"{type(e).__name__}: {str(e)[:60]} ({locals().get('s', '')!r})")
                    continue
                half = Fraction(1, 2 * 10 ** prec)
                digits = s.split(".")[1] if "." in s else ""
                if prec > 0 and len(digits.rstrip("j")) != prec:
                    fail("Phase.to_string", "fixed-point.digits", f"({c},{f}) {what}", repr(s))
                if abs(v - ex) > half:
                    fail("Phase.to_string", "fixed-point.value" + (".opposite-sign-fraction" if (c, f) in vals_opposite else ""), f"({c},{f}) {what}", f"{s!r} vs exact {float(ex)!r}")
    # ------------------------------------------------------------------ decimal parsing over the grammar
    digs = ["", "0", "5", "19", "905"]
    fracs = [None, "", "0", "5", "01", "950"]
    exps = [None, "e0", "E1", "d-1", "D2", "e-3", "e+10", "e15"]
    signs = ["", "+", "-"]
    tails = ["", "j"]
    grammar = []
    for sg, a, b, e, t in itertools.product(signs, digs, fracs, exps, tails):
        if a == "" and (b is None or b == ""):
            continue
        s = sg + a + ("" if b is None else "." + b) + (e or "") + t
        grammar.append(s)
    if tier != "thorough":
        grammar = grammar[::5] + ["0.5", "5", "1e3", "5.0", "0.0", "-0.18e-2", "123456789012345678.123456789012345678", "+.5", "5.", "0.5j"]
    else:
        grammar += ["123456789012345678.123456789012345678", "0.000000000000000000001234567890123", "4503599627370495.4999999999999999999"]
    samples.append({"grammar": "[sign] digits [. digits] [(e|E|d|D)[sign]digits] [j]", "strings": len(grammar), "example": grammar[7]})
    for s in grammar:
        ev += 1
        distinct.add(("parse", s))
        want, imag = dec_value(s)
        if abs(want) > 2 ** 52:
            continue
        try:
            p = Phase.from_string(s)
        except Exception as e:
            fail("Phase.from_string", "from_string.raises", repr(s), f"{type(e).__name__}: {str(e)[:80]}")
            continue
        # "a real string never yields an imaginary phase"; a non-zero imaginary string yields an imaginary one
        if (not imag and bool(p.imaginary)) or (imag and want != 0 and not bool(p.imaginary)):
            fail("Phase.from_string", "from_string.imaginary-flag", repr(s), f"imaginary={bool(p.imaginary)}")
            continue
        got = exact_arr(p)[0]
        if abs(got - want) > EPS:
            fail("Phase.from_string", "from_string.value", repr(s), f"off by {float(got - want):.3e}")
    return {"evaluations": ev, "distinct_nontrivial": len(distinct), "failures": fails, "samples": samples}
