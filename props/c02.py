"""Bounded complement for C02 (never counted as proved): frequency metadata given in mixed units (GHz / MHz / kHz),
where unit conversion rounds -- the deductive layer has exact unit algebra (model E)."""
import numpy as np
import astropy.units as u


def bounded(pb, interp, rng, tier):
    ev, fails = 0, []

    def fail(fn, what, inst, detail):
        if sum(1 for f_ in fails if f_["what"] == what) < 8:
            fails.append({"function": fn, "what": what, "instance": inst, "inputs": {"case": inst}, "observed": str(detail)[:200], "status": "mismatch"})
    cfs = [1.4 * u.GHz, 800 * u.MHz, 123.456789 * u.MHz, 1e9 * u.Hz, 0.4 * u.GHz, 327 * u.MHz]
    bws = [1 * u.MHz, 10 * u.MHz, 0.5 * u.kHz, 137 * u.Hz, 31.25 * u.kHz, 0.001 * u.GHz, 200 * u.kHz, 1 / (3 * u.us)]
    ns = [1, 2, 3, 7, 8, 16] if tier != "thorough" else [1, 2, 3, 4, 5, 7, 8, 9, 16, 64]
    off = {"bottom": 0.0, "center": 0.5, "top": 1.0}
    for cf in cfs:
        for bw in bws:
            for n in ns:
                for al in ("bottom", "center", "top"):
                    ev += 1
                    inst = f"center_freq={cf}, chan_bw={bw}, nchan={n}, {al}"
                    try:
                        z = pb.RadioSignal(np.zeros((4, n)), sample_rate=1 * u.kHz, center_freq=cf, chan_bw=bw, freq_align=al)
                        f = z.channel_freqs
                        c, b = cf.to_value(u.Hz), bw.to_value(u.Hz)
                        want = c + b * (np.arange(n) + off[z.freq_align] - n / 2)      # the alignment the signal reports (odd counts are centred)
                        tol = 8 * np.finfo(float).eps * (abs(c) + n * b)
                        if f.shape != (n,):
                            fail("pulsarbat.core.RadioSignal.channel_freqs", "label-count", inst, f"{f.shape[0]} labels for {n} channels")
                            continue
                        if np.max(np.abs(f.to_value(u.Hz) - want)) > tol:
                            fail("pulsarbat.core.RadioSignal.channel_freqs", "label-values", inst, f"max deviation {np.max(np.abs(f.to_value(u.Hz) - want)):.3e} Hz")
                        if abs(z.max_freq.to_value(u.Hz) - z.min_freq.to_value(u.Hz) - n * b) > tol or abs((z.max_freq + z.min_freq).to_value(u.Hz) / 2 - c) > tol:
                            fail("pulsarbat.core.RadioSignal.max_freq", "band-edges", inst, f"{z.min_freq} .. {z.max_freq}")
                        if n >= 3:
                            y = z[:, 1:n - 1]
                            g = y.channel_freqs.to_value(u.Hz)
                            if g.shape != (n - 2,) or np.max(np.abs(g - want[1:n - 1])) > tol:
                                fail("pulsarbat.core.RadioSignal.__getitem__", "slice-keeps-labels", inst, "labels of z[:, 1:-1] differ from the selected labels")
                    except Exception as e:
                        fail("pulsarbat.core.RadioSignal.channel_freqs", "raises", inst, f"{type(e).__name__}: {e}")
    return {"evaluations": ev, "distinct_nontrivial": ev, "failures": fails, "samples": [{"center_freqs": [str(c) for c in cfs], "chan_bws": [str(b) for b in bws]}]}
