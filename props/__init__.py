"""Property registry: which contract modules serve each property, level, trusted base, bounded extras."""
E_MODEL = "machine arithmetic treated as mathematical: floats, Quantity magnitudes and Time are exact reals (model E)"
PY_SEM = "Python semantics as encoded by pyvc (DESIGN 3.1): left-to-right evaluation, MRO from the AST, no monkey-patching, unbounded ints"
STUBS = "assumed contracts of NumPy/Astropy/Dask calls (pyvc/stubs_*.py), cross-checked by the bounded layer only"

PROPS = {
    "C01": {"level": "proof", "modules": ["contracts.core"],
            "technique": "contract-based deductive verification (AST->z3/cvc5 obligations against spec functions) + bounded differential replay",
            "level_text": "every obligation generated from the real source of the slicing/cropping functions (time-stamp ledger: start_time, sample_rate, length, data source index, for any slice bounds/step and any length) is discharged by z3/cvc5 for all values of the symbolic inputs; real Time rounding is only covered by the bounded layer",
            "level_note": "trusted: pyvc's encoding of Python, stubs for slice.indices/ndarray indexing/Quantity/Time (model E: exact reals), solver soundness; bounded layer compares the real code with the concrete spec on seeded inputs",
            "trusted_base": [E_MODEL, PY_SEM, STUBS, "z3 4.x/5.1 and cvc5 soundness"],
            "assumptions": ["Time +/- Quantity exact (model E); real Time rounding re-checked by the bounded layer at 1e-10 s"],
            "bounded_bounds": "N in {0,1,2,3,5,8,13}, sample dims 1..3, slice bounds in [-9,9], steps {1,2,3,7}"},
}

NOT_APPLICABLE = {}
