"""Property registry: which contract modules serve each property, level, trusted base, bounded extras."""
E_MODEL = "machine arithmetic treated as mathematical: floats, Quantity magnitudes and Time are exact reals (model E)"
PY_SEM = "Python semantics as encoded by pyvc (DESIGN 3.1): left-to-right evaluation, MRO from the AST, no monkey-patching, unbounded ints"
STUBS = "assumed contracts of NumPy/Astropy/Dask calls (pyvc/stubs_*.py), cross-checked by the bounded layer only"

from props import c17 as _c17
from props import c18 as _c18

PROPS = {
    "C01": {"level": "proof", "modules": ["contracts.core", "contracts.utils", "contracts.transforms"],
            "technique": "contract-based deductive verification (AST->z3/cvc5 obligations against spec functions) + bounded differential replay",
            "level_text": "every obligation generated from the real source of the slicing/cropping functions (time-stamp ledger: start_time, sample_rate, length, data source index, for any slice bounds/step and any length) is discharged by z3/cvc5 for all values of the symbolic inputs; real Time rounding is only covered by the bounded layer",
            "level_note": "trusted: pyvc's encoding of Python, stubs for slice.indices/ndarray indexing/Quantity/Time (model E: exact reals), solver soundness; bounded layer compares the real code with the concrete spec on seeded inputs",
            "trusted_base": [E_MODEL, PY_SEM, STUBS, "z3 4.x/5.1 and cvc5 soundness"],
            "assumptions": ["Time +/- Quantity exact (model E); real Time rounding re-checked by the bounded layer at 1e-10 s"],
            "bounded_bounds": "N in {0,1,2,3,5,8,13}, sample dims 1..3, slice bounds in [-9,9], steps {1,2,3,7}"},
    "C02": {"level": "proof", "modules": ["contracts.core", "contracts.utils", "contracts.transforms"],
            "technique": "contract-based deductive verification (AST->z3/cvc5 obligations against spec functions) + bounded differential replay",
            "level_text": "channel_freqs/min_freq/max_freq/bandwidth/_freq_slice/__getitem__/Stokes access are verified against the band model of the statement for every channel count, alignment, centre, bandwidth and slice (nonlinear real arithmetic, all inputs symbolic); float rounding of labels only in the bounded layer",
            "level_note": "trusted: pyvc's encoding of Python, stubs for slice.indices/np.arange/np.take/Quantity algebra (model E), solver soundness",
            "trusted_base": [E_MODEL, PY_SEM, STUBS, "z3/cvc5 soundness"],
            "assumptions": ["frequencies are exact reals (model E); 8-ulp label comparison on real doubles in the bounded layer"],
            "bounded_bounds": "nchan 1..3 (x extra dims), cf in {0, 4e8, 1.4e9, 123456789}, bw over decades, slice bounds in [-9,9]"},
    "C16": {"level": "proof", "modules": ["contracts.core", "contracts.utils", "contracts.transforms"],
            "technique": "contract-based deductive verification (AST->z3/cvc5 obligations against spec functions) + bounded differential replay",
            "level_text": "the six constructors (run through the real __init__ chain and setters), like() for every (target, source) class pair, and every slicing path are verified against the class contract of the statement: each violated clause raises ValueError, otherwise the object carries exactly the prescribed attributes (baseband chan_bw = sample_rate, odd channel count -> 'center'); pickling is bounded only",
            "level_note": "trusted: pyvc's encoding of Python incl. inspect.signature answered from the AST, stubs for Quantity/Time/astype(casting='safe' answered by the installed NumPy), solver soundness",
            "trusted_base": [E_MODEL, PY_SEM, STUBS, "z3/cvc5 soundness"],
            "assumptions": ["Time(x, format='isot', precision=9) accepts exactly Time instances among the modelled argument kinds"],
            "bounded_bounds": "dims 0..13, all listed invalid-argument kinds, dtypes bool/int64/float32/float64/complex64/complex128"},
    "C13": {"level": "proof", "modules": ["contracts.core", "contracts.utils", "contracts.transforms"],
            "technique": "contract-based deductive verification (AST->z3 nonlinear real arithmetic, division-free) + bounded differential replay",
            "level_text": "to_linear/to_circular/to_stokes/to_intensity/Stokes access verified element-wise against the formulas of the statement for every complex sample value, both bases, both widths, NumPy and Dask containers; unitarity, round trips, basis independence of Stokes, I^2=Q^2+U^2+V^2, I>=0 and I=sum of intensities are lemmas discharged over compositions of the real methods; float rounding (a few ulp) only in the bounded layer",
            "level_note": "trusted: pyvc's encoding, stubs np.take/np.stack/.real/.imag/.conj/NEP-50 promotion (answered by the installed NumPy), 1/sqrt(2) as a symbolic constant h with 2h^2=1, solver soundness",
            "trusted_base": [E_MODEL, PY_SEM, STUBS, "z3/cvc5 soundness"],
            "assumptions": ["complex arithmetic exact (model E); bounded layer tolerance 1e-5 relative to the largest sample"],
            "bounded_bounds": "N in {0..13}, nchan 1..3, extra dim 1..3, coded pseudo-random samples in [-1,1)"},
    "C17": {"level": "proof", "modules": ["contracts.core", "contracts.utils", "contracts.transforms"],
            "technique": "contract-based deductive verification of __array_ufunc__/__array__ against a spec over an uninterpreted ufunc + bounded sweep of real NumPy ufuncs",
            "level_text": "for an arbitrary element-wise ufunc (uninterpreted, 1-3 inputs, 1-2 outputs) every operand arrangement, out= form, class and back end: the wrapper unwraps every signal, applies the ufunc to the data, returns the given out objects untouched in identity/metadata or wraps in type(self).like(self, .); non-call methods and matmul return NotImplemented; __array__ accepts the (dtype, copy) protocol. NumPy's own dispatch order and casting are assumed and exercised only by the bounded sweep",
            "level_note": "trusted: NumPy dispatches __array_ufunc__ to the first signal operand and turns NotImplemented into TypeError (bounded sweep only); pyvc encoding; solver",
            "trusted_base": [E_MODEL, PY_SEM, STUBS, "NumPy ufunc dispatch protocol (NEP 13)", "z3/cvc5 soundness"],
            "assumptions": ["a ufunc is an arbitrary element-wise function of the unwrapped operands (uninterpreted)"],
            "bounded_per_instance": {"quick": 0, "thorough": 0},
            "bounded_extra": [_c17.bounded],
            "bounded_bounds": "23 NumPy ufuncs x 5 classes x NumPy/Dask x 6 operand arrangements; out=, in-place chains, reduce/accumulate/outer/matmul refusals, asarray protocol"},
    "C18": {"level": "proof", "modules": ["contracts.core", "contracts.utils", "contracts.transforms"],
            "technique": "contract-based deductive verification with loop invariants, variants and ghost exponents (LIA + uninterpreted V=7^d5^c3^j2^a with ground lemma instances) + exhaustive bounded complement",
            "level_text": "for every N >= 0, with no bound: next_fast_len/prev_fast_len return a 7-smooth number (ghost exponent witness) on the right side of N and no 7-smooth number lies strictly between (optimality, via inductive invariants of the four nested loops of each function, re-derived from the real source on every run); all loops terminate (lexicographic variants); fast_len crops to exactly prev_fast_len(len) samples from the start",
            "level_note": "trusted: pyvc encoding of Python ints (unbounded), the induction principle behind the V lemmas (base/step discharged), lru_cache treated as identity (function is pure), solver soundness",
            "trusted_base": [PY_SEM, "V(d,c,j,a) axiomatised by its recurrences; positivity/monotonicity/parity instantiated at ground terms (base and step obligations discharged in lemma.C18.V)", "z3/cvc5 soundness"],
            "assumptions": ["functools.lru_cache is transparent for a pure function"],
            "bounded_per_instance": {"quick": 30, "thorough": 300},
            "bounded_extra": [_c18.bounded],
            "bounded_bounds": "exhaustive N < 20000 (quick) / 10^6 (thorough); s-1, s, s+1 for 3000 sampled (quick) / all 75711 (thorough) 7-smooth s < 2^62"},
}

NOT_APPLICABLE = {}
