"""Bounded stand-in for C11 (never counted as proved): the readers on the repository's sample files
against direct baseband.open(...).read, at frame/file boundaries, interleaved and from threads."""
import os
from concurrent.futures import ThreadPoolExecutor
import numpy as np
import astropy.units as u
from astropy.time import Time


def bounded(pb, interp, rng, tier):
    import baseband
    import baseband.base.base as _bbb
    import dask.array as da
    # baseband 4.2 calls astropy's deprecated isiterable() inside a block where it has armed
    # warnings as errors (file_info.continuous); whether that raises depends on the warning registry
    # state.  Dependency incompatibility, not pulsarbat behaviour: neutralise it for the harness.
    _bbb.isiterable = np.iterable
    root = os.path.dirname(os.path.dirname(pb.__file__))
    D = os.path.join(root, "tests", "data")
    if not os.path.isdir(D):
        D = "/repo/tests/data"      # sample files are fixtures of the repository, not code under test
    pbr = pb.readers
    ev, fails, samples, distinct = 0, [], [], set()

    def fail(fn, what, inst, detail):
        if sum(1 for f_ in fails if f_["what"] == what) < 8:      # cap per kind: a known finding must not crowd out a new failure
            fails.append({"function": f"pulsarbat.readers.{fn}", "what": what, "instance": inst, "inputs": {"case": inst}, "observed": str(detail)[:200], "status": "mismatch"})

    cases = []
    vd, dd = os.path.join(D, "sample.vdif"), os.path.join(D, "sample.dada")
    gup = [os.path.join(D, f"fake.{i}.raw") for i in range(4)]
    st = os.path.join(D, "stokes_ef.dada")
    with baseband.open(vd, "rs") as fh:
        vraw, vsr, vt0 = fh.read(), fh.sample_rate, fh.start_time
    with baseband.open(dd, "rs") as fh:
        draw, dsr, dt0 = fh.read(), fh.sample_rate, fh.start_time
    with baseband.open(gup, "rs", format="guppi", squeeze=False) as fh:
        graw, gsr, gt0, ghdr = fh.read(), fh.sample_rate, fh.start_time, fh.header0
    with baseband.open(st, "rs", format="dada", squeeze=False) as fh:
        sraw, ssr, st0, shdr = fh.read(), fh.sample_rate, fh.start_time, fh.header0
    lsb_mask = (np.arange(vraw.shape[1]) % 3).astype(bool)

    def expect_vdif_real(lsb):
        # real-sampled VDIF: Hilbert conversion of rows 2*offset..2*offset+2n
        def f(off, n):
            z = pb.utils.real_to_complex(vraw[2 * off: 2 * off + 2 * n], axis=0)
            # position-faithful: the quarter-rate mixer exp(-i pi k / 2) runs over the absolute raw index
            # k = 2*off + j, not over the index j within the chunk that was read: a factor (-1)^off
            z = z * (-1) ** (off % 2)
            if lsb is True:
                z = z.conj()
            elif lsb is not False:
                z[:, lsb] = z[:, lsb].conj()
            return z.astype(np.complex64)
        return f
    cases.append(("vdif-real-usb", lambda: pbr.BasebandReader(vd), expect_vdif_real(False), vsr / 2, vt0, len(vraw) // 2, False))
    cases.append(("vdif-real-lsb", lambda: pbr.BasebandReader(vd, lower_sideband=True), expect_vdif_real(True), vsr / 2, vt0, len(vraw) // 2, False))
    cases.append(("vdif-real-mixed", lambda: pbr.BasebandReader(vd, lower_sideband=lsb_mask), expect_vdif_real(lsb_mask), vsr / 2, vt0, len(vraw) // 2, False))
    cases.append(("dada-complex", lambda: pbr.BasebandReader(dd), lambda off, n: draw[off: off + n].astype(np.complex64), dsr, dt0, len(draw), True))
    cases.append(("dada-complex-lsb", lambda: pbr.BasebandReader(dd, lower_sideband=True), lambda off, n: draw[off: off + n].conj().astype(np.complex64), dsr, dt0, len(draw), True))
    g_lsb = not ghdr.sideband
    cases.append(("guppi", lambda: pbr.GUPPIRawReader(gup),
                  lambda off, n: (graw[off: off + n].conj() if g_lsb else graw[off: off + n]).transpose(0, 2, 1).astype(np.complex64), gsr, gt0, len(graw), True))
    s_lsb = shdr["BW"] < 0
    cases.append(("dada-stokes", lambda: pbr.DADAStokesReader(st),
                  lambda off, n: (np.flip(sraw[off: off + n], axis=-1) if s_lsb else sraw[off: off + n]).transpose(0, 2, 1).astype(np.float32), ssr, st0, len(sraw), True))

    for name, mk, expect, sr, t0, length, additive in cases:
        try:
            r = mk()
        except Exception as e:
            fail("BasebandReader.__init__", "open.raises", name, f"{type(e).__name__}: {e}")
            continue
        ev += 1
        distinct.add((name, "meta"))
        if len(r) != length or abs((r.sample_rate - sr).to_value(u.Hz)) > 1e-6 or abs((r.start_time - t0).to_value(u.s)) > 1e-10:
            fail("BasebandReader.__init__", "metadata", name, f"len {len(r)} vs {length}, rate {r.sample_rate} vs {sr}")
        # frame / file boundaries and odd places
        marks = sorted({0, 1, 7, length // 2 - 1, length // 2, length - 5, length - 1, length} |
                       {m for b in (2000, 4000, 8192, 8000, 1024, 512, 256) for m in (b - 1, b, b + 1) if 0 <= m <= length})
        reqs = [(o, n) for o in marks for n in (0, 1, 3, 17) if o + n <= length]
        if tier != "thorough":
            reqs = reqs[::3]
        for o, n in reqs:
            ev += 1
            distinct.add((name, o, n))
            try:
                z = r.read(o, n)
            except Exception as e:
                fail("BaseReader.read", "read.raises", f"{name} read({o},{n})", f"{type(e).__name__}: {e}")
                continue
            want = expect(o, n)
            got = np.asarray(z.data)
            if len(z) != n or got.shape != want.shape or got.dtype != want.dtype or not np.allclose(got, want, rtol=1e-6, atol=1e-6 * (np.abs(want).max() if want.size else 1)):
                fail("BaseReader.read", "read.values", f"{name} read({o},{n})", f"shape {got.shape} vs {want.shape}, dtype {got.dtype} vs {want.dtype}")
            ta = r.time_at(o)
            if abs((z.start_time - ta).to_value(u.s)) > 1e-10 or abs((ta - (t0 + o / r.sample_rate)).to_value(u.s)) > 1e-10:
                fail("BaseReader.time_at", "start_time=time_at(offset)", f"{name} read({o},{n})", str(z.start_time))
            if abs((z.sample_rate - r.sample_rate).to_value(u.Hz)) > 1e-6:
                fail("BaseReader.read", "sample_rate", f"{name}", str(z.sample_rate))
        # offset_at inverts time_at, also through relative times
        for k in marks:
            ev += 1
            try:
                if r.offset_at(r.time_at(k)) != k or r.offset_at(r.time_at(k, unit=u.us)) != k:
                    fail("BaseReader.offset_at", "offset_at(time_at(k))", f"{name} k={k}", "not the identity")
            except Exception as e:
                fail("BaseReader.offset_at", "offset_at.raises", f"{name} k={k}", f"{type(e).__name__}: {e}")
        # out-of-range requests
        for args, exc in (((-1, 1), ValueError), ((0, -1), ValueError), ((length - 2, 3), EOFError), ((length + 1, 0), EOFError)):
            ev += 1
            try:
                r.read(*args)
                fail("BaseReader.read", "out-of-range.accepted", f"{name} read{args}", "no error")
            except exc:
                pass
            except Exception as e:
                fail("BaseReader.read", "out-of-range.wrong-error", f"{name} read{args}", type(e).__name__)
        for t in (r.time_at(-1), r.time_at(length + 1)):
            ev += 1
            try:
                r.offset_at(t)
                fail("BaseReader.offset_at", "out-of-range.accepted", name, "no error")
            except EOFError:
                pass
            except Exception as e:
                fail("BaseReader.offset_at", "out-of-range.wrong-error", name, type(e).__name__)
        # statelessness: interleaved and repeated reads, threads, dask
        m = max(1, min(40, length // 4))
        seq = [(3, m), (length - m - 1, m), (3, m), (0, min(7, m)), (length // 2, min(33, m)), (3, m)]
        ref = {rq: np.array(r.read(*rq).data, copy=True) for rq in set(seq)}      # own copies: a reader that hands out shared buffers must not drag the reference along
        for rq in seq + seq[::-1]:
            ev += 1
            if not np.array_equal(np.asarray(r.read(*rq).data), ref[rq]):
                fail("BaseReader.read", "stateless.sequence", f"{name} {rq}", "same request returned different data")
        with ThreadPoolExecutor(8 if tier != "thorough" else 16) as ex:
            outs = list(ex.map(lambda rq: (rq, np.asarray(r.read(*rq).data)), seq * (4 if tier != "thorough" else 16)))
        ev += len(outs)
        for rq, val in outs:
            if not np.array_equal(val, ref[rq]):
                fail("BaseReader.read", "stateless.threads", f"{name} {rq}", "concurrent read returned different data")
                break
        for rq in seq[:3]:
            ev += 1
            zd = r.dask_read(*rq)
            if not isinstance(zd.data, da.Array):
                fail("BaseReader.dask_read", "lazy", f"{name} {rq}", type(zd.data).__name__)
            elif not np.array_equal(np.asarray(zd.data.compute()), ref[rq]) or zd.start_time != r.read(*rq).start_time:
                fail("BaseReader.dask_read", "dask==eager", f"{name} {rq}", "differs")
        # Dask reads equal eager reads whatever chunking the caller asks for -- also along time (for real-sampled
        # files the Hilbert conversion is of the whole request, not of each chunk)
        rqc = seq[0]
        for chunks in ((max(1, rqc[1] // 3),) + (-1,) * (ref[rqc].ndim - 1), (7,) + (1,) * (ref[rqc].ndim - 1)):
            ev += 1
            try:
                zc = r.dask_read(*rqc, chunks=chunks)
                vc = np.asarray(zc.data.compute(scheduler="synchronous"))
                if vc.shape != ref[rqc].shape or not np.allclose(vc, ref[rqc], rtol=0, atol=1e-5 * max(1.0, float(np.abs(ref[rqc]).max(initial=0.0)))):
                    fail("BaseReader.dask_read", "dask==eager.time-chunked", f"{name} {rqc} chunks={chunks}", "a Dask read chunked along time differs from the eager read")
            except Exception as ex_:
                fail("BaseReader.dask_read", "dask==eager.time-chunked.raises", f"{name} {rqc} chunks={chunks}", f"{type(ex_).__name__}: {str(ex_)[:100]}")
        # ... and under the process scheduler (everything a lazy read carries must survive pickling)
        if name in ("vdif-real-usb", "dada-complex", "guppi", "dada-stokes"):
            ev += 1
            try:
                vp_ = np.asarray(r.dask_read(*seq[0]).data.compute(scheduler="processes", num_workers=2))
                if not np.array_equal(vp_, ref[seq[0]]):
                    fail("BaseReader.dask_read", "dask==eager.process-scheduler", f"{name} {seq[0]}", "differs from the eager read")
            except Exception as ex_:
                fail("BaseReader.dask_read", "dask==eager.process-scheduler.raises", f"{name} {seq[0]}", f"{type(ex_).__name__}: {str(ex_)[:100]}")
        # reads are stateless: what the caller does to a returned signal does not change later reads
        ev += 1
        try:
            rq0 = seq[0]
            first = r.read(*rq0)
            d0 = first.data
            if isinstance(d0, np.ndarray) and d0.flags.writeable:
                np.multiply(d0, 0, out=d0)
            again = np.asarray(r.read(*rq0).data)
            if not np.array_equal(again, ref[rq0]):
                fail("BaseReader.read", "stateless.result-modified-by-caller", f"{name} {rq0}", "a later read of the same range returns the caller's modification")
            lazy = np.asarray(r.dask_read(*rq0).data.compute())
            if not np.array_equal(lazy, ref[rq0]):
                fail("BaseReader.dask_read", "stateless.result-modified-by-caller", f"{name} {rq0}", "a later lazy read returns the caller's modification")
        except Exception as ex_:
            fail("BaseReader.read", "stateless.result-modified-by-caller.raises", f"{name}", f"{type(ex_).__name__}: {str(ex_)[:80]}")
        # an empty read is a read: eager and lazy agree on it
        ev += 1
        try:
            e0 = r.read(3, 0)
            d0 = r.dask_read(3, 0)
            if d0.shape != e0.shape or np.asarray(d0.data).shape != e0.shape:
                fail("BaseReader.dask_read", "dask==eager.empty-read", f"{name} (3, 0)", f"{d0.shape} vs {e0.shape}")
        except Exception as ex_:
            fail("BaseReader.dask_read", "dask==eager.empty-read", f"{name} (3, 0)", f"{type(ex_).__name__}: {str(ex_)[:80]}")
        if additive:
            ev += 1
            q = max(1, min(30, length // 4))
            a, b = r.read(q, q), r.read(2 * q, q - 1)
            j = pb.concatenate([a, b])
            w = r.read(q, 2 * q - 1)
            if not np.array_equal(np.asarray(j.data), np.asarray(w.data)) or abs((j.start_time - w.start_time).to_value(u.s)) > 1e-10:
                fail("BaseReader.read", "adjacent-reads-concatenate", name, "differs from the spanning read")
        if len(samples) < 3:
            samples.append({"file": name, "length": length, "requests": len(reqs)})
    # lazy reads of two readers that differ only in subclass state, combined in ONE graph
    ev += 1
    try:
        r1, r2 = pbr.BasebandReader(dd), pbr.BasebandReader(dd, lower_sideband=True)
        e = np.asarray(r1.read(5, 40).data) - np.asarray(r2.read(5, 40).data)
        g_ = (r1.dask_read(5, 40).data - r2.dask_read(5, 40).data).compute(scheduler="synchronous")
        if not np.array_equal(g_, e):
            fail("BaseReader.dask_read", "dask==eager.combined-graph", "USB and LSB readers of the same file", "lazy reads of different readers are not distinguished")
        a_, b_ = r1.dask_read(0, 16), r1.dask_read(16, 16)
        if not np.array_equal((a_.data + b_.data).compute(scheduler="synchronous"), np.asarray(r1.read(0, 16).data) + np.asarray(r1.read(16, 16).data)):
            fail("BaseReader.dask_read", "dask==eager.combined-graph", "two offsets of one reader", "lazy reads are not distinguished")
    except Exception as ex_:
        fail("BaseReader.dask_read", "combined-graph.raises", "", f"{type(ex_).__name__}: {ex_}")
    # header mapping of the specialised readers
    ev += 2
    try:
        rg = pbr.GUPPIRawReader(gup)
        z = rg.read(0, 4)
        if abs((z.center_freq - ghdr["OBSFREQ"] * u.MHz).to_value(u.Hz)) > 1e-3 or z.pol_type != {"LIN": "linear", "CIRC": "circular"}[ghdr["FD_POLN"]] or z.shape[1:] != (graw.shape[2], 2):
            fail("GUPPIRawReader", "header-mapping", "guppi", f"{z.center_freq} {z.pol_type} {z.shape}")
        rs = pbr.DADAStokesReader(st)
        z = rs.read(0, 4)
        if abs((z.center_freq - shdr["FREQ"] * u.MHz).to_value(u.Hz)) > 1e-3 or abs((z.chan_bw - abs(shdr["BW"] / shdr["NCHAN"]) * u.MHz).to_value(u.Hz)) > 1e-3 \
                or z.freq_align != ("top" if s_lsb else "bottom") or z.shape[1:] != (sraw.shape[2], 4):
            fail("DADAStokesReader", "header-mapping", "stokes", f"{z.center_freq} {z.chan_bw} {z.freq_align} {z.shape}")
    except Exception as e:
        fail("GUPPIRawReader", "header-mapping.raises", "", f"{type(e).__name__}: {e}")
    return {"evaluations": ev, "distinct_nontrivial": len(distinct), "failures": fails, "samples": samples}
