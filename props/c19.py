"""Bounded complement for C19 (never counted as proved): clauses outside the deductive model --
NumPy dtypes in non-native byte order (the DType tag of the model has no byte order) and the accuracy
of the quarter-rate mixer on long inputs (model E has exact phasors)."""
import numpy as np


def bounded(pb, interp, rng, tier):
    f = pb.utils.real_to_complex
    fails, ev = [], 0

    def fail(what, inst, observed, expected):
        if sum(1 for f_ in fails if f_["what"] == what) < 8:      # cap per kind: a known finding must not crowd out a new failure
            fails.append({"function": "pulsarbat.utils.real_to_complex", "what": what, "instance": inst, "inputs": {"case": inst},
                          "observed": str(observed)[:200], "expected": str(expected)[:200], "status": "mismatch"})

    # every real dtype, either byte order: complex64 exactly for float32, complex128 otherwise, same values
    base = np.array([0.5, -1.25, 3.0, 2.0, -0.75, 1.5, 0.25, -2.0, 1.0])
    for n in (0, 1, 8, 9):
        for code in ("f4", "f8", "f2", "i2", "i4", "i8", "u2"):
            native = (base[:n] * 4).astype("=" + code)
            try:
                ref = f(native)
            except Exception as e:
                fail("byte-order.native-raises", f"dtype={code},N={n}", f"{type(e).__name__}: {e}", "a result")
                continue
            for order in (">", "<"):
                x = native.astype(order + code)
                inst = f"dtype={order}{code},N={n}"
                ev += 1
                want = np.complex64 if code == "f4" else np.complex128
                try:
                    out = f(x)
                except Exception as e:
                    fail("byte-order.raises", inst, f"{type(e).__name__}: {e}", f"{np.dtype(want).name} array")
                    continue
                if out.dtype != np.dtype(want):
                    fail("byte-order.dtype", inst, out.dtype, np.dtype(want).name)
                elif out.shape != ref.shape or not np.allclose(out, ref, rtol=0, atol=1e-6 if code in ("f4", "f2") else 1e-12):
                    fail("byte-order.values", inst, out[:3], ref[:3])
    # (-1)^m Re(out[m]) = z[2m] on long inputs: the error of the mixer must not grow with the length
    # (an exact quarter-rate mixer leaves FFT rounding only, a few 1e-15 of the largest sample)
    for logn in ((16, 20) if tier != "thorough" else (16, 20, 22)):
        n = 2 ** logn + (1 if logn == 16 else 0)
        z = np.random.default_rng(7 + logn).standard_normal(n)
        ev += 1
        out = f(z)
        m = np.arange(out.shape[0])
        err = np.abs(np.where(m % 2 == 0, 1.0, -1.0) * out.real - z[::2]).max()
        tol = 64 * np.finfo(float).eps * logn * np.abs(z).max()
        if not err <= tol:
            fail("real-part-identity.long-input", f"float64,N={n}", f"max |(-1)^m Re out[m] - z[2m]| = {err:.3e}", f"<= {tol:.1e} (FFT rounding)")
    # the same in single precision: a float32 input stays float32-accurate however long it is (the mixer's phase
    # must not be accumulated at working precision); bound = single-precision FFT rounding, not a copied tolerance
    for logn in (18,):
        n = 2 ** logn
        z64 = np.random.default_rng(11 + logn).standard_normal(n)
        z = z64.astype(np.float32)
        ev += 1
        out = f(z)
        m = np.arange(out.shape[0])
        err = np.abs(np.where(m % 2 == 0, 1.0, -1.0) * out.real.astype(float) - z[::2].astype(float)).max()
        tol = 64 * float(np.finfo(np.float32).eps) * logn * float(np.abs(z).max())
        if not err <= tol:
            fail("real-part-identity.long-input", f"float32,N={n}", f"max |(-1)^m Re out[m] - z[2m]| = {err:.3e}", f"<= {tol:.1e} (single-precision FFT rounding)")
        # and the whole result agrees with the double-precision result of the same samples to single precision
        ref = f(z.astype(float))
        err = np.abs(out - ref).max()
        if not err <= tol:
            fail("float32-vs-float64.long-input", f"float32,N={n}", f"max |out32 - out64| = {err:.3e}", f"<= {tol:.1e}")
    return {"evaluations": ev, "distinct_nontrivial": ev, "failures": fails, "samples": [{"dtypes": "f2 f4 f8 i2 i4 i8 u2 in both byte orders", "long": "N = 2^16+1, 2^20"}]}
