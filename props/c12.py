"""Bounded complement for C12 (never counted as proved): requests exactly on the bounds (t = 0, t + n = len)
given as a duration or an absolute Time, for which the conversion to a sample count rounds, and sample counts
of narrow NumPy integer types, for which t + n wraps."""
import numpy as np
import astropy.units as u
from astropy.time import Time


def bounded(pb, interp, rng, tier):
    ev, fails = 0, []

    def fail(what, inst, observed, expected):
        if sum(1 for f_ in fails if f_["what"] == what) < 8:      # cap per kind: a known finding must not crowd out a new failure
            fails.append({"function": "pulsarbat.transforms.transforms.snippet", "what": what, "instance": inst, "inputs": {"case": inst},
                          "observed": str(observed)[:200], "expected": str(expected)[:200], "status": "mismatch"})
    rates = [1 * u.Hz, 1.1 * u.MHz, 49 * u.Hz, 800 * u.MHz, 3 * u.kHz, 1 / (7 * u.us)]
    lens = [2, 4, 100, 1000] if tier != "thorough" else [2, 3, 4, 7, 100, 257, 1000, 4096]
    for sr in rates:
        for N in lens:
            z = pb.Signal(np.arange(N, dtype=np.float64), sample_rate=sr, start_time=Time("2020-01-01T00:00:00", scale="utc"))
            for k in sorted({0, 1, N // 3, N - 1, N}):
                n = N - k
                want = np.asarray(z.data[k:k + n])
                for form, t in (("duration", k * z.dt), ("duration-via-rate", (k / z.sample_rate).to(u.s)), ("time", z.start_time + k * z.dt), ("slice-start", z[k:].start_time)):
                    ev += 1
                    inst = f"sample_rate={sr},len={N},t={k} samples as {form},n={n}"
                    try:
                        y = pb.snippet(z, t, n)
                    except Exception as e:
                        fail("bound-request.raises", inst, f"{type(e).__name__}: {e}", f"{n} samples equal to z[{k}:{k + n}]")
                        continue
                    # value tolerance: FFT rounding for requests that are exact numbers; an instant carried by an astropy
                    # Time is known to 2 ulp of a day only (trusted base, Time.isclose), i.e. to dt_s samples, and the
                    # band-limited interpolant moves by at most pi (1 + ln N) max|z| per sample (Bernstein x Lebesgue)
                    atol = 1e-6 * max(1, N)
                    if form in ("time", "slice-start"):
                        dt_s = 3 * 2.0 ** -52 * 86400 * float(sr.to_value(u.Hz))
                        atol += dt_s * np.pi * (1 + np.log(max(N, 2))) * max(1, N)
                    if len(y) != n or not np.allclose(np.asarray(y.data), want, rtol=0, atol=atol):
                        fail("bound-request.value", inst, f"len {len(y)}", f"{n} samples equal to z[{k}:{k + n}]")
    # integer-valued samples: a fractional start still interpolates (band-limited shift of the data as numbers)
    for dt_ in (np.int16, np.int64):
        ev += 1
        x = (np.arange(32) % 7 * 13 - 40).astype(dt_)
        z = pb.Signal(x, sample_rate=1 * u.kHz, start_time=Time("2020-01-01T00:00:00", scale="utc"))
        try:
            y = np.asarray(pb.snippet(z, 4.5, 6).data, dtype=float)
            X = np.fft.fft(x.astype(float))
            k = np.fft.fftfreq(32, 1)
            want = np.fft.ifft(X * np.exp(2j * np.pi * k * 4.5)).real[:6]
            if y.shape != (6,) or np.max(np.abs(y - want)) > 1e-3 * np.max(np.abs(x)):
                fail("fractional.integer-data", f"{np.dtype(dt_).name} data, t=4.5, n=6", f"max error {np.max(np.abs(y - want)):.3g}", "DFT interpolation of the samples")
        except Exception as e:
            fail("fractional.integer-data.raises", f"{np.dtype(dt_).name}", f"{type(e).__name__}: {e}", "6 interpolated samples")
    # out-of-range requests must raise whatever integer type carries t
    for N, t, n in ((255, np.uint8(250), 10), (255, np.array(250, dtype=np.uint8), 10), (40000, np.uint16(39000), 30000), (40000, np.int16(32000), 9000), (2048, np.float16(2048), 1)):
        ev += 1
        z = pb.Signal(np.arange(N, dtype=np.float64), sample_rate=1 * u.Hz)
        inst = f"len={N},t={t!r},n={n}"
        try:
            with np.errstate(all="ignore"):
                y = pb.snippet(z, t, n)
            fail("out-of-range.accepted", inst, f"returned {len(y)} samples", "ValueError")
        except ValueError:
            pass
        except Exception as e:
            fail("out-of-range.wrong-error", inst, type(e).__name__, "ValueError")
    return {"evaluations": ev, "distinct_nontrivial": ev, "failures": fails, "samples": [{"rates": [str(r) for r in rates], "lens": lens}]}
