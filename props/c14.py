"""Bounded complement for C14 (never counted as proved): byte-wise snapshots around calls with inputs chosen to
reach the shortcuts of the code (a shift within np.allclose's tolerance of zero makes time_shift return its input
object, so anything the caller then does to "the result" is done to the input), quantities in units other than the
ones the code converts to, and the same input reused by a sequence of calls."""
import numpy as np
import astropy.units as u
from astropy.time import Time
from pyvc.concrete import snapshot_inputs


def bounded(pb, interp, rng, tier):
    ev, fails = 0, []

    def fail(fn, what, inst, detail):
        if sum(1 for f_ in fails if f_["what"] == what) < 8:      # cap per kind: a known finding must not crowd out a new failure
            fails.append({"function": fn, "what": what, "instance": inst, "inputs": {"case": inst}, "observed": str(detail)[:200], "status": "mismatch"})
    t0 = Time("2021-03-04T05:06:07", scale="utc")
    g = np.random.default_rng(14)
    xb = (g.standard_normal((512, 2)) + 1j * g.standard_normal((512, 2))).astype(np.complex128)
    xr = g.standard_normal((512, 2))

    def sig(kind):
        if kind == "baseband":
            return pb.BasebandSignal(xb.copy(), sample_rate=1 * u.kHz, center_freq=1.4 * u.GHz, start_time=t0, meta={"k": [1, 2]})
        if kind == "intensity":
            return pb.IntensitySignal(xr.copy(), sample_rate=1 * u.kHz, center_freq=1.4 * u.GHz, chan_bw=10 * u.MHz, start_time=t0)
        return pb.Signal(xr.copy(), sample_rate=1 * u.kHz, start_time=t0)
    dm = pb.DM(3.0)
    ref = 1.39 * u.GHz
    cases = [
        ("pulsarbat.transforms.transforms.snippet", "t a few 1e-9 samples after a sample boundary", lambda z: (z, 100 + 4e-9, 64), lambda a: pb.snippet(*a), "signal"),
        ("pulsarbat.transforms.transforms.snippet", "t as a Time next to a sample boundary", lambda z: (z, z.start_time + 100 * z.dt + 3e-12 * u.s, 64), lambda a: pb.snippet(*a), "signal"),
        ("pulsarbat.transforms.transforms.snippet", "duration in us", lambda z: (z, 100250 * u.us, 32), lambda a: pb.snippet(*a), "baseband"),
        ("pulsarbat.transforms.transforms.time_shift", "shift of 1e-9 samples", lambda z: (z, 1e-9), lambda a: pb.time_shift(*a), "signal"),
        ("pulsarbat.transforms.transforms.time_shift", "Quantity shift in us, cropped", lambda z: (z, 2500 * u.us), lambda a: pb.time_shift(a[0], a[1], crop=True), "baseband"),
        ("pulsarbat.transforms.transforms.time_shift", "shift array holding nan and inf (accepted or refused, the caller's array stays as it is)", lambda z: (z, np.array([0.5, np.nan])), lambda a: pb.time_shift(*a), "signal"),
        ("pulsarbat.transforms.transforms.time_shift", "shift array holding inf", lambda z: (z, np.array([np.inf, -1.25])), lambda a: pb.time_shift(*a), "signal"),
        ("pulsarbat.transforms.transforms.freq_shift", "shift array holding nan", lambda z: (z, np.array([np.nan, 0.1]) * u.kHz), lambda a: pb.freq_shift(*a), "baseband"),
        ("pulsarbat.transforms.transforms.freq_shift", "shift in kHz given as an array", lambda z: (z, np.array([0.1, -0.2]) * u.kHz), lambda a: pb.freq_shift(*a), "baseband"),
        ("pulsarbat.transforms.dedispersion.coherent_dedispersion", "center_freq in GHz, no ref_freq", lambda z: (z, dm), lambda a: pb.coherent_dedispersion(*a), "baseband"),
        ("pulsarbat.transforms.dedispersion.coherent_dedispersion", "ref_freq in GHz", lambda z: (z, dm, ref), lambda a: pb.coherent_dedispersion(a[0], a[1], ref_freq=a[2]), "baseband"),
        ("pulsarbat.transforms.dedispersion.incoherent_dedispersion", "center_freq in GHz, no ref_freq", lambda z: (z, dm), lambda a: pb.incoherent_dedispersion(*a), "intensity"),
        ("pulsarbat.transforms.dedispersion.incoherent_dedispersion", "ref_freq in GHz", lambda z: (z, dm, ref), lambda a: pb.incoherent_dedispersion(a[0], a[1], ref_freq=a[2]), "intensity"),
        ("pulsarbat.transforms.dedispersion.DispersionMeasure.sample_delay", "frequencies in GHz, rate in kHz", lambda z: (dm, np.array([1.2, 1.5]) * u.GHz, ref, 2 * u.kHz), lambda a: a[0].sample_delay(a[1], a[2], a[3]), None),
        ("pulsarbat.transforms.transforms.concatenate", "two halves", lambda z: ([z[:200], z[200:]],), lambda a: pb.concatenate(*a), "intensity"),
        ("pulsarbat.core.BasebandSignal.to_intensity", "complex data", lambda z: (z,), lambda a: a[0].to_intensity(), "baseband"),
    ]
    for fn, what, mk, call, kind in cases:
        z = sig(kind) if kind else None
        args = mk(z)
        ev += 1
        before = snapshot_inputs(args, {}, pb)
        try:
            for _ in range(2):          # the same inputs reused: a second call sees what the first one left behind
                call(args)
        except Exception as e:
            after = snapshot_inputs(args, {}, pb)
            if before != after:
                fail(fn, "input-mutated-by-raising-call", what, [k for k in sorted(set(before) | set(after)) if before.get(k) != after.get(k)])
            continue
        after = snapshot_inputs(args, {}, pb)
        if before != after:
            fail(fn, "input-mutated", what, [k for k in sorted(set(before) | set(after)) if before.get(k) != after.get(k)])
    return {"evaluations": ev, "distinct_nontrivial": ev, "failures": fails, "samples": [{"cases": len(cases)}]}
