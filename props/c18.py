"""Bounded complement for C18 (never counted as proved): exhaustive small N and the neighbours of
7-smooth numbers below 2^62, against an independently generated sorted list."""
import bisect


def smooth_list(limit):
    out = []
    a = 1
    while a < limit:
        b = a
        while b < limit:
            c = b
            while c < limit:
                d = c
                while d < limit:
                    out.append(d)
                    d *= 7
                c *= 5
            b *= 3
        a *= 2
    out.sort()
    return out


def bounded(pb, interp, rng, tier):
    nx, pv = pb.utils.next_fast_len, pb.utils.prev_fast_len
    S = smooth_list(2 ** 64)
    fails, ev = [], 0

    def check(N):
        nonlocal ev
        ev += 1
        i = bisect.bisect_left(S, N)
        want_next = S[i] if N > 0 else N
        j = bisect.bisect_right(S, N)
        want_prev = S[j - 1] if N > 0 else N
        g1, g2 = nx(N), pv(N)
        if g1 != want_next and len(fails) < 5:
            fails.append({"function": "pulsarbat.utils.next_fast_len", "what": "value", "instance": f"N={N}", "inputs": {"N": str(N)}, "observed": str(g1), "expected": str(want_next), "status": "mismatch"})
        if g2 != want_prev and len(fails) < 5:
            fails.append({"function": "pulsarbat.utils.prev_fast_len", "what": "value", "instance": f"N={N}", "inputs": {"N": str(N)}, "observed": str(g2), "expected": str(want_prev), "status": "mismatch"})
    top = 20000 if tier == "quick" else 10 ** 6
    for N in range(top):
        check(N)
    below = [s for s in S if s < 2 ** 62]
    # always: the neighbours of every power of two (where a float logarithm is exact and a bound computed from
    # it is tight) and of the 1500 largest 7-smooth numbers below 2^62; plus, in the quick tier, a seeded sample of the rest
    always = [s for s in below if (s & (s - 1)) == 0] + below[-1500:]
    pick = below if tier == "thorough" else sorted(set(always) | set(rng.sample(below, 3000)))
    for s in pick:
        for N in (s - 1, s, s + 1):
            if N >= 0:
                check(N)
    return {"evaluations": ev, "distinct_nontrivial": ev, "failures": fails,
            "samples": [{"N": 2 ** 61 + 1, "next": str(nx(2 ** 61 + 1)), "prev": str(pv(2 ** 61 + 1))}],
            "smooth_numbers_below_2^62": len(below)}
