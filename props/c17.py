"""Bounded stand-in for C17: real NumPy ufuncs on real signals (never counted as proved)."""
import itertools
import numpy as np
import astropy.units as u
from astropy.time import Time


def _signals(pb, rng, be):
    import dask.array as da
    t0 = Time(59000.25, format="mjd")
    out = []
    for cls, shape, dt, kw in [
        (pb.Signal, (5, 2), np.float64, {}),
        (pb.RadioSignal, (4, 3), np.float32, dict(center_freq=1 * u.GHz, chan_bw=1 * u.MHz, freq_align="center")),
        (pb.IntensitySignal, (4, 2), np.float64, dict(center_freq=1 * u.GHz, chan_bw=1 * u.MHz)),
        (pb.BasebandSignal, (6, 2), np.complex64, dict(center_freq=400 * u.MHz, freq_align="bottom")),
        (pb.DualPolarizationSignal, (3, 2, 2), np.complex128, dict(center_freq=400 * u.MHz, pol_type="linear")),
    ]:
        x = rng.random() + 0.5 + np.arange(int(np.prod(shape))).reshape(shape) / 7.0
        x = x.astype(dt) if not np.issubdtype(dt, np.complexfloating) else (x + 1j * x[::-1]).astype(dt)
        if be == "dask":
            x = da.from_array(x, chunks=(-1,) + (1,) * (len(shape) - 1))
        out.append(cls(x, sample_rate=1 * u.kHz, start_time=t0, meta={"k": 1}, **kw))
    return out


def _meta(s):
    d = {k: getattr(s, k, None) for k in ("sample_rate", "start_time", "center_freq", "chan_bw", "freq_align", "pol_type", "meta")}
    d["start_time"] = None if d["start_time"] is None else (d["start_time"].jd1, d["start_time"].jd2)
    return {k: (str(v) if k not in ("meta", "start_time") else v) for k, v in d.items()}


UNARY = [np.negative, np.positive, np.absolute, np.conjugate, np.square, np.exp, np.isfinite, np.sign]
BINARY = [np.add, np.subtract, np.multiply, np.divide, np.maximum, np.minimum, np.less, np.equal, np.greater_equal, np.power]
TWO_OUT = [np.modf, np.frexp, np.divmod]


def bounded(pb, interp, rng, tier):
    import dask.array as da
    ev, fails, samples, distinct = 0, [], [], set()

    def fail(what, inst, detail):
        fails.append({"function": "pulsarbat.core.Signal.__array_ufunc__", "what": what, "instance": inst, "detail": detail, "status": "mismatch"})

    def arr(x):
        return np.asarray(x.compute() if isinstance(x, da.Array) else x)

    def check_result(res, ref, first, inst, what):
        nonlocal ev
        ev += 1
        distinct.add(inst)
        if type(res) is not type(first):
            fail(f"{what}.type", inst, f"{type(res).__name__} vs {type(first).__name__}")
            return
        if _meta(res) != _meta(first):
            fail(f"{what}.metadata", inst, f"{_meta(res)} vs {_meta(first)}")
        if hasattr(ref, "unit") and getattr(res.data, "unit", None) != ref.unit:
            fail(f"{what}.unit-lost", inst, f"{getattr(res.data, 'unit', None)} vs {ref.unit}")
        a, b = arr(res.data), arr(ref)
        if a.shape != b.shape or a.dtype != b.dtype or not np.array_equal(a, b, equal_nan=True):
            fail(f"{what}.values", inst, f"shape/dtype/values differ: {a.dtype}{a.shape} vs {b.dtype}{b.shape}")
        if isinstance(first.data, da.Array) and not isinstance(res.data, da.Array):
            fail(f"{what}.stays-dask", inst, type(res.data).__name__)

    def _sweep_one(s, cname, be):
        nonlocal ev
        for uf in UNARY + BINARY + TWO_OUT:
            if np.iscomplexobj(s.data) and uf in (np.maximum, np.minimum, np.less, np.greater_equal, np.modf, np.frexp, np.divmod, np.sign):
                continue
            others = [None] if uf.nin == 1 else ["sig", "arr", "scalar", "quantity-less-array-first", "scalar-first", "quantity", "quantity-first"]
            for ot in others:
                inst = f"{uf.__name__},{cname},{be},{ot}"
                if ot is None:
                    args, rargs, first = (s,), (s.data,), s
                elif ot == "sig":
                    args, rargs, first = (s, s), (s.data, s.data), s
                elif ot == "arr":
                    o = arr(s.data) * 2
                    args, rargs, first = (s, o), (s.data, o), s
                elif ot == "scalar":
                    args, rargs, first = (s, 2), (s.data, 2), s
                elif ot == "quantity-less-array-first":
                    o = arr(s.data) * 3
                    args, rargs, first = (o, s), (o, s.data), s
                elif ot in ("quantity", "quantity-first"):
                    if uf not in (np.multiply, np.divide) or isinstance(s.data, da.Array) or type(s)._req_dtype:
                        continue
                    q = 2.0 * u.m
                    args, rargs, first = ((s, q), (s.data, q), s) if ot == "quantity" else ((q, s), (q, s.data), s)
                else:
                    args, rargs, first = (2, s), (2, s.data), s
                try:
                    ref = uf(*rargs)
                except Exception:
                    continue
                refs = ref if isinstance(ref, tuple) else (ref,)
                # result dtype must be admissible for the class, otherwise construction legitimately raises
                req = type(s)._req_dtype
                admissible = all((not req) or (r.dtype in req) or np.can_cast(r.dtype, req[0], "safe") for r in refs)
                try:
                    res = uf(*args)
                except ValueError as e:
                    if admissible:
                        fail("call.raises", inst, repr(e))
                    ev += 1
                    continue
                except Exception as e:
                    fail("call.raises", inst, repr(e))
                    continue
                if not admissible:
                    fail("call.inadmissible-dtype-accepted", inst, str([r.dtype for r in refs]))
                    continue
                ress = res if isinstance(res, tuple) else (res,)
                if len(ress) != len(refs):
                    fail("call.nout", inst, f"{len(ress)} vs {len(refs)}")
                    continue
                for k, (r, rf) in enumerate(zip(ress, refs)):
                    exp = rf.astype(req[0]) if req and rf.dtype not in req else rf
                    check_result(r, exp, first, inst, f"out{k}")
                if len(samples) < 2:
                    samples.append({"ufunc": uf.__name__, "class": cname, "backend": be, "operands": ot})
        # out= and in-place forms (NumPy-backed only: dask arrays do not support out= targets that are signals' buffers the same way)
        if be == "numpy" and not isinstance(s.data, da.Array):
            tgt = type(s).like(s, arr(s.data).copy(), meta={"target": True}, start_time=None)
            before = _meta(tgt)
            ref = np.add(s.data, s.data)
            r = np.add(s, s, out=tgt)
            ev += 1
            distinct.add(f"out=,{cname}")
            if r is not tgt:
                fail("out.identity", f"out=,{cname}", "returned object is not the given out signal")
            if _meta(tgt) != before:
                fail("out.metadata", f"out=,{cname}", "out signal metadata changed")
            if not np.array_equal(tgt.data, ref):
                fail("out.values", f"out=,{cname}", "out buffer does not hold the result")
            t2 = type(s).like(s, arr(s.data).copy())
            buf = t2.data
            t3 = t2
            t3 *= 2
            t3 += s
            ev += 1
            distinct.add(f"inplace,{cname}")
            if t3 is not t2 or t3.data is not buf or not np.allclose(buf, arr(s.data) * 3):
                fail("inplace.chain", f"inplace,{cname}", "in-place chain did not write into / return the target")
        # refusals
        for what, fn in [("reduce", lambda: np.add.reduce(s)), ("accumulate", lambda: np.add.accumulate(s)),
                         ("outer", lambda: np.add.outer(s, s)), ("matmul", lambda: np.matmul(s, s)),
                         ("sum", lambda: np.sum(s)),
                         # generalised ufuncs contract / re-shape axes like matmul does
                         ("vecdot", lambda: np.vecdot(s, s)), ("matvec", lambda: np.matvec(s, np.ones(s.shape[-1]))),
                         ("vecmat", lambda: np.vecmat(np.ones(s.shape[0]), s) if s.ndim == 2 else np.matmul(s, s))]:
            ev += 1
            distinct.add(f"refuse.{what},{cname},{be}")
            try:
                r = fn()
                fail(f"refuse.{what}", f"{cname},{be}", f"returned {type(r).__name__} instead of raising TypeError")
            except TypeError:
                pass
            except Exception as e:
                fail(f"refuse.{what}", f"{cname},{be}", f"raised {type(e).__name__} instead of TypeError")
        # np.asarray / np.array protocol
        for what, fn, exp in [("asarray", lambda: np.asarray(s), arr(s.data)),
                              ("asarray-dtype", lambda: np.asarray(s, dtype=np.complex128), arr(s.data).astype(np.complex128)),
                              ("array-copy", lambda: np.array(s, copy=True), arr(s.data))]:
            ev += 1
            distinct.add(f"{what},{cname},{be}")
            try:
                r = fn()
                if not isinstance(r, np.ndarray) or r.dtype != exp.dtype or not np.array_equal(r, exp):
                    fail(f"protocol.{what}", f"{cname},{be}", "wrong data")
            except Exception as e:
                fail(f"protocol.{what}", f"{cname},{be}", repr(e))

    # first signal operand wins, also when a later operand is of a subclass (NumPy dispatches to subclasses first)
    import astropy.units as u
    from astropy.time import Time
    base = pb.Signal(np.arange(8.).reshape(4, 2), sample_rate=1 * u.Hz, start_time=Time(59000., format="mjd"), meta={"who": "first"})
    sub = pb.RadioSignal(np.ones((4, 2)), sample_rate=5 * u.kHz, center_freq=1 * u.GHz, chan_bw=1 * u.MHz, meta={"who": "second"})
    for what, fn in (("binop", lambda: base + sub), ("ufunc", lambda: np.multiply(base, sub))):
        ev += 1
        distinct.add(f"subclass-second.{what}")
        try:
            r = fn()
            if type(r) is not pb.Signal or r.sample_rate != base.sample_rate or r.meta != base.meta or r.start_time is None:
                fail(f"first-operand.subclass-second.{what}", "Signal (op) RadioSignal", f"{type(r).__name__} at {r.sample_rate}, meta {r.meta}")
        except Exception as e:
            fail(f"first-operand.subclass-second.{what}", "Signal (op) RadioSignal", repr(e))
    # a signal used as the where= mask of an out= call
    for be_ in ("numpy",):
        sig = pb.Signal(np.arange(8.).reshape(4, 2) + 1, sample_rate=1 * u.Hz)
        exp = np.add(np.asarray(sig.data), 100, out=np.asarray(sig.data).copy(), where=np.asarray(sig.data) > 3)
        ev += 1
        distinct.add("where-signal")
        try:
            r = np.add(sig, 100, out=sig, where=sig > 3)
            if r is not sig or not np.array_equal(np.asarray(sig.data), exp):
                fail("where.signal-mask", "np.add(sig, 100, out=sig, where=sig > 3)", "wrong values / not the out signal")
        except (Exception, RecursionError) as e:
            fail("where.signal-mask", "np.add(sig, 100, out=sig, where=sig > 3)", type(e).__name__)
    # Quantity subclasses as the other operand, in either order: astropy's Angle and pulsarbat's own Phase
    # ("mixed with ... Quantities in any operand order ... wrapped in the type and metadata of the first signal operand")
    from astropy.coordinates import Angle
    from pulsarbat.pulsar.phase import Phase
    sig = pb.Signal(np.arange(8.).reshape(4, 2) + 1, sample_rate=1 * u.Hz, meta={"who": "sig"})
    for qname, q in (("Angle", Angle(0.25, u.cycle)), ("Phase", Phase(3.0, 0.25))):
        for oname, fn, rf in ((f"{qname} * sig", lambda: q * sig, lambda: q * sig.data), (f"sig * {qname}", lambda: sig * q, lambda: sig.data * q),
                              (f"np.multiply({qname}, sig)", lambda: np.multiply(q, sig), lambda: np.multiply(q, sig.data)),
                              (f"{qname} < sig", lambda: q < sig, lambda: q < sig.data), (f"{qname} == sig", lambda: q == sig, lambda: q == sig.data),
                              (f"{qname} >= sig", lambda: q >= sig, lambda: q >= sig.data), (f"sig > {qname}", lambda: sig > q, lambda: sig.data > q),
                              (f"np.less({qname}, sig)", lambda: np.less(q, sig), lambda: np.less(q, sig.data)),
                              (f"np.not_equal({qname}, sig)", lambda: np.not_equal(q, sig), lambda: np.not_equal(q, sig.data))):
            ev += 1
            distinct.add(("quantity-subclass", oname))
            try:
                ref = rf()
            except Exception:
                continue
            if not isinstance(ref, np.ndarray):
                continue        # astropy's Quantity.__eq__ answers incompatible units with a bare False without calling the ufunc
            try:
                r = fn()
            except Exception as e:
                fail("quantity-subclass-operand.raises", oname, repr(e)[:150])
                continue
            if type(r) is not pb.Signal or _meta(r) != _meta(sig):
                fail("quantity-subclass-operand.not-wrapped", oname, f"{type(r).__name__} returned, a Signal with the metadata of the signal operand expected")
            elif type(r.data) is not type(ref) or not bool(np.all(r.data == ref)):
                fail("quantity-subclass-operand.values", oname, f"data {type(r.data).__name__} differs from the operation on the underlying array ({type(ref).__name__})")
    for be in ("numpy", "dask"):
        sigs = _signals(pb, rng, be)
        for s in sigs:
            cname = type(s).__name__
            try:
                _sweep_one(s, cname, be)
            except Exception as e:      # anything the wrapper lets escape is a failure of that case, not of the checker
                fail("sweep.raises", f"{cname},{be}", f"{type(e).__name__}: {str(e)[:120]}")
        continue
    return {"evaluations": ev, "distinct_nontrivial": len(distinct), "failures": fails, "samples": samples}
