"""Bounded numeric complements for C03 / C04 (never counted as proved): long signals where the
single-precision ramp / phasor matters, against the exact integer-shift / whole-bin-move oracle."""
import numpy as np
import astropy.units as u
from astropy.time import Time


def _fail(fn, what, inst, detail):
    return {"function": f"pulsarbat.transforms.transforms.{fn}", "what": what, "instance": inst, "inputs": {"case": inst}, "observed": detail, "status": "mismatch"}


def bounded_time_shift(pb, interp, rng, tier):
    ev, fails = 0, []
    sizes = [4096, 10007] if tier == "quick" else [4096, 10007, 65536]
    for N in sizes:
        for dt in (np.complex64, np.complex128, np.float32, np.float64):
            g = np.random.default_rng(N)
            x = g.standard_normal((N, 2))
            if np.issubdtype(dt, np.complexfloating):
                x = x + 1j * g.standard_normal((N, 2))
            x = x.astype(dt)
            z = pb.Signal(x, sample_rate=1 * u.kHz, start_time=Time(59000.0, format="mjd"))
            for s in (N // 3, -(N // 5), 1, 6 * u.ms, 6000 * u.us, 0.006 * u.s):
                ev += 1
                sv = s if not isinstance(s, u.Quantity) else int(round((s * z.sample_rate).to_value(u.one)))
                y = pb.time_shift(z, s)
                want = np.zeros_like(x)
                if sv >= 0:
                    want[sv:] = x[: N - sv]
                else:
                    want[: N + sv] = x[-sv:]
                err = np.max(np.abs(np.asarray(y.data) - want)) / np.max(np.abs(x))
                # single-precision data carries ~1e-7 per operation; double-precision data must keep double accuracy
                if not (err <= (2e-5 if np.dtype(dt).itemsize <= 8 and np.dtype(dt).kind == "c" or np.dtype(dt) == np.float32 else 1e-10)):
                    fails.append(_fail("time_shift", "integer-shift-moves-samples", f"N={N},{np.dtype(dt).name},shift={s}", f"relative error {err:.2e}"))
                if y.data.dtype != x.dtype:
                    fails.append(_fail("time_shift", "dtype-kept", f"N={N},{np.dtype(dt).name}", str(y.data.dtype)))
    # whole-sample shifts given as durations whose product with the rate is exact: exactly that many edge samples
    for rate, dur, nshift in ((3 * u.GHz, 5 * u.ns, 15), (10 * u.GHz, -3 * u.ns, -30), (7 * u.GHz, 9 * u.ns, 63), (2.5 * u.GHz, 6 * u.ns, 15), (5 * u.kHz, 3 * u.ms, 15), (7 * u.kHz, 1 * u.ms, 7)):
        ev += 1
        N = 128
        x = np.random.default_rng(5).standard_normal(N) + 1.0
        z = pb.Signal(x, sample_rate=rate)
        y = np.asarray(pb.time_shift(z, dur).data)
        zeros = int(np.sum(y == 0))
        if zeros != abs(nshift):
            fails.append(_fail("time_shift", "duration-shift.edge-samples", f"sample_rate={rate}, shift={dur}", f"{zeros} samples zeroed, {abs(nshift)} expected"))
    return {"evaluations": ev, "distinct_nontrivial": ev, "failures": fails[:10], "samples": [{"N": sizes[0], "shift": "N//3 samples, 6 ms / 6000 us / 0.006 s at 1 kHz"}]}


def bounded_freq_shift(pb, interp, rng, tier):
    ev, fails = 0, []
    sizes = [4096, 16384] if tier == "quick" else [4096, 16384, 65536]
    for N in sizes:
        for dt in (np.complex64, np.complex128):
            g = np.random.default_rng(N + 1)
            x = (g.standard_normal((N, 2)) + 1j * g.standard_normal((N, 2))).astype(dt)
            sr = 1 * u.MHz
            z = pb.BasebandSignal(x, sample_rate=sr, center_freq=1 * u.GHz, start_time=Time(59000.0, format="mjd"))
            for k in (N // 3, -(N // 7), 1):
                ev += 1
                df = (k * sr / N).to(u.Hz)
                y = pb.freq_shift(z, df)
                X = np.fft.fftshift(np.fft.fft(x.astype(np.complex128), axis=0), axes=0)
                W = np.zeros_like(X)
                if k >= 0:
                    W[k:] = X[: N - k]
                else:
                    W[: N + k] = X[-k:]
                want = np.fft.ifft(np.fft.ifftshift(W, axes=0), axis=0)
                err = np.max(np.abs(np.asarray(y.data) - want)) / np.max(np.abs(x))
                if not (err <= (2e-5 if dt is np.complex64 else 1e-10)):
                    fails.append(_fail("freq_shift", "whole-bin-shift-moves-spectrum", f"N={N},{np.dtype(dt).name},bins={k}", f"relative error {err:.2e}"))
                if y.data.dtype != x.dtype:
                    fails.append(_fail("freq_shift", "dtype-kept", f"N={N},{np.dtype(dt).name}", str(y.data.dtype)))
    # every small length, every whole-bin shift with exactly representable operands (sample_rate = N Hz,
    # shift = k Hz): exactly a circular move, only the wrapped-into bins zeroed
    for N in range(1, 25 if tier == "quick" else 65):
        x = np.zeros((N, 1), dtype=np.complex128)
        x[0, 0] = 1.0                                   # impulse: flat spectrum of ones
        z = pb.BasebandSignal(x, sample_rate=N * u.Hz, center_freq=1 * u.kHz)
        for k in range(-N - 1, N + 2):
            ev += 1
            y = pb.freq_shift(z, k * u.Hz)
            Y = np.fft.fftshift(np.fft.fft(np.asarray(y.data)[:, 0]))
            W = np.zeros(N)
            if 0 <= k < N:
                W[k:] = 1
            elif -N < k < 0:
                W[: N + k] = 1
            if not np.allclose(Y, W, rtol=0, atol=1e-9):
                fails.append(_fail("freq_shift", "whole-bin-shift-exact-small-N", f"N={N},sample_rate={N} Hz,shift={k} Hz", f"spectrum {np.round(np.abs(Y), 3).tolist()} expected {W.tolist()}"))
                break
    return {"evaluations": ev, "distinct_nontrivial": ev, "failures": fails[:10], "samples": [{"N": sizes[0], "bins": "N//3, -(N//7), 1"}, {"small": "N < 25, every whole-bin shift |k| <= N+1"}]}
