"""Bounded complement for C01 (never counted as proved): start times at rates whose sample period is not a whole
number of nanoseconds (the deductive layer has exact Time arithmetic, model E; a representation of the start time
that rounds -- to nanoseconds, to a float of days -- is outside it)."""
import numpy as np
import astropy.units as u
from astropy.time import Time


def bounded(pb, interp, rng, tier):
    ev, fails = 0, []

    def fail(fn, what, inst, detail):
        if sum(1 for f_ in fails if f_["what"] == what) < 8:
            fails.append({"function": fn, "what": what, "instance": inst, "inputs": {"case": inst}, "observed": str(detail)[:200], "status": "mismatch"})
    t0 = Time("2021-03-04T05:06:07.123456789", scale="utc", precision=9)
    # an instant carried by an astropy Time is resolved to 2 ulp of a day (trusted base); three of them for
    # start + k/rate - start, expressed in seconds
    res = 3 * 2.0 ** -52 * 86400 * 2
    for sr in (1.6 * u.GHz, 2.5 * u.GHz, 3 * u.GHz, 800 * u.MHz, 33 * u.kHz, 7 * u.Hz):
        dt = (1 / sr).to_value(u.s)
        z = pb.Signal(np.arange(64, dtype=np.float64).reshape(32, 2), sample_rate=sr, start_time=t0)
        ops = [("z[1:]", lambda s: s[1:], 1), ("z[7:20]", lambda s: s[7:20], 7), ("z[3::2]", lambda s: s[3::2], 3), ("z[-5:]", lambda s: s[-5:], 27),
               ("snippet(z, 9, 4)", lambda s: pb.snippet(s, 9, 4), 9), ("time_shift(z, 2, crop=True)", lambda s: pb.time_shift(s, 2, crop=True), 2),
               ("z[1:][1:][1:]", lambda s: s[1:][1:][1:], 3), ("z[4:][2:9][1:]", lambda s: s[4:][2:9][1:], 7)]
        for name, op, k in ops:
            ev += 1
            inst = f"{name} at {sr}"
            try:
                y = op(z)
                got = (y.start_time - t0).to_value(u.s)
                if abs(got - k * dt) > res:
                    fail("pulsarbat.core.Signal.start_time", "start-advance.sub-nanosecond", inst, f"start_time advanced by {got!r} s, {k} samples are {k * dt!r} s")
                stop = (y.stop_time - y.start_time).to_value(u.s)
                want = len(y) / y.sample_rate.to_value(u.Hz)
                if abs(stop - want) > res:
                    fail("pulsarbat.core.Signal.stop_time", "stop-minus-start.sub-nanosecond", inst, f"{stop!r} s for {len(y)} samples ({want!r} s)")
            except Exception as e:
                fail("pulsarbat.core.Signal.start_time", "start-advance.raises", inst, f"{type(e).__name__}: {e}")
        # the empty crop: [start, stop) is empty, so no time is a member -- not even start_time itself
        for name, op in (("z[5:5]", lambda s: s[5:5]), ("z[40:]", lambda s: s[40:]), ("snippet(z, 4, 0)", lambda s: pb.snippet(s, 4, 0))):
            ev += 1
            try:
                y = op(z)
                if len(y) == 0 and (y.contains(y.start_time) or (y.start_time in y)):
                    fail("pulsarbat.core.Signal.contains", "empty-signal-has-no-member", f"{name} at {sr}", "start_time reported inside an empty interval")
            except Exception as e:
                fail("pulsarbat.core.Signal.contains", "empty-signal.raises", f"{name} at {sr}", f"{type(e).__name__}: {e}")
    return {"evaluations": ev, "distinct_nontrivial": ev, "failures": fails, "samples": [{"rates": "1.6/2.5/3 GHz, 800 MHz, 33 kHz, 7 Hz", "tolerance_s": res}]}
