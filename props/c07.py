"""Bounded stand-in for C07 / C15 (never counted as proved): Phase arithmetic on adversarial values,
every operand kind and order, against exact rational arithmetic (fractions.Fraction)."""
from fractions import Fraction
import itertools
import math
import numpy as np
import astropy.units as u

EPS = Fraction(1, 2 ** 52)


def fr(x):
    return Fraction(float(x))


def exact(p):
    """Exact value of a scalar Phase (cycles) as a Fraction."""
    v = p.view(np.ndarray)
    return fr(v["int"]) + fr(v["frac"])


def parts(p):
    v = p.view(np.ndarray)
    return float(v["int"]), float(v["frac"])


COUNTS = [0, 1, -1, 7, -12345678901, 2 ** 52 - 1, -(2 ** 52 - 1), 2 ** 52, -(2 ** 52), 3 * 2 ** 40 + 1]
FRACS = [0.0, 0.5, -0.5, 0.5 - 2.0 ** -54, -(0.5 - 2.0 ** -54), 5e-324, -5e-324, 0.3, -0.125, 0.25, 1e-17]
UNNORMALISED = [(5.0, 0.75), (2.5, 0.5), (-3.0, -0.75), (1e15, 123.625), (0.1, 0.2)]


def kinds(x):
    """The same dimensionless number as different operand kinds."""
    yield "pyfloat", float(x)
    if float(x).is_integer() and abs(x) < 2 ** 53:
        yield "pyint", int(x)
    yield "np.float64", np.float64(x)
    yield "0-d array", np.array(float(x))
    yield "1-d array", np.array([float(x)])
    yield "Quantity(one)", float(x) * u.dimensionless_unscaled


def cyc_kinds(x):
    yield "pyfloat", float(x)
    yield "np.float64", np.float64(x)
    yield "0-d array", np.array(float(x))
    yield "1-d array", np.array([float(x)])
    yield "Quantity(cycle)", float(x) * u.cycle


def scalar(p):
    return p[0] if getattr(p, "shape", ()) else p


def _imod(p, d):
    p %= d
    return p


def _rem_out(p, d):
    import numpy as _np
    return _np.remainder(p, d, out=p)


def bounded(pb, interp, rng, tier):
    Phase = pb.Phase
    ev, fails, samples, distinct = 0, [], [], set()

    def fail(fn, what, inst, detail):
        if sum(1 for f_ in fails if f_["what"] == what) < 8:      # cap per kind: a known finding must not crowd out a new failure
            fails.append({"function": f"pulsarbat.pulsar.phase.{fn}", "what": what, "instance": inst, "inputs": {"case": inst}, "observed": detail, "status": "mismatch"})

    def check(fn, what, inst, thunk, want, tol=EPS, imaginary=False):
        nonlocal ev
        ev += 1
        distinct.add((what, inst))
        try:
            r = thunk()
        except Exception as e:
            fail(fn, f"{what}.raises", inst, f"{type(e).__name__}: {str(e)[:120]}")
            return
        r = scalar(r)
        if not isinstance(r, Phase):
            fail(fn, f"{what}.degrades-to-{type(r).__name__}", inst, repr(r)[:120])
            return
        if bool(r.imaginary) != imaginary:
            fail(fn, f"{what}.imaginary-flag", inst, f"{r.imaginary}")
            return
        i, f = parts(r)
        if not (math.isfinite(float(i)) and math.isfinite(float(f))):
            fail(fn, f"{what}.not-finite", inst, f"int={i!r} frac={f!r}")
            return
        if not float(i).is_integer() or abs(f) > 0.5:
            fail(fn, f"{what}.not-normalised", inst, f"int={i!r} frac={f!r}")
        got = fr(i) + fr(f)
        if abs(got - want) > tol:
            fail(fn, f"{what}.value", inst, f"got {float(got)!r} (err {float(got - want):.3e}), want {float(want)!r}")

    vals = [(c, f) for c in COUNTS for f in FRACS if abs(c) + abs(f) <= 2 ** 52] + UNNORMALISED
    step = 1 if tier == "thorough" else 3
    vals_q = vals[::step] + UNNORMALISED
    # ---- construction from one or two numbers of every kind
    for c, f in vals_q:
        want = fr(c) + fr(f)
        for k1, a in cyc_kinds(c):
            for k2, b in (cyc_kinds(f) if tier == "thorough" else list(cyc_kinds(f))[:2]):
                check("Phase.__new__", "construct2", f"Phase({k1} {c!r}, {k2} {f!r})", lambda a=a, b=b: Phase(a, b), want)
        for k1, a in cyc_kinds(c):
            check("Phase.__new__", "construct1", f"Phase({k1} {c!r})", lambda a=a: Phase(a), fr(c))
    if len(samples) < 2:
        samples.append({"case": "Phase(2**52-1, 0.5-2**-54)", "exact": str(fr(2 ** 52 - 1) + fr(0.5 - 2.0 ** -54))})
    # ---- arithmetic
    try:
        # operands of the arithmetic tests: the exact value *held by the constructed Phase*
        base = [(p_, exact(p_)) for p_ in (Phase(float(c), f) for c, f in vals_q if abs(c) <= 2 ** 51)]
    except Exception as e:
        fail("Phase.__new__", "construct2.raises", "building operands", f"{type(e).__name__}: {str(e)[:120]}")
        return {"evaluations": ev, "distinct_nontrivial": len(distinct), "failures": fails, "samples": samples}
    pairs = list(itertools.product(base[::2], base[1::3]))
    if tier != "thorough":
        pairs = pairs[:: max(1, len(pairs) // 150)]
    for (p, ep), (q, eq) in pairs:
        if abs(ep + eq) <= 2 ** 52:
            check("Phase.__array_ufunc__", "add", f"{parts(p)}+{parts(q)}", lambda p=p, q=q: p + q, ep + eq)
        if abs(ep - eq) <= 2 ** 52:
            check("Phase.__array_ufunc__", "subtract", f"{parts(p)}-{parts(q)}", lambda p=p, q=q: p - q, ep - eq)
    for p, ep in base:
        check("Phase.__array_ufunc__", "negative", f"-{parts(p)}", lambda p=p: -p, -ep)
        check("Phase.__array_ufunc__", "absolute", f"abs{parts(p)}", lambda p=p: abs(p), abs(ep))
        for k, x in cyc_kinds(0.375):
            if abs(ep) + 1 <= 2 ** 52:
                check("Phase.__array_ufunc__", "add-number", f"{parts(p)}+{k}", lambda p=p, x=x: p + x, ep + Fraction(3, 8))
                check("Phase.__array_ufunc__", "radd-number", f"{k}+{parts(p)}", lambda p=p, x=x: x + p, ep + Fraction(3, 8))
                check("Phase.__array_ufunc__", "rsub-number", f"{k}-{parts(p)}", lambda p=p, x=x: x - p, Fraction(3, 8) - ep)
    factors = [2.0, 3.0, 0.1, -1.5, 1e-3, 7.0]
    for p, ep in base[:: (1 if tier == "thorough" else 2)]:
        for x in factors:
            fx = fr(x)
            if abs(ep * fx) <= 2 ** 52:
                for k, xv in kinds(x):
                    check("Phase.__array_ufunc__", "multiply", f"{parts(p)}*{k} {x}", lambda p=p, xv=xv: p * xv, ep * fx, tol=2 * EPS)
                    check("Phase.__array_ufunc__", "rmultiply", f"{k} {x}*{parts(p)}", lambda p=p, xv=xv: xv * p, ep * fx, tol=2 * EPS)
            if abs(ep / fx) <= 2 ** 52:
                for k, xv in kinds(x):
                    check("Phase.__array_ufunc__", "divide", f"{parts(p)}/{k} {x}", lambda p=p, xv=xv: p / xv, ep / fx, tol=2 * EPS)
    # ---- floor division / remainder / divmod by a phase of d cycles
    for p, ep in base[::3]:
        for d in (1.0, 0.25, 3.0, 0.1):
            fd_want = math.floor(ep / fr(d))
            rem_want = ep - fd_want * fr(d)
            if abs(fd_want) > 2 ** 52:
                continue
            dq = d * u.cycle
            ev += 1
            distinct.add(("divmod", parts(p), d))
            try:
                fd, rem = np.divmod(p, dq)
                fd2, rem2 = p // dq, p % dq
            except Exception as e:
                fail("Phase.__array_ufunc__", "divmod.raises", f"divmod({parts(p)}, {d})", f"{type(e).__name__}: {str(e)[:100]}")
                continue
            fdv = Fraction(float(getattr(fd, "value", fd)))
            if not isinstance(rem, Phase):
                fail("Phase.__array_ufunc__", "divmod.remainder-degrades", f"divmod({parts(p)}, {d})", type(rem).__name__)
                continue
            er = exact(rem)
            # self = fd*d + rem within 2^-52, 0 <= rem < d (up to the resolution), fd integer
            if fdv.denominator != 1 or abs(fdv * fr(d) + er - ep) > 2 * EPS or er < -2 * EPS or er > fr(d) + 2 * EPS:
                fail("Phase.__array_ufunc__", "divmod.identity", f"divmod({parts(p)}, {d})", f"fd={float(fdv)} rem={float(er)} want fd={fd_want} rem={float(rem_want)}")
            if exact(rem2) != er or Fraction(float(getattr(fd2, "value", fd2))) != fdv:
                fail("Phase.__array_ufunc__", "divmod.consistency", f"{parts(p)} // and % {d}", "operators disagree with np.divmod")
    # ---- negative divisors (a negative remainder is then the legitimate result) and divisors given as arrays
    for pv, dv in (((10.0, 0.3), -3.0), ((10.0, 0.3), -0.25), ((-7.0, 0.125), -2.0), ((2.0 ** 40, 0.25), -3.0)):
        ev += 1
        distinct.add(("divmod-negative", pv, dv))
        try:
            p_ = Phase(*pv)
            ep_ = exact(p_)
            fd, rem = np.divmod(p_, dv * u.cycle)
            fdv = Fraction(float(getattr(fd, "value", fd)))
            want_fd = math.floor(ep_ / fr(dv))
            if fdv != want_fd or abs(exact(rem) - (ep_ - want_fd * fr(dv))) > 2 * EPS:
                fail("Phase.__array_ufunc__", "divmod.negative-divisor", f"divmod(Phase{pv}, {dv})", f"fd={float(fdv)} rem={float(exact(rem))} want fd={want_fd}")
        except Exception as e:
            fail("Phase.__array_ufunc__", "divmod.negative-divisor.raises", f"divmod(Phase{pv}, {dv})", f"{type(e).__name__}: {str(e)[:80]}")
    # ---- factor / divisor arrays are arguments: bit-identical afterwards, and the same result when reused
    for what, mk in (("imag-phase*imag-array", lambda a: Phase(3j, .25j) * a), ("imag-phase/imag-array", lambda a: Phase(3j, .25j) / a), ("phase*real-array", lambda a: Phase(3, .25) * a)):
        arr = np.array([2j, -3j, .5j]) if "imag-array" in what else np.array([2.0, -3.0, .5])
        a0 = arr.copy()
        ev += 1
        distinct.add(("operand-unchanged", what))
        try:
            r1 = mk(arr)
            r2 = mk(arr)
            if not np.array_equal(arr, a0):
                fail("Phase.from_angles", "operand-array-mutated", what, f"{a0} -> {arr}")
            elif not np.array_equal(np.asarray(r1.view(np.ndarray)), np.asarray(r2.view(np.ndarray))):
                fail("Phase.from_angles", "operand-array-reuse-differs", what, "second use of the same array gives another result")
        except Exception as e:
            fail("Phase.from_angles", "operand-array.raises", what, f"{type(e).__name__}: {str(e)[:80]}")
    # ---- the same with a Phase as divisor, a Quantity as dividend, and in place
    for what, thunk, want_fd, want_rem in (
            ("floordiv-by-phase", lambda: Phase(10, .25) // Phase(3), 3, None),
            ("remainder-by-phase", lambda: Phase(10, .25) % Phase(3), None, Fraction(5, 4)),
            ("divmod-by-phase", lambda: divmod(Phase(10, .25), Phase(3)), 3, Fraction(5, 4)),
            ("quantity-floordiv-phase", lambda: (7.5 * u.cycle) // Phase(3), 2, None),
            ("quantity-remainder-phase", lambda: (7.5 * u.cycle) % Phase(3), None, Fraction(3, 2))):
        ev += 1
        distinct.add(("divmod-kinds", what))
        try:
            r = thunk()
        except (Exception, RecursionError) as e:
            fail("Phase.__array_ufunc__", f"divmod-kinds.{what}.raises", what, type(e).__name__)
            continue
        fdr, remr = (r if isinstance(r, tuple) else ((r, None) if want_rem is None else (None, r)))
        if want_fd is not None and Fraction(float(getattr(fdr, "value", fdr))) != want_fd:
            fail("Phase.__array_ufunc__", f"divmod-kinds.{what}.value", what, repr(fdr))
        if want_rem is not None:
            got = exact(remr) if isinstance(remr, Phase) else Fraction(float(remr.to_value(u.cycle)))
            if abs(got - want_rem) > 2 * EPS:
                fail("Phase.__array_ufunc__", f"divmod-kinds.{what}.value", what, repr(remr))
    for what, thunk in (("imod", lambda: _imod(Phase(10, .25), 3 * u.cycle)), ("remainder-out", lambda: _rem_out(Phase(10, .25), 3 * u.cycle))):
        ev += 1
        distinct.add(("divmod-inplace", what))
        try:
            r = thunk()
            if not isinstance(r, Phase) or abs(exact(r) - Fraction(5, 4)) > 2 * EPS:
                fail("Phase.__array_ufunc__", f"divmod-inplace.{what}.value", "Phase(10, .25) %= 3 cycle", repr(r))
        except Exception as e:
            fail("Phase.__array_ufunc__", f"divmod-inplace.{what}.raises", what, type(e).__name__)
    # ---- two-number construction from narrow float types
    for what, a, b_, want in (("float32-scalars", np.float32(0.1), np.float32(0.2), fr(float(np.float32(0.1))) + fr(float(np.float32(0.2)))),
                              ("float32-arrays", np.array([1.25], np.float32), np.array([1e-8], np.float32), fr(1.25) + fr(float(np.float32(1e-8)))),
                              ("float32-carry", np.float32(16777216), np.float32(1), Fraction(16777217))):
        ev += 1
        distinct.add(("narrow", what))
        try:
            q = Phase(a, b_)
            i_, f_ = parts(q) if np.ndim(a) == 0 else (float(q["int"].value[0]), float(q["frac"].value[0]))
            if abs(fr(i_) + fr(f_) - want) > EPS or abs(f_) > 0.5:
                fail("Phase.from_angles", f"construct-narrow.{what}", f"Phase({a!r}, {b_!r})", f"({i_}, {f_}) for exact {float(want)!r}")
        except Exception as e:
            fail("Phase.from_angles", f"construct-narrow.{what}.raises", what, f"{type(e).__name__}: {e}")
    for what, thunk, want in (("times-float16", lambda: Phase(10, .25) * np.float16(2), Fraction(41, 2)), ("rtimes-float16", lambda: np.float16(2) * Phase(10, .25), Fraction(41, 2)),
                              ("div-float16", lambda: Phase(10, .25) / np.float16(2), Fraction(41, 8))):
        check("Phase.__array_ufunc__", f"narrow-factor.{what}", what, thunk, want, tol=2 * EPS)
    # ---- imaginary phases: i*i = -1
    # (a count or a fraction that is exactly zero is still imaginary: 0j is on both axes)
    for c, f in [(3.0, 0.25), (-7.0, 0.5), (2.0 ** 40, -0.125), (0.0, 0.25), (5.0, 0.0), (2.0 ** 40 + 5, 0.0), (0.0, -0.5)]:
        want = fr(c) + fr(f)
        check("Phase.from_angles", "imag.construct", f"Phase({c}j,{f}j)", lambda c=c, f=f: Phase(c * 1j, f * 1j), want, imaginary=True)
        try:
            pi_ = Phase(c * 1j, f * 1j)
            check("Phase.from_angles", "imag.times-i", f"Phase({c}j,{f}j)*1j", lambda pi_=pi_: pi_ * 1j, -want, imaginary=False)
            check("Phase.from_angles", "imag.times-real", f"Phase({c}j,{f}j)*2", lambda pi_=pi_: pi_ * 2.0, 2 * want, tol=2 * EPS, imaginary=True)
            check("Phase.from_angles", "real.times-i", f"Phase({c},{f})*1j", lambda c=c, f=f: Phase(c, f) * 1j, want, imaginary=True)
            check("Phase.from_angles", "imag.div-i", f"Phase({c}j,{f}j)/1j", lambda pi_=pi_: pi_ / 1j, want, imaginary=False)
            check("Phase.from_angles", "imag.div-real", f"Phase({c}j,{f}j)/4", lambda pi_=pi_: pi_ / 4.0, want / 4, tol=2 * EPS, imaginary=True)
            check("Phase.from_angles", "imag.negate", f"-Phase({c}j,{f}j)", lambda pi_=pi_: -pi_, -want, imaginary=True)
            check("Phase.from_angles", "imag.add", f"Phase({c}j,{f}j)+Phase(1j,0.125j)", lambda pi_=pi_: pi_ + Phase(1j, 0.125j), want + Fraction(9, 8), imaginary=True)
            check("Phase.from_angles", "imag.sub", f"Phase({c}j,{f}j)-Phase(1j,0.125j)", lambda pi_=pi_: pi_ - Phase(1j, 0.125j), want - Fraction(9, 8), imaginary=True)
            if f == 0.0:
                check("Phase.from_angles", "imag.construct-one-number", f"Phase({c}j)", lambda c=c: Phase(c * 1j), fr(c), imaginary=True)
        except Exception as e:
            fail("Phase.from_angles", "imag.raises", f"Phase({c}j,{f}j)", f"{type(e).__name__}: {str(e)[:100]}")
    # ---- sin / cos / exp(i phase) depend only on the fractional part
    for p, ep in base[::4]:
        i, f = parts(p)
        ev += 1
        distinct.add(("trig", i, f))
        try:
            s, c_ = float(np.sin(p)), float(np.cos(p))
            e = complex(np.exp(p * 1j).value) if hasattr(np.exp(p * 1j), "value") else complex(np.exp(p * 1j))
        except Exception as ex:
            fail("Phase.__array_ufunc__", "trig.raises", f"sin/cos/exp of {parts(p)}", f"{type(ex).__name__}: {str(ex)[:100]}")
            continue
        ws, wc = math.sin(2 * math.pi * f), math.cos(2 * math.pi * f)
        if abs(s - ws) > 1e-14 or abs(c_ - wc) > 1e-14 or abs(e - complex(wc, ws)) > 1e-14:
            fail("Phase.__array_ufunc__", "trig.uses-fraction-only", f"{parts(p)}", f"sin={s!r} want {ws!r}")
    return {"evaluations": ev, "distinct_nontrivial": len(distinct), "failures": fails, "samples": samples}
