"""Bounded stand-in for C09 (never counted as proved): every public operation on Dask-backed
signals vs the NumPy-backed equivalent, over chunk layouts and schedulers, with a sentinel task
counter showing that building the result computes nothing."""
import threading
import numpy as np
import astropy.units as u
from astropy.time import Time


class Counter:
    def __init__(self):
        self.n = 0
        self.lock = threading.Lock()

    def __getstate__(self):           # the process scheduler pickles the task graph: a lock is not picklable, and the
        return {"n": self.n}          # copies counted in worker processes are of no interest (laziness is judged
                                      # before any compute, in this process)
    def __setstate__(self, st):
        self.n = st["n"]
        self.lock = threading.Lock()

    def hit(self, x):
        if getattr(x, "size", 1):        # dask probes the function with an empty "meta" array: not a task
            with self.lock:
                self.n += 1
        return x


def lazy_array(x, chunks, counter):
    """Dask array over x whose every block passes through the sentinel when (and only when) computed."""
    import dask.array as da
    d = da.from_array(x, chunks=chunks)
    return d.map_blocks(counter.hit, dtype=x.dtype, meta=np.array((), dtype=x.dtype))


def layouts(shape):
    nd = len(shape)
    yield "single", (-1,) * nd
    if nd > 1:
        yield "per-element", (-1,) + (1,) * (nd - 1)
        yield "uneven", (-1,) + tuple(max(1, (d + 1) // 2) for d in shape[1:])


def _meta(s):
    out = {"type": type(s).__name__, "shape": tuple(s.shape), "dtype": str(s.dtype)}
    for k in ("sample_rate", "center_freq", "chan_bw", "freq_align", "pol_type", "meta"):
        if hasattr(s, k):
            out[k] = str(getattr(s, k))
    st = s.start_time
    out["start_time"] = None if st is None else (float(st.jd1), float(st.jd2))
    return out


def bounded(pb, interp, rng, tier):
    import dask
    import dask.array as da
    ev, fails, samples, distinct = 0, [], [], set()
    t0 = Time(59000.125, format="mjd")
    g = np.random.default_rng(3)
    N = 48
    xb = (g.standard_normal((N, 4, 2)) + 1j * g.standard_normal((N, 4, 2))).astype(np.complex64)
    xi = g.standard_normal((N, 4)).astype(np.float64)
    DM = pb.DM(0.02)       # ~10 samples of smearing across the 4 MHz band at 400 MHz, 1 MHz sampling

    def mk(cls, x, **kw):
        return lambda data: cls(data, sample_rate=1 * u.MHz, start_time=t0, **kw)
    makers = {
        "dualpol": (mk(pb.DualPolarizationSignal, xb, center_freq=400 * u.MHz, pol_type="linear", freq_align="bottom"), xb),
        "baseband": (mk(pb.BasebandSignal, xb, center_freq=400 * u.MHz), xb),
        "intensity": (mk(pb.IntensitySignal, xi, center_freq=400 * u.MHz, chan_bw=1 * u.MHz), xi),
        "signal": (mk(pb.Signal, xi), xi),
    }
    ops = [
        ("slice", "signal", lambda z: z[3:41:2]),
        ("freq-slice", "baseband", lambda z: z[5:, 1:3]),
        ("fast_len", "signal", lambda z: pb.fast_len(z)),
        ("time_shift.scalar", "baseband", lambda z: pb.time_shift(z, 2.5)),
        ("time_shift.array.crop", "baseband", lambda z: pb.time_shift(z, np.array([1.5, -2.0, 0.0, 3.25]), crop=True)),
        ("time_shift.real", "intensity", lambda z: pb.time_shift(z, -1.75)),
        ("freq_shift", "baseband", lambda z: pb.freq_shift(z, 0.13 * u.MHz)),
        ("freq_shift.array", "dualpol", lambda z: pb.freq_shift(z, np.array([0.1, -0.2, 0.0, 0.3]) * u.MHz)),
        ("snippet.frac", "baseband", lambda z: pb.snippet(z, 3.5, 20)),
        ("snippet.int", "signal", lambda z: pb.snippet(z, 4, 20)),
        ("concatenate", "baseband", lambda z: pb.concatenate([z[:10], z[10:30], z[30:]])),
        ("coherent_dedispersion", "baseband", lambda z: pb.coherent_dedispersion(z, DM)),
        ("incoherent_dedispersion", "intensity", lambda z: pb.incoherent_dedispersion(z, pb.DM(0.03))),
        ("to_stokes", "dualpol", lambda z: z.to_stokes()),
        ("to_circular", "dualpol", lambda z: z.to_circular()),
        ("to_linear.roundtrip", "dualpol", lambda z: z.to_circular().to_linear()),
        ("to_intensity", "baseband", lambda z: z.to_intensity()),
        ("stokes.Q", "dualpol", lambda z: z.to_stokes()["Q"]),
        ("ufunc.mul", "baseband", lambda z: z * 2),
        ("ufunc.abs", "baseband", lambda z: np.abs(z.to_intensity())),
        ("pb.fft.fft", "baseband", None),
        ("stft", "baseband", lambda z: pb.contrib.stft(z, nperseg=4)),
        ("signal_transform", "intensity", lambda z: pb.signal_transform(lambda a, k=1: a * k + 1)(z, k=3)),
        ("rechunk", "baseband", lambda z: z.rechunk()),
        ("to_dask_array", "baseband", lambda z: z.to_dask_array()),
        ("persist", "baseband", lambda z: z.persist()),
    ]
    schedulers = ["synchronous", "threads"] + (["processes"] if tier == "thorough" else [])

    def fail(what, inst, detail):
        if sum(1 for f_ in fails if f_["what"] == what) < 8:      # cap per kind: a known finding must not crowd out a new failure
            fails.append({"function": "pulsarbat (Dask back end)", "what": what, "instance": inst, "inputs": {"case": inst}, "observed": str(detail)[:200], "status": "mismatch"})

    for name, mk_name, op in ops:
        maker, x = makers[mk_name]
        if op is None:      # pb.fft on bare arrays
            ref = pb.fft.fft(x, axis=0)
            for lname, ch in layouts(x.shape):
                cnt = Counter()
                d = lazy_array(x, ch, cnt)
                r = pb.fft.fft(d, axis=0)
                ev += 1
                distinct.add((name, lname))
                if not isinstance(r, da.Array) or cnt.n:
                    fail(f"{name}.lazy", lname, f"type {type(r).__name__}, tasks run {cnt.n}")
                elif r.dtype != ref.dtype or not np.array_equal(r.compute(scheduler="synchronous"), ref):
                    fail(f"{name}.values", lname, "differs from the NumPy result")
            continue
        try:
            ref = op(maker(x))
        except Exception as e:
            fail(f"{name}.numpy-raises", "", f"{type(e).__name__}: {e}")
            continue
        refd = np.asarray(ref.data)
        for lname, ch in layouts(x.shape):
            cnt = Counter()
            zd = maker(lazy_array(x, ch, cnt))
            ev += 1
            distinct.add((name, lname))
            try:
                r = op(zd)
            except Exception as e:
                fail(f"{name}.raises", lname, f"{type(e).__name__}: {str(e)[:150]}")
                continue
            if name != "persist":
                if cnt.n:
                    fail(f"{name}.computed-during-construction", lname, f"{cnt.n} sentinel tasks ran")
                if not isinstance(r.data, da.Array):
                    fail(f"{name}.not-dask", lname, type(r.data).__name__)
                    continue
            m1, m2 = _meta(r), _meta(ref)
            if m1 != m2:
                fail(f"{name}.metadata", lname, {k: (m1[k], m2[k]) for k in m1 if m1[k] != m2.get(k)})
            for sch in schedulers:
                if sch == "processes" and name in ("signal_transform",):
                    continue
                ev += 1
                try:
                    with dask.config.set(scheduler=sch):
                        val = np.asarray(r.compute().data if hasattr(r, "compute") else r.data)
                except Exception as e:
                    fail(f"{name}.compute-raises", f"{lname},{sch}", f"{type(e).__name__}: {str(e)[:150]}")
                    continue
                tol = 0 if name in ("slice", "freq-slice", "fast_len", "snippet.int", "concatenate", "ufunc.mul", "stokes.Q", "to_intensity", "rechunk",
                                    "to_dask_array", "persist", "signal_transform", "incoherent_dedispersion", "to_stokes", "ufunc.abs") else 2e-6
                scale = max(1e-30, float(np.max(np.abs(refd))) if refd.size else 1.0)
                if val.shape != refd.shape or val.dtype != refd.dtype or not (np.max(np.abs(val - refd), initial=0.0) <= tol * scale):
                    fail(f"{name}.values", f"{lname},{sch}", f"max abs diff {np.max(np.abs(val - refd), initial=0.0):.2e} (shape {val.shape} vs {refd.shape}, {val.dtype} vs {refd.dtype})")
            if len(samples) < 2:
                samples.append({"operation": name, "chunks": lname, "schedulers": schedulers})
        # compute(): container only
        zd = maker(da.from_array(x, chunks=(-1,) + (1,) * (x.ndim - 1)))
        c = op(zd).compute()
        ev += 1
        if not isinstance(c.data, np.ndarray) or _meta(c) != _meta(ref):
            fail(f"{name}.compute-container", "", type(c.data).__name__)
    # ---- several lazily built results that differ only in a parameter, combined in ONE graph
    # (task names must distinguish them: a collision silently substitutes one result for the other)
    pairs = [
        ("coherent_dedispersion(DM 1 vs 3)", "baseband", lambda z: pb.coherent_dedispersion(z, pb.DM(0.01)), lambda z: pb.coherent_dedispersion(z, pb.DM(0.03))),
        ("coherent_dedispersion(ref_freq)", "baseband", lambda z: pb.coherent_dedispersion(z, DM, ref_freq=399 * u.MHz), lambda z: pb.coherent_dedispersion(z, DM, ref_freq=401 * u.MHz)),
        ("time_shift(1.5 vs 2.5)", "baseband", lambda z: pb.time_shift(z, 1.5), lambda z: pb.time_shift(z, 2.5)),
        ("freq_shift(0.1 vs 0.2 MHz)", "baseband", lambda z: pb.freq_shift(z, 0.1 * u.MHz), lambda z: pb.freq_shift(z, 0.2 * u.MHz)),
        ("signal_transform(k=2 vs 3)", "intensity", lambda z: pb.signal_transform(lambda a, k=1: a * k)(z, k=2), lambda z: pb.signal_transform(lambda a, k=1: a * k)(z, k=3)),
        ("snippet(3.5 vs 4.5)", "baseband", lambda z: pb.snippet(z, 3.5, 20), lambda z: pb.snippet(z, 4.5, 20)),
    ]
    for name, mk_name, opa, opb in pairs:
        maker, x = makers[mk_name]
        ev += 1
        distinct.add(("pair", name))
        try:
            ra, rb = opa(maker(x)), opb(maker(x))
            n = min(len(ra), len(rb))
            want = np.asarray(ra.data)[:n] - np.asarray(rb.data)[:n]
            zd = maker(da.from_array(x, chunks=(-1,) + (1,) * (x.ndim - 1)))
            da_, db_ = opa(zd), opb(zd)
            got = (da_.data[:n] - db_.data[:n]).compute(scheduler="synchronous")
            scale = max(1e-30, float(np.max(np.abs(np.asarray(ra.data)), initial=0.0)))
            if n == 0:
                fail("combined-graph.empty", name, "harness: empty result")
            if got.shape != want.shape or not (np.max(np.abs(got - want), initial=0.0) <= 4e-6 * scale):
                fail("combined-graph.values", name, f"max abs diff {np.max(np.abs(got - want), initial=0.0):.2e}")
        except Exception as e:
            fail("combined-graph.raises", name, f"{type(e).__name__}: {str(e)[:150]}")
    # ---- the same operation on two DIFFERENT signals, results computed in one graph: each result is its own
    # (task names chosen by the library must depend on the data they are computed from)
    for name, mk_name, op in ops:
        if op is None or name == "persist":
            continue
        maker, x = makers[mk_name]
        x2 = (x[::-1] * 0.5 + 1).astype(x.dtype)
        ev += 1
        distinct.add(("two-inputs", name))
        try:
            w1, w2 = np.asarray(op(maker(x)).data), np.asarray(op(maker(x2)).data)
            ch = (-1,) + (1,) * (x.ndim - 1)
            r1, r2 = op(maker(da.from_array(x, chunks=ch))), op(maker(da.from_array(x2, chunks=ch)))
            g1, g2 = dask.compute(r1.data, r2.data, scheduler="synchronous")
            scale = max(1e-30, float(np.max(np.abs(w1), initial=0.0)), float(np.max(np.abs(w2), initial=0.0)))
            for tag_, g_, w_ in (("first", g1, w1), ("second", g2, w2)):
                g_ = np.asarray(g_)
                if g_.shape != w_.shape or not (np.max(np.abs(g_ - w_), initial=0.0) <= 4e-6 * scale):
                    fail("combined-graph.two-inputs.values", f"{name} ({tag_} of two signals computed together)",
                         f"max abs diff {np.max(np.abs(g_ - w_), initial=0.0) if g_.shape == w_.shape else 'shape'}")
        except Exception as e:
            fail("combined-graph.two-inputs.raises", name, f"{type(e).__name__}: {str(e)[:150]}")
    # ---- two readers of the same class, same offsets, different content: lazily read and computed in one graph
    try:
        class _Ramp(pb.readers.BaseReader):
            def __init__(self, base_, **kw):
                self.base_ = base_
                super().__init__(**kw)

            def _read_array(self, offset, n, /, **kwargs):
                k = np.arange(offset, offset + n, dtype=np.float64)[:, None]
                return (self.base_ + k + np.arange(self.shape[1])[None, :] / 10).astype(self.dtype)
        rkw = dict(shape=(64, 4), dtype=np.float64, sample_rate=1 * u.kHz, signal_type=pb.RadioSignal, chan_bw=1 * u.MHz)
        lo, hi = _Ramp(0.0, center_freq=398 * u.MHz, **rkw), _Ramp(1000.0, center_freq=402 * u.MHz, **rkw)
        for chunks in ((-1, -1), (-1, 2)):
            ev += 1
            distinct.add(("two-readers", chunks))
            a, b = lo.dask_read(8, 16, chunks=chunks), hi.dask_read(8, 16, chunks=chunks)
            ga, gb = dask.compute(a.data, b.data, scheduler="synchronous")
            if not (np.array_equal(ga, lo.read(8, 16).data) and np.array_equal(gb, hi.read(8, 16).data)):
                fail("combined-graph.two-readers.values", f"two readers, read(8, 16), chunks={chunks}", "one reader's samples delivered for the other")
            xd = pb.concatenate([a, b], axis="freq").compute(scheduler="synchronous")
            xn = pb.concatenate([lo.read(8, 16), hi.read(8, 16)], axis="freq")
            if not np.array_equal(np.asarray(xd.data), np.asarray(xn.data)):
                fail("combined-graph.two-readers.concatenate", f"chunks={chunks}", "concatenated Dask reads differ from the NumPy reads")
    except Exception as e:
        fail("combined-graph.two-readers.raises", "", f"{type(e).__name__}: {str(e)[:150]}")
    # ---- "every Dask scheduler": a lazy read of a real file under the process scheduler (what the task graph
    # carries -- reader, arguments, defaults -- must survive pickling) equals the eager read
    try:
        import pathlib
        dd_ = pathlib.Path(pb.__file__).resolve().parent.parent / "tests" / "data"
        for fname in ("sample.vdif", "sample.dada"):
            if not (dd_ / fname).exists():
                continue
            ev += 1
            distinct.add(("process-scheduler-read", fname))
            rr = pb.readers.BasebandReader(dd_ / fname)
            want_ = np.asarray(rr.read(3, 64).data)
            try:
                got_ = np.asarray(rr.dask_read(3, 64).data.compute(scheduler="processes", num_workers=2))
                if not np.array_equal(got_, want_):
                    fail("reader.process-scheduler.values", fname, "differs from the eager read")
            except Exception as e:
                fail("reader.process-scheduler.raises", fname, f"{type(e).__name__}: {str(e)[:150]}")
    except Exception as e:
        fail("reader.process-scheduler.harness", "", f"{type(e).__name__}: {str(e)[:150]}")
    # lazily built per-channel chirps must stay distinct even when the channel frequencies differ
    # only in the 9th significant digit (task names derived from a lossy token would collide)
    ev += 1
    distinct.add(("chirp", "close-channels"))
    try:
        xz = np.zeros((6, 2), complex)
        kwz = dict(sample_rate=3 * u.Hz, center_freq=1.4 * u.GHz, freq_align="top")
        cn = pb.DM(0.3).chirp_from_signal(pb.BasebandSignal(xz, **kwz), ref_freq=500 * u.MHz)
        cd = pb.DM(0.3).chirp_from_signal(pb.BasebandSignal(da.from_array(xz, chunks=(-1, 1)), **kwz), ref_freq=500 * u.MHz)
        if not np.allclose(np.asarray(cd.compute(scheduler="synchronous")), np.asarray(cn), rtol=0, atol=1e-5):
            fail("chirp_from_signal.close-channel-frequencies", "2 channels 3 Hz apart at 1.4 GHz, DM 0.3, ref 500 MHz",
                 "the Dask chirp of one channel is the chirp of the other")
    except Exception as e:
        fail("chirp_from_signal.close-channel-frequencies.raises", "", f"{type(e).__name__}: {str(e)[:150]}")
    # the same function applied to differently shaped Dask signals one after the other (shared defaults must not leak)
    ev += 1
    try:
        f = pb.signal_transform(lambda a: a + 1)
        s1 = pb.Signal(da.from_array(np.zeros((32, 4)), chunks=(-1, 2)), sample_rate=1 * u.kHz)
        s2 = pb.Signal(da.from_array(np.zeros((48, 6)), chunks=(-1, 3)), sample_rate=1 * u.kHz)
        r1, r2 = f(s1), f(s2)
        if r1.shape != (32, 4) or r2.shape != (48, 6) or np.asarray(r2.compute().data).shape != (48, 6):
            fail("signal_transform.sequence-of-calls", "shapes (32,4) then (48,6)", f"{r1.shape}, {r2.shape}")
    except Exception as e:
        fail("signal_transform.sequence-of-calls.raises", "", f"{type(e).__name__}: {str(e)[:150]}")
    # container helpers on an empty signal (NumPy- and Dask-backed): only the container changes
    for be in ("numpy", "dask"):
        z0 = pb.Signal(np.zeros((8, 3)), sample_rate=1 * u.kHz)[5:5]
        if be == "dask":
            z0 = z0.to_dask_array()
        for hname in ("rechunk", "to_dask_array", "compute", "persist"):
            ev += 1
            try:
                r = getattr(z0, hname)()
                if type(r) is not type(z0) or r.shape != z0.shape or r.sample_rate != z0.sample_rate:
                    fail(f"container-helper.empty-signal.{hname}", f"{be}-backed signal of shape (0, 3)", f"{type(r).__name__} {r.shape}")
            except Exception as e:
                fail(f"container-helper.empty-signal.{hname}", f"{be}-backed signal of shape (0, 3)", f"{type(e).__name__}: {str(e)[:100]}")
    # signal_transform: keyword arguments of the wrapped function reach it on the Dask path too, and the
    # declared dtype is the one the function produces
    ev += 1
    try:
        @pb.signal_transform
        def cast(x, dtype=np.float64):
            return x.astype(dtype)
        sn = pb.Signal(np.arange(12.).reshape(6, 2), sample_rate=1 * u.kHz)
        sd = sn.to_dask_array()
        rn, rd = cast(sn, dtype=np.float32), cast(sd, dtype=np.float32)
        cd_ = np.asarray(rd.compute().data)
        if rd.dtype != rn.dtype or cd_.dtype != np.asarray(rn.data).dtype:
            fail("signal_transform.function-keyword-dtype", "cast(sig, dtype=np.float32)", f"numpy {rn.dtype}, dask declares {rd.dtype} computes {cd_.dtype}")
        rs = pb.signal_transform(np.sqrt)(pb.Signal(da.from_array(np.arange(12).reshape(6, 2), chunks=(-1, 1)), sample_rate=1 * u.kHz))
        if rs.dtype != np.float64 or np.asarray(rs.compute().data).dtype != np.float64:
            fail("signal_transform.result-dtype", "np.sqrt on int64 Dask data", f"{rs.dtype}")
    except Exception as e:
        fail("signal_transform.function-keyword-dtype.raises", "", f"{type(e).__name__}: {str(e)[:150]}")
    return {"evaluations": ev, "distinct_nontrivial": len(distinct), "failures": fails, "samples": samples}
